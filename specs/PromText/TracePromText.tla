---------------------------- MODULE TracePromText ----------------------------
(* Trace validation for C08.  The harness (harness/src/bin/c08.rs) logs, as   *)
(* code points,                                                               *)
(*  - `san`  : inputs and outputs of the real sanitize_metric_name /          *)
(*             sanitize_label_key / sanitize_label_value /                    *)
(*             sanitize_description: the spec's operators are re-evaluated on *)
(*             the logged input and must give the logged output, and the      *)
(*             logged output must satisfy the grammar / escaping properties;  *)
(*  - `scene`, `line`*, `end` : a configuration + families built on a real    *)
(*             PrometheusRecorder and every physical line of its render():    *)
(*             the recogniser of PromText.tla reads the real text (the        *)
(*             property), and every line must be a line the model renders for *)
(*             that scene, none missing (the binding of part 1 of PromText).   *)
(* `reset` starts a new run.  Anything else (`panic`, `vecmismatch`, ...) is  *)
(* not a behaviour.                                                           *)
EXTENDS PromText, Json, IOUtils, TLCExt
VARIABLES l,        \* index of the next event
          pending,  \* bag of model lines not yet seen in the real output
          note      \* "" or the first disagreement between model / parser and the real output
Rec == ndJsonDeserialize(IOEnv.TRACE)
tvars == <<vars, l, pending, note>>

Ev == Rec[l].ev
Step == l' = l + 1
Obs(cond) == cond /\ Step /\ UNCHANGED <<vars, pending, note>>

NoScene == [cfg |-> [suffix |-> FALSE, buckets |-> <<>>, overrides |-> <<>>, quantiles |-> <<>>, globals |-> <<>>], fams |-> <<>>]
Idle(ph) == [f |-> 0, ph |-> ph, s |-> 0]
NoLines == [m \in {} |-> 0]
BagOf(lines) == [m \in ToSet(lines) |-> Cardinality({i \in DOMAIN lines : lines[i] = m})]

\* a real line against a model line: equal, or (sample) model head followed by a float token
MatchLine(real, m) ==
  IF m # <<>> /\ Last(m) = VALMARK
  THEN LET h == Front(m) IN
       /\ Len(real) > Len(h)
       /\ SubSeq(real, 1, Len(h)) = h
       /\ IsFloatTok(SubSeq(real, Len(h) + 1, Len(real)))
  ELSE real = m

\* -------------------------------------------------------------- sanitiser calls
Embedded(val) ==   \* the real escaped value inside a sample line, the real description inside HELP
  LET txt == TYPEP \o <<109, SP>> \o T_COUNTER \o <<LF, 109, LB, 107, EQ, DQ>> \o val \o <<DQ, COMMA, 122, EQ, DQ, 120, DQ, RB, SP, 48, LF>>
      r == REnd(Recognise(NoCtx, RInit, txt))
  IN r.err = "" /\ r.nSample = 1 /\ r.nLabel = 2 /\ r.nType = 1 /\ r.nHelp = 0
EmbeddedDesc(d) ==
  LET txt == HELPP \o <<109, SP>> \o d \o <<LF>> \o TYPEP \o <<109, SP>> \o T_COUNTER \o <<LF, 109, SP, 48, LF>>
      r == REnd(Recognise(NoCtx, RInit, txt))
  IN r.err = "" /\ r.nSample = 1 /\ r.nLabel = 0 /\ r.nType = 1 /\ r.nHelp = 1
SanOK(c, deep) ==
  \* the code computes what the specification computes ...
  /\ SanitizeMetricName(c.in) = c.name
  /\ SanitizeLabelKey(c.in) = c.key
  /\ SanitizeLabelValue(c.in) = c.val
  /\ SanitizeDescription(c.in) = c.desc
  \* ... and the real outputs have the property
  /\ (c.in # <<>> => InNameGrammar(c.name) /\ InLabelGrammar(c.key))
  /\ EscapedOK(c.val, TRUE) /\ EscapedOK(c.desc, FALSE)
  /\ (deep => Embedded(c.val) /\ EmbeddedDesc(c.desc))

\* -------------------------------------------------------------- whole render
SceneEv ==
  LET sc == [cfg |-> Rec[l].cfg, fams |-> Rec[l].fams] IN
  /\ pc.ph = "idle"
  /\ inp' = sc /\ pc' = Start(sc) /\ out' = <<>> /\ rs' = RInit
  /\ pending' = BagOf(SceneLines(sc)) /\ note' = ""
  /\ Step
LineEv ==
  LET real == Rec[l].cps
      cands == {m \in DOMAIN pending : pending[m] > 0 /\ MatchLine(real, m)} IN
  /\ pc.ph # "idle" /\ pc.ph # "done"
  /\ rs' = Recognise(SceneCtx(inp), rs, real \o <<LF>>)
  /\ out' = real
  /\ pc' = Idle("lines")
  /\ IF cands = {}
     THEN /\ note' = (IF note = "" THEN "render() printed a line the model does not render for this scene" ELSE note)
          /\ UNCHANGED pending
     ELSE /\ LET m == CHOOSE m \in cands : TRUE IN pending' = [pending EXCEPT ![m] = @ - 1]
          /\ UNCHANGED note
  /\ UNCHANGED inp /\ Step
EndEv ==
  LET e == Rec[l]
      r == Recognise(SceneCtx(inp), rs, e.tail)      \* text after the last LF: must be empty
      agree ==
        IF \E m \in DOMAIN pending : pending[m] > 0 THEN "a line the model renders is missing from render()"
        ELSE IF e.parse # "ok" THEN "the independent parser rejects the output"
        ELSE IF REnd(r).err # "" THEN ""             \* reported by Complete / NoSyntaxError
        ELSE IF ~(/\ e.nhelp = r.nHelp /\ e.ntype = r.nType /\ e.nsample = r.nSample /\ e.nblank = r.nBlank
                  /\ e.nlabel = r.nLabel /\ ToSet(e.famnames) = Families(r) /\ Len(e.famnames) = Cardinality(Families(r))
                  /\ (e.foreign > 0) = r.cf08)
             THEN "independent parser and recogniser disagree on the structure"
        ELSE "" IN
  /\ pc.ph # "idle" /\ pc.ph # "done"
  /\ rs' = r /\ pc' = PcDone /\ out' = e.tail
  /\ note' = (IF note = "" THEN agree ELSE note)
  /\ (IF r.cf08 THEN PrintT(<<"KNOWN", "CF08", l>>) ELSE TRUE)
  /\ UNCHANGED <<inp, pending>> /\ Step

ResetEv ==
  /\ inp' = NoScene /\ pc' = Idle("idle") /\ out' = <<>> /\ rs' = RInit /\ pending' = NoLines /\ note' = ""
  /\ Step

TraceNext ==
  /\ l <= Len(Rec)
  /\ CASE Ev = "reset" -> ResetEv
       [] Ev = "san"   -> Obs(pc.ph = "idle" /\ \A i \in DOMAIN Rec[l].cases : SanOK(Rec[l].cases[i], Rec[l].abs = <<>>))
       [] Ev = "scene" -> SceneEv
       [] Ev = "line"  -> LineEv
       [] Ev = "end"   -> EndEv
       [] OTHER -> FALSE          \* panic / vecmismatch / unknown: not a behaviour

TraceInit == inp = NoScene /\ pc = Idle("idle") /\ out = <<>> /\ rs = RInit /\ pending = NoLines /\ note = "" /\ l = 1
TraceSpec == TraceInit /\ [][TraceNext]_tvars

\* the real output is exactly what the model renders, and the independent parser agrees with the recogniser
AsModel == note = ""

TraceAccepted ==
  LET d == TLCGet("stats").diameter IN
  IF d - 1 = Len(Rec) THEN TRUE
  ELSE Print(<<"TRACE REJECTED at line", d, Rec[d]>>, FALSE)
=============================================================================
