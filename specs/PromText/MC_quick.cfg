\* Static copy of the quick exhaustive configuration (checks/c08.py generates gen_all.cfg with the same content):
\*   tlc -workers 8 -config MC_quick.cfg MCPromText.tla
SPECIFICATION MCSpec
CONSTANTS
 UnitFix = FALSE
 TypeByName = TRUE
 Alphabet = {97, 110, 48, 95, 58, 34, 92, 10, 32, 233}
 MaxLen = 4
 PairAlphabet = {97, 110, 48, 34, 92, 10, 32}
 PairLen = 2
 Scopes = {"names", "names_dist", "keys", "keys_global", "values", "values_dist", "descs", "matrix", "overrides", "override_pats", "pair_name_desc", "pair_key_value", "pair_values"}
INVARIANTS NameGrammar LabelGrammar ValueEscaped DescEscaped NoSyntaxError Complete NameRuleOrCF08 NoForgery
CHECK_DEADLOCK FALSE
