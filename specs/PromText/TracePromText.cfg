SPECIFICATION TraceSpec
CONSTANTS
 UnitFix = FALSE
 TypeByName = TRUE
INVARIANTS NameGrammar LabelGrammar ValueEscaped DescEscaped NoSyntaxError Complete NameRuleOrCF08 NoForgery AsModel
POSTCONDITION TraceAccepted
CHECK_DEADLOCK FALSE
