SPECIFICATION Spec
CONSTANTS
 UnitFix = FALSE
 Alphabet = {97, 110, 48, 95, 58, 34, 92, 10, 32, 233}
 MaxLen = 4
 PairLen = 1
 Scopes = {"names"}
 Inputs <- MCInputs
INVARIANTS NoSyntaxError
CHECK_DEADLOCK FALSE
