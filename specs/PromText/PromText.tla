------------------------------ MODULE PromText ------------------------------
(***************************************************************************)
(* C08 - metrics-exporter-prometheus: render() is well-formed Prometheus   *)
(* text exposition for any input strings.                                  *)
(*                                                                         *)
(* Text is modelled as sequences of Unicode code points (TLC strings are   *)
(* not sequences).  Three parts:                                           *)
(*                                                                         *)
(*  1. THE CODE, transcribed with its case analysis intact                 *)
(*     (metrics-exporter-prometheus/src/formatting.rs, recorder.rs):       *)
(*     SanitizeMetricName, SanitizeLabelKey, Escape (the state machine of  *)
(*     sanitize_label_value_or_description with its previous_backslash     *)
(*     flag), KeyToParts (IndexMap label merge), WriteHelpLine /           *)
(*     WriteTypeLine / WriteMetricLine, and the per-family line order of   *)
(*     Inner::render().                                                    *)
(*                                                                         *)
(*  2. THE PROPERTY: a recogniser of the exposition format written from    *)
(*     the format's grammar, independent of part 1: a character-level DFA  *)
(*     (RChar) folded over the text, with the family-level rules at each   *)
(*     end of line (one TYPE per family, before its samples; sample name = *)
(*     family name [+ suffix allowed by the type]).                        *)
(*                                                                         *)
(*  3. A small state machine that renders a "scene" (configuration +       *)
(*     families) line group by line group exactly in the order render()    *)
(*     does, with the recogniser running alongside as an observer.  TLC    *)
(*     explores it for every scene of a scope (MCPromText.tla: all strings *)
(*     up to a length over 10 character classes in each string slot, all   *)
(*     units x kinds x suffix on/off x histogram/summary mode).            *)
(*                                                                         *)
(* The same operators are re-used by TracePromText.tla on code points      *)
(* logged from the real crate.                                             *)
(***************************************************************************)
EXTENDS Integers, Sequences, FiniteSets, SequencesExt

CONSTANT UnitFix   \* FALSE: unit suffix placement as coded today (finding CF08);
                   \* TRUE : the proposed repair (unit is part of the family name)
CONSTANT TypeByName \* TRUE : as coded - the TYPE of a distribution is decided per metric name, like its storage;
                    \* FALSE: witness variant - "histogram" as soon as any per-metric override exists
                    \*        (must be rejected by the recogniser: quantile samples under TYPE histogram)

\* ---------------------------------------------------------------- code points
LF == 10      TAB == 9     SP == 32     DQ == 34    HASH == 35   PLUS == 43
COMMA == 44   MINUS == 45  DOT == 46    COLON == 58 EQ == 61     BS == 92
US == 95      LB == 123    RB == 125    LN == 110   \* the letter n
VALMARK == -1 \* placeholder for the value token of a sample line (not a code point)

HELPP     == <<35,32,72,69,76,80,32>>            \* "# HELP "
TYPEP     == <<35,32,84,89,80,69,32>>            \* "# TYPE "
KW_HELP   == <<72,69,76,80>>
KW_TYPE   == <<84,89,80,69>>
T_COUNTER == <<99,111,117,110,116,101,114>>
T_GAUGE   == <<103,97,117,103,101>>
T_HISTO   == <<104,105,115,116,111,103,114,97,109>>
T_SUMMARY == <<115,117,109,109,97,114,121>>
T_UNTYPED == <<117,110,116,121,112,101,100>>
S_BUCKET  == <<98,117,99,107,101,116>>
S_SUM     == <<115,117,109>>
S_COUNT   == <<99,111,117,110,116>>
L_LE      == <<108,101>>
L_QUANT   == <<113,117,97,110,116,105,108,101>>
V_PINF    == <<43,73,110,102>>                   \* "+Inf"
RATIO     == <<114,97,116,105,111>>
W_INF     == <<105,110,102>>
W_INFINITY== <<105,110,102,105,110,105,116,121>>
W_NAN     == <<110,97,110>>

Units == {"Count","Percent","Seconds","Milliseconds","Microseconds","Nanoseconds","Tebibytes",
          "Gibibytes","Mebibytes","Kibibytes","Bytes","TerabitsPerSecond","GigabitsPerSecond",
          "MegabitsPerSecond","KilobitsPerSecond","BitsPerSecond","CountPerSecond"}

\* metrics::Unit::as_str()
UnitStr(u) ==
  CASE u = "Count" -> <<99,111,117,110,116>>
    [] u = "Percent" -> <<112,101,114,99,101,110,116>>
    [] u = "Seconds" -> <<115,101,99,111,110,100,115>>
    [] u = "Milliseconds" -> <<109,105,108,108,105,115,101,99,111,110,100,115>>
    [] u = "Microseconds" -> <<109,105,99,114,111,115,101,99,111,110,100,115>>
    [] u = "Nanoseconds" -> <<110,97,110,111,115,101,99,111,110,100,115>>
    [] u = "Tebibytes" -> <<116,101,98,105,98,121,116,101,115>>
    [] u = "Gibibytes" -> <<103,105,98,105,98,121,116,101,115>>
    [] u = "Mebibytes" -> <<109,101,98,105,98,121,116,101,115>>
    [] u = "Kibibytes" -> <<107,105,98,105,98,121,116,101,115>>
    [] u = "Bytes" -> <<98,121,116,101,115>>
    [] u = "TerabitsPerSecond" -> <<116,101,114,97,98,105,116,115,95,112,101,114,95,115,101,99,111,110,100>>
    [] u = "GigabitsPerSecond" -> <<103,105,103,97,98,105,116,115,95,112,101,114,95,115,101,99,111,110,100>>
    [] u = "MegabitsPerSecond" -> <<109,101,103,97,98,105,116,115,95,112,101,114,95,115,101,99,111,110,100>>
    [] u = "KilobitsPerSecond" -> <<107,105,108,111,98,105,116,115,95,112,101,114,95,115,101,99,111,110,100>>
    [] u = "BitsPerSecond" -> <<98,105,116,115,95,112,101,114,95,115,101,99,111,110,100>>
    [] u = "CountPerSecond" -> <<99,111,117,110,116,95,112,101,114,95,115,101,99,111,110,100>>

IsAlpha(c) == (c >= 65 /\ c <= 90) \/ (c >= 97 /\ c <= 122)     \* char::is_ascii_alphabetic
IsDigit(c) == c >= 48 /\ c <= 57
IsWs(c)    == c = SP \/ c = TAB

(***************************************************************************)
(* PART 1 - the code                                                       *)
(***************************************************************************)
\* formatting.rs: valid_metric_name_start_character ... valid_label_key_character
ValidMetricNameStart(c) == IsAlpha(c) \/ c = US \/ c = COLON
ValidMetricNameChar(c)  == IsAlpha(c) \/ IsDigit(c) \/ c = US \/ c = COLON
ValidLabelKeyStart(c)   == IsAlpha(c) \/ c = US
ValidLabelKeyChar(c)    == IsAlpha(c) \/ IsDigit(c) \/ c = US

\* name.chars().enumerate().map(|(i, c)| if i == 0 && start(c) || i != 0 && any(c) { c } else { '_' })
SanitizeMetricName(s) ==
  [i \in 1..Len(s) |-> IF (i = 1 /\ ValidMetricNameStart(s[i])) \/ (i # 1 /\ ValidMetricNameChar(s[i]))
                       THEN s[i] ELSE US]
SanitizeLabelKey(s) ==
  [i \in 1..Len(s) |-> IF (i = 1 /\ ValidLabelKeyStart(s[i])) \/ (i # 1 /\ ValidLabelKeyChar(s[i]))
                       THEN s[i] ELSE US]

\* sanitize_label_value_or_description(value, is_desc): one match arm per CASE arm, in source order
EscInit == [o |-> <<>>, pb |-> FALSE]
EscStep(isDesc, st, c) ==
  CASE c = LF             -> [st EXCEPT !.o = @ \o <<BS, LN>>]                    \* flag NOT touched
    [] c = DQ /\ ~isDesc  -> [o |-> st.o \o <<BS, DQ>>, pb |-> FALSE]             \* a held '\' is dropped
    [] c = BS             -> [o |-> IF st.pb THEN st.o \o <<BS, BS>> ELSE st.o, pb |-> ~st.pb]
    [] OTHER              -> [o |-> (IF st.pb THEN st.o \o <<BS, BS>> ELSE st.o) \o <<c>>, pb |-> FALSE]
Escape(s, isDesc) ==
  LET Step(st, c) == EscStep(isDesc, st, c)
      fin == FoldLeft(Step, EscInit, s)
  IN IF fin.pb THEN fin.o \o <<BS, BS>> ELSE fin.o                               \* dangling backslash
SanitizeLabelValue(s) == Escape(s, FALSE)
SanitizeDescription(s) == Escape(s, TRUE)

\* key_to_parts: IndexMap<String,String> seeded with the global labels, key labels inserted after
\* (insert on an existing key replaces the value and keeps the position)
InsertLabel(m, kv) ==
  IF \E i \in DOMAIN m : m[i][1] = kv[1]
  THEN [i \in DOMAIN m |-> IF m[i][1] = kv[1] THEN kv ELSE m[i]]
  ELSE Append(m, kv)
MergeLabels(globals, labels) == FoldLeft(InsertLabel, <<>>, globals \o labels)
RenderLabel(kv) == SanitizeLabelKey(kv[1]) \o <<EQ, DQ>> \o SanitizeLabelValue(kv[2]) \o <<DQ>>
KeyLabels(globals, labels) == LET m == MergeLabels(globals, labels) IN [i \in DOMAIN m |-> RenderLabel(m[i])]

\* write_metric_line: unit suffix
UnitSuffix(u) ==
  CASE u = "none" \/ u = "Count" -> <<>>
    [] u = "Percent" -> <<US>> \o RATIO
    [] OTHER -> <<US>> \o UnitStr(u)
Sfx(s) == IF s = <<>> THEN <<>> ELSE <<US>> \o s

\* Name of the family on HELP/TYPE lines and of a sample.
\* As coded (UnitFix = FALSE): HELP/TYPE carry the bare name, samples name + _suffix + _unit.
\* Repaired (UnitFix = TRUE): the unit belongs to the family name, the suffix comes last.
FamName(name, unit) == IF UnitFix THEN name \o UnitSuffix(unit) ELSE name
SampleName(name, suffix, unit) ==
  IF UnitFix THEN name \o UnitSuffix(unit) \o Sfx(suffix) ELSE name \o Sfx(suffix) \o UnitSuffix(unit)

JoinComma(parts) ==
  LET J(acc, i) == IF i = 1 THEN parts[i] ELSE acc \o <<COMMA>> \o parts[i]
  IN FoldLeft(J, <<>>, [i \in DOMAIN parts |-> i])
LabelBlock(labels, addl) ==
  LET all == labels \o (IF addl = <<>> THEN <<>> ELSE << addl[1] \o <<EQ, DQ>> \o addl[2] \o <<DQ>> >>)
  IN IF all = <<>> THEN <<>> ELSE <<LB>> \o JoinComma(all) \o <<RB>>

\* Lines are sequences of code points WITHOUT the terminating LF; a sample line ends in VALMARK
\* where the code prints the numeric value (number formatting is not modelled).
HelpLine(fam, desc) == HELPP \o fam \o <<SP>> \o SanitizeDescription(desc)
TypeLine(fam, ty)   == TYPEP \o fam \o <<SP>> \o ty
MetricLine(name, suffix, labels, addl, unit) ==
  SampleName(name, suffix, unit) \o LabelBlock(labels, addl) \o <<SP, VALMARK>>

(* A scene: cfg = [suffix : BOOLEAN, buckets : Seq(token)  (global buckets, <<>> = none),    *)
(*                 overrides : Seq([kind : {"Full","Prefix","Suffix"}, pat, buckets]),       *)
(*                 quantiles : Seq(token), globals : Seq(<<k, v>>)]                          *)
(*          fams = Seq([kind : {"counter","gauge","distribution"}, name, described, desc,    *)
(*                      unit : Units \cup {"none"}, series : Seq([labels : Seq(<<k, v>>)])]) *)
EffUnit(f, cfg) == IF f.described /\ cfg.suffix THEN f.unit ELSE "none"   \* descriptions.get(..) + filter
\* set_buckets_for_metric(matcher, values): the matcher is stored sanitised (Matcher::sanitized) and
\* matched against the sanitised metric name (Matcher::matches).
OvMatches(o, name) ==
  LET p == SanitizeMetricName(o.pat) IN
  CASE o.kind = "Full"   -> name = p
    [] o.kind = "Prefix" -> Len(p) <= Len(name) /\ SubSeq(name, 1, Len(p)) = p
    [] OTHER             -> Len(p) <= Len(name) /\ SubSeq(name, Len(name) - Len(p) + 1, Len(name)) = p
Matching(cfg, name) == SelectSeq(cfg.overrides, LAMBDA o : OvMatches(o, name))
\* DistributionBuilder::get_distribution(name): what is stored and rendered for the series.  A matching
\* override wins over the global buckets; neither = summary (<<>>).  Which of SEVERAL matching overrides
\* wins (the sorted matcher order) is C15's subject: scenes have at most one matching override per name.
EffBuckets(f, cfg) ==
  LET m == Matching(cfg, SanitizeMetricName(f.name)) IN IF m # <<>> THEN m[1].buckets ELSE cfg.buckets
\* DistributionBuilder::get_distribution_type(name): what the TYPE line says - decided separately by the code.
DistType(cfg, name) ==
  IF cfg.buckets # <<>> THEN T_HISTO
  ELSE IF (IF TypeByName THEN Matching(cfg, name) # <<>> ELSE cfg.overrides # <<>>) THEN T_HISTO
  ELSE T_SUMMARY
TypeTok(f, cfg) ==
  CASE f.kind = "counter" -> T_COUNTER
    [] f.kind = "gauge"   -> T_GAUGE
    [] OTHER              -> DistType(cfg, SanitizeMetricName(f.name))

SeriesLines(f, cfg, s) ==
  LET name == SanitizeMetricName(f.name)
      unit == EffUnit(f, cfg)
      labels == KeyLabels(cfg.globals, s.labels)
      bk == EffBuckets(f, cfg)
  IN IF f.kind \in {"counter", "gauge"} THEN << MetricLine(name, <<>>, labels, <<>>, unit) >>
     ELSE IF bk = <<>>
          THEN [i \in DOMAIN cfg.quantiles |-> MetricLine(name, <<>>, labels, <<L_QUANT, cfg.quantiles[i]>>, unit)]
               \o << MetricLine(name, S_SUM, labels, <<>>, unit), MetricLine(name, S_COUNT, labels, <<>>, unit) >>
          ELSE [i \in DOMAIN bk |-> MetricLine(name, S_BUCKET, labels, <<L_LE, bk[i]>>, unit)]
               \o << MetricLine(name, S_BUCKET, labels, <<L_LE, V_PINF>>, unit),
                     MetricLine(name, S_SUM, labels, <<>>, unit), MetricLine(name, S_COUNT, labels, <<>>, unit) >>

FamHelp(f, cfg) == HelpLine(FamName(SanitizeMetricName(f.name), EffUnit(f, cfg)), f.desc)
FamType(f, cfg) == TypeLine(FamName(SanitizeMetricName(f.name), EffUnit(f, cfg)), TypeTok(f, cfg))
FamilyLines(f, cfg) ==
  (IF f.described THEN << FamHelp(f, cfg) >> ELSE <<>>) \o << FamType(f, cfg) >>
  \o FlattenSeq([i \in DOMAIN f.series |-> SeriesLines(f, cfg, f.series[i])]) \o << <<>> >>
SceneLines(sc) == FlattenSeq([i \in DOMAIN sc.fams |-> FamilyLines(sc.fams[i], sc.cfg)])

\* text of a sequence of lines; the value placeholder becomes "0"
LineText(ln) == [i \in 1..(Len(ln) + 1) |-> IF i > Len(ln) THEN LF ELSE IF ln[i] = VALMARK THEN 48 ELSE ln[i]]
LinesText(lns) == FlattenSeq([i \in DOMAIN lns |-> LineText(lns[i])])

(***************************************************************************)
(* PART 2 - the property: recogniser of the text exposition format         *)
(* (prometheus/docs exposition_formats.md, "Text format details").         *)
(***************************************************************************)
NameStart(c)  == IsAlpha(c) \/ c = US \/ c = COLON         \* [a-zA-Z_:][a-zA-Z0-9_:]*
NameChar(c)   == NameStart(c) \/ IsDigit(c)
LabelStart(c) == IsAlpha(c) \/ c = US                      \* [a-zA-Z_][a-zA-Z0-9_]*
LabelChar(c)  == LabelStart(c) \/ IsDigit(c)
InNameGrammar(s)  == s # <<>> /\ NameStart(s[1]) /\ \A i \in DOMAIN s : NameChar(s[i])
InLabelGrammar(s) == s # <<>> /\ LabelStart(s[1]) /\ \A i \in DOMAIN s : LabelChar(s[i])

\* An escaped label value (inQuotes) / HELP text: no raw LF, no bare quote inside quotes, every
\* backslash starts \\ or \n (or \" inside quotes), never ends inside an escape.
EscapedOK(s, inQuotes) ==
  LET Step(q, c) ==
        CASE q = "bad" -> "bad"
          [] q = "esc" -> IF c = BS \/ c = LN \/ (inQuotes /\ c = DQ) THEN "txt" ELSE "bad"
          [] c = BS    -> "esc"
          [] c = LF    -> "bad"
          [] c = DQ /\ inQuotes -> "bad"
          [] OTHER     -> "txt"
  IN FoldLeft(Step, "txt", s) = "txt"

\* value tokens: what Go's strconv.ParseFloat takes (decimal forms, inf/infinity/nan in any case)
Lower(c) == IF c >= 65 /\ c <= 90 THEN c + 32 ELSE c
DecimalOK(b) ==
  LET Step(q, c) ==
        CASE q = "s0"    -> IF IsDigit(c) THEN "int" ELSE IF c = DOT THEN "dot0" ELSE "bad"
          [] q = "int"   -> IF IsDigit(c) THEN "int" ELSE IF c = DOT THEN "frac" ELSE IF c = 101 THEN "e" ELSE "bad"
          [] q = "dot0"  -> IF IsDigit(c) THEN "frac" ELSE "bad"
          [] q = "frac"  -> IF IsDigit(c) THEN "frac" ELSE IF c = 101 THEN "e" ELSE "bad"
          [] q = "e"     -> IF IsDigit(c) THEN "exp" ELSE IF c = PLUS \/ c = MINUS THEN "esign" ELSE "bad"
          [] q = "esign" -> IF IsDigit(c) THEN "exp" ELSE "bad"
          [] q = "exp"   -> IF IsDigit(c) THEN "exp" ELSE "bad"
          [] OTHER       -> "bad"
  IN FoldLeft(Step, "s0", b) \in {"int", "frac", "exp"}
IsFloatTok(t) ==
  LET lt == [i \in 1..Len(t) |-> Lower(t[i])]
      body == IF Len(lt) > 0 /\ (lt[1] = PLUS \/ lt[1] = MINUS) THEN Tail(lt) ELSE lt
  IN body = W_INF \/ body = W_INFINITY \/ lt = W_NAN \/ DecimalOK(body)
IsIntTok(t) ==
  LET body == IF Len(t) > 0 /\ t[1] = MINUS THEN Tail(t) ELSE t
  IN body # <<>> /\ \A i \in DOMAIN body : IsDigit(body[i])

TypeToks == {T_COUNTER, T_GAUGE, T_HISTO, T_SUMMARY, T_UNTYPED}
\* suffixes a sample of a family of the given type may carry
TypeSuffixes(ty) ==
  CASE ty = T_HISTO   -> {<<US>> \o S_BUCKET, <<US>> \o S_SUM, <<US>> \o S_COUNT}
    [] ty = T_SUMMARY -> {<<US>> \o S_SUM, <<US>> \o S_COUNT}
    [] OTHER          -> {}
AllowedNames(fam, ty) == {fam} \cup {fam \o s : s \in TypeSuffixes(ty)}
\* ... and what the declared type allows a sample with suffix `sfx` and label names `lnames` to be:
\* a histogram has no bare-name samples, `le` belongs to (and only to) its _bucket samples,
\* `quantile` to (and only to) the bare-name samples of a summary.
RoleOK(ty, sfx, lnames) ==
  /\ (ty = T_HISTO => sfx # <<>>)
  /\ ((L_LE \in lnames) <=> (ty = T_HISTO /\ sfx = <<US>> \o S_BUCKET))
  /\ ((L_QUANT \in lnames) <=> (ty = T_SUMMARY /\ sfx = <<>>))
SfxOf(fam, ty, n) == CHOOSE s \in {<<>>} \cup TypeSuffixes(ty) : n = fam \o s

\* The named deviation CF08: with unit suffixes enabled, a described family `fam` with unit suffix
\* `_u` gets samples named fam [+ _suffix] + _u.  ctx.units = set of <<family name, unit suffix>>
\* of exactly the families of the scene to which that applies.
IsCF08(ctx, fam, ty, n) ==
  \E p \in ctx.units : p[1] = fam /\ p[2] # <<>> /\
     \E s \in {<<>>} \cup TypeSuffixes(ty) : n = fam \o s \o p[2]
SfxOfCF08(ctx, fam, ty, n) ==
  CHOOSE s \in {<<>>} \cup TypeSuffixes(ty) : \E p \in ctx.units : p[1] = fam /\ p[2] # <<>> /\ n = fam \o s \o p[2]
NoCtx == [units |-> {}]

RInit == [q |-> "bol", tok |-> <<>>, name |-> <<>>, ty |-> <<>>, lnames |-> {}, err |-> "",
          cur |-> <<>>, curType |-> <<>>, curHelp |-> FALSE, curSamples |-> FALSE, closed |-> {},
          cf08 |-> FALSE, nHelp |-> 0, nType |-> 0, nSample |-> 0, nBlank |-> 0, nLabel |-> 0]
Fail(st, why) == [st EXCEPT !.err = why, !.q = "err"]
NewLine(st) == [st EXCEPT !.q = "bol", !.tok = <<>>, !.name = <<>>, !.ty = <<>>, !.lnames = {}]

\* a HELP or TYPE line naming a family other than the current one opens a new group
StartGroup(st, n, isHelp, ty) ==
  IF st.cur # <<>> /\ st.curType = <<>> THEN Fail(st, "family without a TYPE line")
  ELSE IF n \in st.closed THEN Fail(st, "family appears in more than one group")
  ELSE [st EXCEPT !.closed = IF st.cur = <<>> THEN @ ELSE @ \cup {st.cur},
                  !.cur = n, !.curHelp = isHelp, !.curType = ty, !.curSamples = FALSE]

EndHelp(st) ==
  LET s1 == IF st.name = st.cur
            THEN IF st.curHelp THEN Fail(st, "second HELP line for a family")
                 ELSE IF st.curSamples THEN Fail(st, "HELP line after samples of the family")
                 ELSE [st EXCEPT !.curHelp = TRUE]
            ELSE StartGroup(st, st.name, TRUE, <<>>)
  IN IF s1.err # "" THEN s1 ELSE NewLine([s1 EXCEPT !.nHelp = @ + 1])

EndType(st) ==
  LET s1 == IF st.ty \notin TypeToks THEN Fail(st, "unknown metric type in TYPE line")
            ELSE IF st.name = st.cur
            THEN IF st.curType # <<>> THEN Fail(st, "second TYPE line for a family")
                 ELSE IF st.curSamples THEN Fail(st, "TYPE line after samples of the family")
                 ELSE [st EXCEPT !.curType = st.ty]
            ELSE StartGroup(st, st.name, FALSE, st.ty)
  IN IF s1.err # "" THEN s1 ELSE NewLine([s1 EXCEPT !.nType = @ + 1])

EndSample(ctx, st) ==
  LET s1 == IF st.cur = <<>> \/ st.curType = <<>> THEN Fail(st, "sample without a preceding TYPE line of its family")
            ELSE IF st.name \in AllowedNames(st.cur, st.curType)
                 THEN IF RoleOK(st.curType, SfxOf(st.cur, st.curType, st.name), st.lnames)
                      THEN [st EXCEPT !.curSamples = TRUE]
                      ELSE Fail(st, "sample (bare name / le / quantile) not allowed by the declared type of its family")
            ELSE IF IsCF08(ctx, st.cur, st.curType, st.name)
                 THEN IF RoleOK(st.curType, SfxOfCF08(ctx, st.cur, st.curType, st.name), st.lnames)
                      THEN [st EXCEPT !.curSamples = TRUE, !.cf08 = TRUE]
                      ELSE Fail(st, "sample (bare name / le / quantile) not allowed by the declared type of its family")
            ELSE Fail(st, "sample name is not the family name plus a suffix its type allows")
  IN IF s1.err # "" THEN s1 ELSE NewLine([s1 EXCEPT !.nSample = @ + 1])

ValueDone(st) == IF IsFloatTok(st.tok) THEN [st EXCEPT !.tok = <<>>] ELSE Fail(st, "sample value is not a float")
StampDone(st) == IF IsIntTok(st.tok) THEN [st EXCEPT !.tok = <<>>] ELSE Fail(st, "timestamp is not an integer")
LabelNameDone(st) ==
  IF st.tok \in st.lnames THEN Fail(st, "duplicate label name in a sample")
  ELSE [st EXCEPT !.lnames = @ \cup {st.tok}, !.tok = <<>>, !.nLabel = @ + 1]

\* one character of text
RChar(ctx, st, c) ==
  LET q == st.q
      push == [st EXCEPT !.tok = Append(@, c)] IN
  CASE q = "err" -> st
    \* ---- beginning of line
    [] q = "bol" ->
         IF c = LF THEN [st EXCEPT !.nBlank = @ + 1]
         ELSE IF IsWs(c) THEN st
         ELSE IF c = HASH THEN [st EXCEPT !.q = "hash"]
         ELSE IF NameStart(c) THEN [st EXCEPT !.q = "sname", !.tok = <<c>>]
         ELSE Fail(st, "line is neither HELP, TYPE, sample nor blank")
    \* ---- "#": only HELP and TYPE are accepted (a free comment is not one of the four line kinds)
    [] q = "hash" ->
         IF IsWs(c) THEN st ELSE IF c = LF THEN Fail(st, "comment line")
         ELSE [st EXCEPT !.q = "kw", !.tok = <<c>>]
    [] q = "kw" ->
         IF IsWs(c) THEN (IF st.tok = KW_HELP THEN [st EXCEPT !.q = "h_ws", !.tok = <<>>]
                          ELSE IF st.tok = KW_TYPE THEN [st EXCEPT !.q = "t_ws", !.tok = <<>>]
                          ELSE Fail(st, "comment line"))
         ELSE IF c = LF THEN Fail(st, "comment line or HELP/TYPE without metric name")
         ELSE push
    \* ---- # HELP name docstring
    [] q = "h_ws" ->
         IF IsWs(c) THEN st ELSE IF NameStart(c) THEN [st EXCEPT !.q = "h_name", !.tok = <<c>>]
         ELSE Fail(st, "HELP without a valid metric name")
    [] q = "h_name" ->
         IF NameChar(c) THEN push
         ELSE IF IsWs(c) THEN [st EXCEPT !.q = "h_doc", !.name = st.tok, !.tok = <<>>]
         ELSE IF c = LF THEN EndHelp([st EXCEPT !.name = st.tok])
         ELSE Fail(st, "invalid character in the metric name of a HELP line")
    [] q = "h_doc" ->
         IF c = LF THEN EndHelp(st) ELSE IF c = BS THEN [st EXCEPT !.q = "h_esc"] ELSE st
    [] q = "h_esc" ->
         IF c = BS \/ c = LN THEN [st EXCEPT !.q = "h_doc"] ELSE Fail(st, "invalid escape sequence in HELP text")
    \* ---- # TYPE name type
    [] q = "t_ws" ->
         IF IsWs(c) THEN st ELSE IF NameStart(c) THEN [st EXCEPT !.q = "t_name", !.tok = <<c>>]
         ELSE Fail(st, "TYPE without a valid metric name")
    [] q = "t_name" ->
         IF NameChar(c) THEN push
         ELSE IF IsWs(c) THEN [st EXCEPT !.q = "t_ws2", !.name = st.tok, !.tok = <<>>]
         ELSE Fail(st, "invalid character in the metric name of a TYPE line")
    [] q = "t_ws2" ->
         IF IsWs(c) THEN st ELSE IF c = LF THEN Fail(st, "TYPE line without a type")
         ELSE [st EXCEPT !.q = "t_type", !.tok = <<c>>]
    [] q = "t_type" ->
         IF c = LF THEN EndType([st EXCEPT !.ty = st.tok])
         ELSE IF IsWs(c) THEN [st EXCEPT !.q = "t_end", !.ty = st.tok, !.tok = <<>>]
         ELSE push
    [] q = "t_end" ->
         IF IsWs(c) THEN st ELSE IF c = LF THEN EndType(st) ELSE Fail(st, "text after the type of a TYPE line")
    \* ---- sample: name [ "{" labels "}" ] value [ timestamp ]
    [] q = "sname" ->
         IF NameChar(c) THEN push
         ELSE IF c = LB THEN [st EXCEPT !.q = "l_start", !.name = st.tok, !.tok = <<>>]
         ELSE IF IsWs(c) THEN [st EXCEPT !.q = "s_ws", !.name = st.tok, !.tok = <<>>]
         ELSE Fail(st, "invalid character in a metric name")
    [] q = "s_ws" ->
         IF IsWs(c) THEN st ELSE IF c = LB THEN [st EXCEPT !.q = "l_start"]
         ELSE IF c = LF THEN Fail(st, "sample without a value")
         ELSE [st EXCEPT !.q = "s_val", !.tok = <<c>>]
    [] q = "l_start" ->
         IF IsWs(c) THEN st ELSE IF LabelStart(c) THEN [st EXCEPT !.q = "l_name", !.tok = <<c>>]
         ELSE IF c = RB THEN [st EXCEPT !.q = "s_after"]
         ELSE Fail(st, "invalid start of a label name")
    [] q = "l_name" ->
         IF LabelChar(c) THEN push
         ELSE IF c = EQ THEN LET s1 == LabelNameDone(st) IN IF s1.err # "" THEN s1 ELSE [s1 EXCEPT !.q = "l_q"]
         ELSE IF IsWs(c) THEN LET s1 == LabelNameDone(st) IN IF s1.err # "" THEN s1 ELSE [s1 EXCEPT !.q = "l_eq"]
         ELSE Fail(st, "invalid character in a label name")
    [] q = "l_eq" ->
         IF IsWs(c) THEN st ELSE IF c = EQ THEN [st EXCEPT !.q = "l_q"] ELSE Fail(st, "label name not followed by =")
    [] q = "l_q" ->
         IF IsWs(c) THEN st ELSE IF c = DQ THEN [st EXCEPT !.q = "l_val"] ELSE Fail(st, "label value is not quoted")
    [] q = "l_val" ->
         IF c = DQ THEN [st EXCEPT !.q = "l_next"] ELSE IF c = BS THEN [st EXCEPT !.q = "l_esc"]
         ELSE IF c = LF THEN Fail(st, "raw line feed inside a label value")
         ELSE st
    [] q = "l_esc" ->
         IF c = BS \/ c = DQ \/ c = LN THEN [st EXCEPT !.q = "l_val"]
         ELSE Fail(st, "invalid escape sequence in a label value")
    [] q = "l_next" ->
         IF IsWs(c) THEN st ELSE IF c = COMMA THEN [st EXCEPT !.q = "l_start"]
         ELSE IF c = RB THEN [st EXCEPT !.q = "s_after"]
         ELSE Fail(st, "label pairs not separated by a comma")
    [] q = "s_after" ->
         IF IsWs(c) THEN st ELSE IF c = LF THEN Fail(st, "sample without a value")
         ELSE [st EXCEPT !.q = "s_val", !.tok = <<c>>]
    [] q = "s_val" ->
         IF c = LF THEN LET s1 == ValueDone(st) IN IF s1.err # "" THEN s1 ELSE EndSample(ctx, s1)
         ELSE IF IsWs(c) THEN LET s1 == ValueDone(st) IN IF s1.err # "" THEN s1 ELSE [s1 EXCEPT !.q = "s_ws3"]
         ELSE push
    [] q = "s_ws3" ->
         IF IsWs(c) THEN st ELSE IF c = LF THEN EndSample(ctx, st) ELSE [st EXCEPT !.q = "s_ts", !.tok = <<c>>]
    [] q = "s_ts" ->
         IF c = LF THEN LET s1 == StampDone(st) IN IF s1.err # "" THEN s1 ELSE EndSample(ctx, s1)
         ELSE IF IsWs(c) THEN LET s1 == StampDone(st) IN IF s1.err # "" THEN s1 ELSE [s1 EXCEPT !.q = "s_end"]
         ELSE push
    [] q = "s_end" ->
         IF IsWs(c) THEN st ELSE IF c = LF THEN EndSample(ctx, st) ELSE Fail(st, "text after the timestamp")
    [] OTHER -> Fail(st, "recogniser: unknown state")

Recognise(ctx, st, text) == LET R(s, c) == RChar(ctx, s, c) IN FoldLeft(R, st, text)

\* end of the exposition: last line terminated, last family has its TYPE line
REnd(st) ==
  IF st.err # "" THEN st
  ELSE IF st.q # "bol" THEN Fail(st, "last line is not terminated by a line feed")
  ELSE IF st.cur # <<>> /\ st.curType = <<>> THEN Fail(st, "family without a TYPE line")
  ELSE st
Families(st) == st.closed \cup (IF st.cur = <<>> THEN {} ELSE {st.cur})

WellFormed(text) == REnd(Recognise(NoCtx, RInit, text)).err = ""

(***************************************************************************)
(* PART 3 - rendering a scene, step by step, in render()'s order           *)
(***************************************************************************)
VARIABLES inp,   \* the scene being rendered
          pc,    \* position of render(): family index, phase, series index
          out,   \* text rendered so far
          rs     \* state of the recogniser after reading `out`
vars == <<inp, pc, out, rs>>

SceneCtx(sc) ==
  [units |-> {<<FamName(SanitizeMetricName(sc.fams[i].name), EffUnit(sc.fams[i], sc.cfg)),
                UnitSuffix(EffUnit(sc.fams[i], sc.cfg))>> : i \in DOMAIN sc.fams}]

PcDone == [f |-> 0, ph |-> "done", s |-> 0]
Start(sc) == IF sc.fams = <<>> THEN PcDone ELSE [f |-> 1, ph |-> "help", s |-> 1]
InitWith(scenes) == inp \in scenes /\ pc = Start(inp) /\ out = <<>> /\ rs = RInit

Emit(lines) ==
  LET txt == LinesText(lines) IN
  /\ out' = out \o txt
  /\ rs' = Recognise(SceneCtx(inp), rs, txt)
Fam == inp.fams[pc.f]

WriteHelp ==       \* descriptions.get(name) is Some: write_help_line
  /\ pc.ph = "help" /\ Fam.described
  /\ Emit(<< FamHelp(Fam, inp.cfg) >>)
  /\ pc' = [pc EXCEPT !.ph = "type"] /\ UNCHANGED inp
SkipHelp ==        \* never described: no HELP line (and no unit)
  /\ pc.ph = "help" /\ ~Fam.described
  /\ pc' = [pc EXCEPT !.ph = "type"] /\ UNCHANGED <<inp, out, rs>>
WriteType ==
  /\ pc.ph = "type"
  /\ Emit(<< FamType(Fam, inp.cfg) >>)
  /\ pc' = [pc EXCEPT !.ph = IF Fam.series = <<>> THEN "blank" ELSE "series", !.s = 1] /\ UNCHANGED inp
WriteSeries ==     \* all lines of one (labels, value) entry of the family
  /\ pc.ph = "series"
  /\ Emit(SeriesLines(Fam, inp.cfg, Fam.series[pc.s]))
  /\ pc' = IF pc.s < Len(Fam.series) THEN [pc EXCEPT !.s = @ + 1] ELSE [pc EXCEPT !.ph = "blank"]
  /\ UNCHANGED inp
EndFamily ==       \* output.push('\n')
  /\ pc.ph = "blank"
  /\ Emit(<< <<>> >>)
  /\ pc' = IF pc.f < Len(inp.fams) THEN [f |-> pc.f + 1, ph |-> "help", s |-> 1] ELSE PcDone
  /\ UNCHANGED inp
Next == WriteHelp \/ SkipHelp \/ WriteType \/ WriteSeries \/ EndFamily
\* the initial condition (which scenes) is given by the model module: MCPromText!MCSpec

\* ---------------------------------------------------------------- properties
AllNames  == {inp.fams[i].name : i \in DOMAIN inp.fams}
SeriesIdx == UNION {{<<i, j>> : j \in DOMAIN inp.fams[i].series} : i \in DOMAIN inp.fams}
AllLabels == UNION {{inp.fams[ij[1]].series[ij[2]].labels[k] : k \in DOMAIN inp.fams[ij[1]].series[ij[2]].labels}
                      : ij \in SeriesIdx}
                \cup {inp.cfg.globals[k] : k \in DOMAIN inp.cfg.globals}
AllDescs  == {inp.fams[i].desc : i \in DOMAIN inp.fams}

\* The four string properties depend on the scene only: evaluated once per scene (in its first state).
AtStart == pc = Start(inp)
\* sanitised names are in the grammar (and keep their length: never empty for a non-empty input)
NameGrammar  == AtStart => \A n \in AllNames : n # <<>> =>
                   InNameGrammar(SanitizeMetricName(n)) /\ Len(SanitizeMetricName(n)) = Len(n)
LabelGrammar == AtStart => \A kv \in AllLabels : kv[1] # <<>> =>
                   InLabelGrammar(SanitizeLabelKey(kv[1])) /\ Len(SanitizeLabelKey(kv[1])) = Len(kv[1])
\* escaped text cannot end a value early, start a new line or leave an escape open
ValueEscaped == AtStart => \A kv \in AllLabels : EscapedOK(SanitizeLabelValue(kv[2]), TRUE)
DescEscaped  == AtStart => \A d \in AllDescs : EscapedOK(SanitizeDescription(d), FALSE)

\* every prefix of the rendered text is accepted so far, the complete text is accepted
NoSyntaxError == rs.err = ""
Complete      == pc.ph = "done" => REnd(rs).err = ""
\* sample names: family name [+ allowed suffix].  rs.cf08 is set by exactly the CF08 pattern and is
\* tolerated only while the model mirrors the unrepaired code.
NameRule          == rs.cf08 = FALSE
NameRuleOrCF08    == rs.cf08 => ~UnitFix
\* user data forged nothing: the recognised structure is exactly the structure rendered
IsSampleLine(ln) == ln # <<>> /\ Last(ln) = VALMARK
ExpLabelCount ==
  LET n(i, j) == Len(MergeLabels(inp.cfg.globals, inp.fams[i].series[j].labels))
      perSeries(i, j) ==
        IF inp.fams[i].kind \in {"counter", "gauge"} THEN n(i, j)
        ELSE IF EffBuckets(inp.fams[i], inp.cfg) = <<>> THEN Len(inp.cfg.quantiles) * (n(i, j) + 1) + 2 * n(i, j)
        ELSE (Len(EffBuckets(inp.fams[i], inp.cfg)) + 1) * (n(i, j) + 1) + 2 * n(i, j)
      S(acc, ij) == acc + perSeries(ij[1], ij[2])
  IN FoldLeft(S, 0, SetToSeq(SeriesIdx))
NoForgery ==
  pc.ph = "done" =>
    LET lines == SceneLines(inp) IN     \* (LET: evaluated once)
    /\ rs.nHelp = Cardinality({i \in DOMAIN inp.fams : inp.fams[i].described})
    /\ rs.nType = Len(inp.fams)
    /\ rs.nBlank = Len(inp.fams)
    /\ rs.nSample = Cardinality({i \in DOMAIN lines : IsSampleLine(lines[i])})
    /\ rs.nLabel = ExpLabelCount
    /\ Families(rs) = {FamName(SanitizeMetricName(inp.fams[i].name), EffUnit(inp.fams[i], inp.cfg)) : i \in DOMAIN inp.fams}
=============================================================================
