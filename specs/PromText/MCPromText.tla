----------------------------- MODULE MCPromText -----------------------------
(* Scopes of the exhaustive runs of PromText.tla: the scenes TLC renders.   *)
(* Alphabet = one representative code point per character class:            *)
(*   97 a letter | 110 n (the letter of the \n escape) | 48 digit | 95 _ |  *)
(*   58 : | 34 " | 92 \ | 10 LF | 32 other ASCII (space; { } , = # in the   *)
(*   "structure" scope) | 233 non-ASCII                                      *)
EXTENDS PromText
CONSTANTS Alphabet,   \* code points strings are built from
          MaxLen,     \* every string up to this length in ONE slot (others benign)
          PairAlphabet, PairLen,    \* every pair of strings over PairAlphabet up to this length in TWO slots
          Scopes      \* which scopes this run explores

Strs(n) == UNION {[1..k -> Alphabet] : k \in 0..n}
NE(n)   == Strs(n) \ {<<>>}
PStrs(n) == UNION {[1..k -> PairAlphabet] : k \in 0..n}
PNE(n)   == PStrs(n) \ {<<>>}

M == <<109>>  K == <<107>>  Z == <<122>>  V == <<118>>  D == <<100>>  X == <<120>>  G == <<103>>  W == <<119>>
Q3 == << <<48>>, <<48,46,53>>, <<49>> >>          \* quantile tokens 0 0.5 1
B2 == << <<49>>, <<50,46,53>> >>                  \* bucket bounds 1 2.5

B1 == << <<53>> >>                               \* bucket bound 5 (per-metric override)
MA == <<109, 97>>  ZB == <<122, 98>>              \* "ma" "zb"
Cfg(suffix, hist, globals) ==
  [suffix |-> suffix, buckets |-> IF hist THEN B2 ELSE <<>>, overrides |-> <<>>, quantiles |-> Q3, globals |-> globals]
Ov(kind, pat) == [kind |-> kind, pat |-> pat, buckets |-> B1]
\* a pattern of the given matcher kind that selects the family "ma" (and not "zb")
PatFor(kind) == CASE kind = "Full" -> MA [] kind = "Prefix" -> <<109>> [] OTHER -> <<97>>
Ser(labels) == [labels |-> labels]
F(kind, name, described, desc, unit, series) ==
  [kind |-> kind, name |-> name, described |-> described, desc |-> desc, unit |-> unit, series |-> series]
Scene(cfg, fams) == [cfg |-> cfg, fams |-> fams]
Tailer == F("counter", Z, FALSE, <<>>, "none", << Ser(<<>>) >>)     \* a plain family after the one under test

\* precondition of the property: sanitised label names distinct and not le / quantile
KeysOK(ks) == /\ \A i, j \in DOMAIN ks : i # j => SanitizeLabelKey(ks[i]) # SanitizeLabelKey(ks[j])
              /\ \A i \in DOMAIN ks : ks[i] # <<>> /\ SanitizeLabelKey(ks[i]) \notin {L_LE, L_QUANT}

\* NB no \cup of big sets and no big constant-level definitions: TLC evaluates those eagerly, once per
\* worker, with quadratic unions.  One scope name = one set comprehension, chosen by \E in MCInit.
ScopeSet(sc) ==
  CASE sc = "names" ->
         {Scene(Cfg(FALSE, FALSE, <<>>), << F("counter", s, TRUE, D, "none", << Ser(<<>>) >>) >>) : s \in NE(MaxLen)}
    [] sc = "names_dist" ->    \* through the histogram path with a unit suffix
         {Scene(Cfg(TRUE, TRUE, <<>>), << F("distribution", s, TRUE, D, "Bytes", << Ser(<< <<K, V>> >>) >>), Tailer >>) : s \in NE(MaxLen - 1)}
    [] sc = "keys" ->
         {Scene(Cfg(FALSE, FALSE, <<>>), << F("counter", M, FALSE, <<>>, "none", << Ser(<< <<s, V>>, <<Z, X>> >>) >>) >>)
            : s \in {t \in NE(MaxLen) : KeysOK(<<t, Z>>)}}
    [] sc = "keys_global" ->   \* as a global label, followed by the le label
         {Scene(Cfg(FALSE, TRUE, << <<s, V>> >>), << F("distribution", M, FALSE, <<>>, "none", << Ser(<<>>) >>) >>)
            : s \in {t \in NE(MaxLen - 1) : KeysOK(<<t>>)}}
    [] sc = "values" ->        \* followed by another label
         {Scene(Cfg(FALSE, FALSE, <<>>), << F("counter", M, FALSE, <<>>, "none", << Ser(<< <<K, s>>, <<Z, X>> >>) >>) >>) : s \in Strs(MaxLen)}
    [] sc = "values_dist" ->   \* followed by the quantile label / the closing brace
         {Scene(Cfg(FALSE, FALSE, <<>>), << F("distribution", M, FALSE, <<>>, "none", << Ser(<< <<K, s>> >>) >>), Tailer >>) : s \in Strs(MaxLen - 1)}
    [] sc = "descs" ->
         {Scene(Cfg(FALSE, FALSE, <<>>), << F("gauge", M, TRUE, s, "none", << Ser(<<>>) >>) >>) : s \in Strs(MaxLen)}
    \* every kind x unit x suffix on/off x histogram/summary x described or not; two series, a global
    \* label overridden by the key's own label in the second one
    [] sc = "matrix" ->
         {Scene(Cfg(sfx, hist, << <<K, V>>, <<G, X>> >>),
                << F(kind, M, descd, D, u, << Ser(<<>>), Ser(<< <<W, X>>, <<K, W>> >>) >>), Tailer >>)
            : sfx \in BOOLEAN, hist \in BOOLEAN, kind \in {"counter", "gauge", "distribution"},
              descd \in BOOLEAN, u \in Units \cup {"none"}}
    \* per-metric bucket overrides (set_buckets_for_metric), with and without global buckets: a distribution
    \* that matches the override and one that matches none, in the same scene
    [] sc = "overrides" ->
         {Scene([Cfg(sfx, glob, << <<K, V>> >>) EXCEPT !.overrides = << Ov(kind, PatFor(kind)) >>],
                << F("distribution", MA, descd, D, u, << Ser(<<>>), Ser(<< <<K, W>> >>) >>),
                   F("distribution", ZB, descd, D, u, << Ser(<<>>) >>), Tailer >>)
            : sfx \in BOOLEAN, glob \in BOOLEAN, kind \in {"Full", "Prefix", "Suffix"}, descd \in BOOLEAN,
              u \in {"none", "Seconds", "Count"}}
    \* the matcher pattern is sanitised like a metric name: every string as Full / Prefix / Suffix pattern
    \* against a distribution of the same raw name (and one that cannot match)
    [] sc = "override_pats" ->
         {Scene([Cfg(FALSE, FALSE, <<>>) EXCEPT !.overrides = << Ov(kind, s) >>],
                << F("distribution", s, FALSE, <<>>, "none", << Ser(<<>>) >>),
                   F("distribution", ZB, FALSE, <<>>, "none", << Ser(<<>>) >>) >>)
            : s \in NE(PairLen), kind \in {"Full", "Prefix", "Suffix"}}
    [] sc = "pair_name_desc" ->
         {Scene(Cfg(FALSE, FALSE, <<>>), << F("counter", a, TRUE, b, "none", << Ser(<<>>) >>) >>) : a \in PNE(PairLen), b \in PStrs(PairLen)}
    [] sc = "pair_key_value" ->
         {Scene(Cfg(FALSE, TRUE, <<>>), << F("distribution", M, FALSE, <<>>, "none", << Ser(<< <<a, b>> >>) >>) >>)
            : a \in {t \in PNE(PairLen) : KeysOK(<<t>>)}, b \in PStrs(PairLen)}
    [] sc = "pair_values" ->
         {Scene(Cfg(FALSE, FALSE, <<>>), << F("gauge", M, FALSE, <<>>, "none", << Ser(<< <<K, a>>, <<Z, b>> >>) >>) >>)
            : a \in PStrs(PairLen), b \in PStrs(PairLen)}

MCInit == \E sc \in Scopes : InitWith(ScopeSet(sc))
MCSpec == MCInit /\ [][Next]_vars
=============================================================================
