----------------------------- MODULE MCPromText -----------------------------
(* Scopes of the exhaustive runs of PromText.tla: the scenes TLC renders.   *)
(* Alphabet = one representative code point per character class:            *)
(*   97 a letter | 110 n (the letter of the \n escape) | 48 digit | 95 _ |  *)
(*   58 : | 34 " | 92 \ | 10 LF | 32 other ASCII (space; { } , = # in the   *)
(*   "structure" scope) | 233 non-ASCII                                      *)
EXTENDS PromText
CONSTANTS Alphabet,   \* code points strings are built from
          MaxLen,     \* every string up to this length in ONE slot (others benign)
          PairLen,    \* every pair of strings up to this length in TWO slots
          Scopes      \* which scopes this run explores

Strs(n) == UNION {[1..k -> Alphabet] : k \in 0..n}
NE(n)   == Strs(n) \ {<<>>}

M == <<109>>  K == <<107>>  Z == <<122>>  V == <<118>>  D == <<100>>  X == <<120>>  G == <<103>>  W == <<119>>
Q3 == << <<48>>, <<48,46,53>>, <<49>> >>          \* quantile tokens 0 0.5 1
B2 == << <<49>>, <<50,46,53>> >>                  \* bucket bounds 1 2.5

Cfg(suffix, hist, globals) == [suffix |-> suffix, buckets |-> IF hist THEN B2 ELSE <<>>, quantiles |-> Q3, globals |-> globals]
Ser(labels) == [labels |-> labels]
F(kind, name, described, desc, unit, series) ==
  [kind |-> kind, name |-> name, described |-> described, desc |-> desc, unit |-> unit, series |-> series]
Scene(cfg, fams) == [cfg |-> cfg, fams |-> fams]
Tailer == F("counter", Z, FALSE, <<>>, "none", << Ser(<<>>) >>)     \* a plain family after the one under test

\* precondition of the property: sanitised label names distinct and not le / quantile
KeysOK(ks) == /\ \A i, j \in DOMAIN ks : i # j => SanitizeLabelKey(ks[i]) # SanitizeLabelKey(ks[j])
              /\ \A i \in DOMAIN ks : ks[i] # <<>> /\ SanitizeLabelKey(ks[i]) \notin {L_LE, L_QUANT}

ScopeNames ==
  {Scene(Cfg(FALSE, FALSE, <<>>), << F("counter", s, TRUE, D, "none", << Ser(<<>>) >>), Tailer >>) : s \in NE(MaxLen)}
  \cup {Scene(Cfg(TRUE, TRUE, <<>>), << F("distribution", s, TRUE, D, "Bytes", << Ser(<< <<K, V>> >>) >>) >>) : s \in NE(MaxLen - 1)}
ScopeKeys ==
  {Scene(Cfg(FALSE, FALSE, <<>>), << F("counter", M, FALSE, <<>>, "none", << Ser(<< <<s, V>>, <<Z, X>> >>) >>) >>)
     : s \in {t \in NE(MaxLen) : KeysOK(<<t, Z>>)}}
  \cup {Scene(Cfg(FALSE, TRUE, << <<s, V>> >>), << F("distribution", M, FALSE, <<>>, "none", << Ser(<<>>) >>) >>)
     : s \in {t \in NE(MaxLen - 1) : KeysOK(<<t>>)}}
ScopeValues ==
  {Scene(Cfg(FALSE, FALSE, <<>>), << F("counter", M, FALSE, <<>>, "none", << Ser(<< <<K, s>>, <<Z, X>> >>) >>), Tailer >>) : s \in Strs(MaxLen)}
  \cup {Scene(Cfg(FALSE, FALSE, <<>>), << F("distribution", M, FALSE, <<>>, "none", << Ser(<< <<K, s>> >>) >>) >>) : s \in Strs(MaxLen - 1)}
ScopeDescs ==
  {Scene(Cfg(FALSE, FALSE, <<>>), << F("gauge", M, TRUE, s, "none", << Ser(<<>>) >>), Tailer >>) : s \in Strs(MaxLen)}
\* every kind x unit x suffix on/off x histogram/summary x described or not; two series, a global
\* label overridden by the key's own label in the second one
ScopeMatrix ==
  {Scene(Cfg(sfx, hist, << <<K, V>>, <<G, X>> >>),
         << F(kind, M, descd, D, u, << Ser(<<>>), Ser(<< <<W, X>>, <<K, W>> >>) >>), Tailer >>)
     : sfx \in BOOLEAN, hist \in BOOLEAN, kind \in {"counter", "gauge", "distribution"},
       descd \in BOOLEAN, u \in Units \cup {"none"}}
ScopePairs ==
  {Scene(Cfg(FALSE, FALSE, <<>>), << F("counter", a, TRUE, b, "none", << Ser(<<>>) >>) >>) : a \in NE(PairLen), b \in Strs(PairLen)}
  \cup {Scene(Cfg(FALSE, TRUE, <<>>), << F("distribution", M, FALSE, <<>>, "none", << Ser(<< <<a, b>> >>) >>) >>)
          : a \in {t \in NE(PairLen) : KeysOK(<<t>>)}, b \in Strs(PairLen)}
  \cup {Scene(Cfg(FALSE, FALSE, <<>>), << F("gauge", M, FALSE, <<>>, "none", << Ser(<< <<K, a>>, <<Z, b>> >>) >>) >>)
          : a \in Strs(PairLen), b \in Strs(PairLen)}

MCInputs ==
  (IF "names" \in Scopes THEN ScopeNames ELSE {}) \cup (IF "keys" \in Scopes THEN ScopeKeys ELSE {})
  \cup (IF "values" \in Scopes THEN ScopeValues ELSE {}) \cup (IF "descs" \in Scopes THEN ScopeDescs ELSE {})
  \cup (IF "matrix" \in Scopes THEN ScopeMatrix ELSE {}) \cup (IF "pairs" \in Scopes THEN ScopePairs ELSE {})
=============================================================================
