----------------------------- MODULE VecPromText -----------------------------
(* Specification -> implementation.  TLC writes                              *)
(*  - IOEnv.VEC_OUT  : one ndjson line per string of the scope (every string  *)
(*    over Alphabet up to MaxLen) with the outputs the specification computes *)
(*    for the four sanitisers;                                                *)
(*  - IOEnv.SCENE_OUT: one ndjson line per scene of the scopes in Scopes      *)
(*    (configuration + families), to be rendered by a real recorder.          *)
(* harness/src/bin/c08.rs (`vectors`, `replay`) runs them on the real crate;  *)
(* the recorded runs are validated by TracePromText.                          *)
EXTENDS MCPromText, Json, IOUtils
CONSTANT VecLen    \* vectors: every string over Alphabet up to this length

Vectors ==
  LET S == SetToSeq(Strs(VecLen))
  IN [i \in DOMAIN S |-> [in |-> S[i], name |-> SanitizeMetricName(S[i]), key |-> SanitizeLabelKey(S[i]),
                          val |-> SanitizeLabelValue(S[i]), desc |-> SanitizeDescription(S[i])]]
Scenes == SetToSeq(UNION {ScopeSet(sc) : sc \in Scopes})

VecInit ==
  /\ ndJsonSerialize(IOEnv.VEC_OUT, Vectors)
  /\ ndJsonSerialize(IOEnv.SCENE_OUT, Scenes)
  /\ PrintT(<<"EXPORTED", Len(Vectors), Len(Scenes)>>)
  /\ inp = [cfg |-> Cfg(FALSE, FALSE, <<>>), fams |-> <<>>] /\ pc = PcDone /\ out = <<>> /\ rs = RInit
VecSpec == VecInit /\ [][UNCHANGED vars]_vars
=============================================================================
