------------------------- MODULE TraceDsdTelemetry -------------------------
(* Implementation -> specification: a run of the real exporter (real forwarder thread in lock step, real unix socket,  *)
(* recorder double as global recorder; harness/src/bin/x01.rs) must be a behaviour of DsdTelemetry.tla, and every     *)
(* accounting law is an invariant of every state of it.                                                               *)
(*                                                                                                                     *)
(* Which payload a send attempt carried is only visible when the agent reads it.  A *failed* attempt's payload is      *)
(* never seen, so the trace keeps a debt: `debt` payloads of `pending` are already gone, any of them.  At the end of  *)
(* the round exactly the debt must be left.  (Equivalent to guessing the payload at the send and much cheaper.)        *)
EXTENDS DsdTelemetry, Json, IOUtils, TLCExt
VARIABLES l, debt
Rec == ndJsonDeserialize(IOEnv.TRACE)
tvars == <<vars, l, debt>>
Ev == Rec[l].ev
A == Rec[l].a
Step == l' = l + 1
Obs(cond) == cond /\ Step /\ UNCHANGED <<vars, debt>>
B(x) == IF x THEN 1 ELSE 0

Reset ==
  /\ ctr' = [k \in CKall |-> NoCtr] /\ idle' = {} /\ gau' = [k \in GK |-> [reg |-> FALSE, upd |-> 0]]
  /\ his' = [k \in HK |-> <<>>]
  /\ pc' = "sleep" /\ pending' = {} /\ produced' = {} /\ upd' = ZeroU /\ tel' = ZeroT /\ telInit' = FALSE
  /\ cstate' = "disc" /\ conn' = 0 /\ connGen' = 0 /\ nextConn' = 1
  /\ up' = TRUE /\ gen' = 1 /\ reading' = TRUE /\ inflight' = <<>> /\ recvP' = 0 /\ recvB' = 0 /\ lostP' = 0 /\ lostB' = 0
  /\ mayTorn' = {}
  /\ sockP' = 0 /\ sockB' = 0 /\ attP' = 0 /\ attB' = 0 /\ acc' = ZeroT /\ skipped' = ZeroT /\ devGate' = FALSE
  /\ rounds' = 0 /\ nops' = 0 /\ restarts' = 0 /\ stalls' = 0
  /\ debt' = 0

\* Histogram::record called n times with the same kind of sample
RecordN(k, w, n) == /\ Op /\ his' = [his EXCEPT ![k] = @ \o [i \in 1..n |-> w]] /\ UNCHANGED <<ctr, idle, gau>>

OpEv ==
  LET c == A[1] k == A[2] x == A[3] IN
  CASE c = 1 -> k \in CK /\ Inc(k, x)
    [] c = 5 -> k \in CK /\ RegC(k)
    [] c = 2 -> k \in GK /\ SetG(k)
    [] c = 6 -> k \in GK /\ RegG(k)
    [] c = 3 -> k \in HK /\ RecordN(k, "n", x)
    [] c = 4 -> k \in HK /\ RecordN(k, "w", x)
    [] OTHER -> FALSE

AgentEv == CASE A[1] = 0 -> AgentDown [] A[1] = 1 -> AgentUp [] A[1] = 2 -> AgentStall [] A[1] = 3 -> AgentResume
             [] OTHER -> FALSE

\* what the agent reports per payload: [kind, key, number of values, counter value, bytes on the wire]
Desc(e) == <<KindNo(e.p), e.p.key, e.p.nv, e.p.val, e.len>>
SameClass(p, q) == p.kind = q.kind /\ p.key = q.key /\ p.nv = q.nv /\ p.val = q.val
Canon(p) == \A q \in pending : SameClass(p, q) => q.part >= p.part
\* A successful send is annotated by the harness with what the agent later read for it (first in, first out): "d" =
\* [kind, key, number of values, counter value]; empty when the payload was never read (it died in the kernel with the
\* agent's socket, or the run ended first).  Such a payload is never identified: it joins the debt.
UnknownP == [kind |-> "?", key |-> 0, nv |-> 0, part |-> 0, val |-> 0]
Matches(p, d) == KindNo(p) = d[1] /\ p.key = d[2] /\ p.nv = d[3] /\ p.val = d[4]
SendEv ==
  LET ok == A[1] len == A[2] d == Rec[l].d IN
  IF ok = 1 /\ d # <<>>
  THEN \E p \in pending :
         /\ Canon(p) /\ Matches(p, d)
         /\ SendOkCore(p, len) /\ pending' = pending \ {p}
         /\ Cardinality(pending') >= debt /\ UNCHANGED debt
  ELSE /\ IF ok = 1 THEN SendOkCore(UnknownP, len) ELSE (SendRefusedCore(len) \/ SendTimeoutCore(len))
       /\ Cardinality(pending) > debt /\ debt' = debt + 1 /\ UNCHANGED pending

ReadEv ==
  /\ Rec[l].torn <= Cardinality(mayTorn)
  /\ IF inflight = <<>>
     THEN /\ A = <<>> /\ up /\ reading /\ mayTorn' = {}
          /\ UNCHANGED <<svars, fvars, up, gen, reading, inflight, recvP, recvB, lostP, lostB, hvars, bvars>>
     ELSE AgentRead /\ A = [i \in DOMAIN inflight |-> Desc(inflight[i])]

TelSeq(t) == [i \in 1..15 |-> t[TelNames[i]]]
ApplyEv ==
  /\ Cardinality(pending) = debt /\ ApplyCore /\ pending' = {} /\ debt' = 0
  /\ A = (IF Applies THEN [i \in 1..15 |-> <<i, Delta(upd)[TelNames[i]]>>] ELSE <<>>)         \* the 15 increments, in order
  /\ Rec[l].regs = (IF Applies /\ ~telInit THEN [i \in 1..15 |-> i] ELSE <<>>)                 \* Telemetry::new exactly once
  /\ IF devGate' /\ ~devGate THEN PrintT(<<"KNOWN", "XF01a", TelSeq(Delta(upd))>>) ELSE TRUE

TraceNext ==
  /\ l <= Len(Rec)
  /\ CASE Ev = "reset"     -> Reset /\ A = <<B(Stream), B(TelemetryOn), B(Feedback)>> /\ Step
       [] Ev = "op"        -> OpEv /\ Step /\ UNCHANGED debt
       [] Ev = "agent"     -> AgentEv /\ Step /\ UNCHANGED debt
       [] Ev = "flush"     -> Flush /\ Step /\ UNCHANGED debt
       [] Ev = "send"      -> SendEv /\ Step
       [] Ev = "read"      -> ReadEv /\ Step /\ UNCHANGED debt
       [] Ev = "apply"     -> ApplyEv /\ Step
       [] Ev = "round.end" -> Obs(A = TelSeq(tel))
       [] Ev = "expect"    -> Obs(\A i \in 1..15 : i \in {9, 10, 11} \/ A[i] = TelSeq(tel)[i])
       [] Ev = "end"       -> Obs(TRUE)
       [] OTHER -> FALSE            \* foreign (anything else emitted through the facade), hang, killed, crash, build_error
TraceInit == Init /\ l = 1 /\ debt = 0
TraceSpec == TraceInit /\ [][TraceNext]_tvars

\* RoundPackets with the debt taken into account
RoundPacketsT == /\ upd.psent + upd.pdropw + Cardinality(pending) - debt = Cardinality(produced)
                 /\ upd.pdrop = upd.pdropw + upd.pdrops
TraceAccepted ==
  LET d == TLCGet("stats").diameter IN
  IF d - 1 = Len(Rec) THEN TRUE
  ELSE Print(<<"TRACE REJECTED at line", d, Rec[d].ev, Rec[d].a>>, FALSE)
=============================================================================
