-------------------------- MODULE SimDsdTelemetry --------------------------
(* Specification -> implementation: TLC (-simulate) walks the model and prints each complete behaviour as a script of  *)
(* environment actions (application calls, agent faults) and forwarder steps; harness/src/bin/x01.rs executes the      *)
(* script against the real exporter in lock step.  The walk is restricted to what the lock-step harness can place:    *)
(* application calls while the forwarder sleeps, agent faults while it sleeps or after a send attempt, the agent reads *)
(* as soon as there is something to read, counter 1 exists from the start and other counters appear after round 1     *)
(* (the harness registers handles one round ahead, see x01.rs).                                                        *)
EXTENDS DsdTelemetry, Json
VARIABLE script
svs == <<vars, script>>
Log(x) == script' = Append(script, x)
SimInit == InitC([k \in CKall |-> IF k = 1 THEN [NoCtr EXCEPT !.reg = TRUE] ELSE NoCtr]) /\ script = <<>>
Done == rounds = MaxRounds /\ pc = "sleep"
MustRead == up /\ reading /\ inflight # <<>>
Attempted == upd.psent + upd.pdropw > 0
CounterOk(k) == k = 1 \/ ctr[k].reg \/ rounds >= 1
SimNext ==
  /\ ~Done
  /\ IF MustRead THEN AgentRead /\ Log(<<"read">>)
     ELSE \/ /\ pc = "sleep"
             /\ \/ \E k \in CK : CounterOk(k) /\ RegC(k) /\ Log(<<"op", 5, k, 0>>)
                \/ \E k \in CK, v \in IncVals : CounterOk(k) /\ Inc(k, v) /\ Log(<<"op", 1, k, v>>)
                \/ \E k \in GK : RegG(k) /\ Log(<<"op", 6, k, 0>>)
                \/ \E k \in GK : SetG(k) /\ Log(<<"op", 2, k, 0>>)
                \/ \E k \in HK : Record(k, "n") /\ Log(<<"op", 3, k, 1>>)
                \/ \E k \in HK : Record(k, "w") /\ Log(<<"op", 4, k, 1>>)
          \/ Flush /\ Log(<<"flush">>)
          \/ SendNext /\ Log(<<"send">>)
          \/ Apply /\ Log(<<"apply">>)
          \/ /\ (pc = "sleep" \/ Attempted)
             /\ \/ AgentDown /\ Log(<<"agent", 0>>)
                \/ AgentUp /\ Log(<<"agent", 1>>)
                \/ AgentStall /\ Log(<<"agent", 2>>)
                \/ AgentResume /\ Log(<<"agent", 3>>)
SimSpec == SimInit /\ [][SimNext]_svs
B(x) == IF x THEN 1 ELSE 0
Emit == Done => PrintT(<<"REPLAY", ToJson([stream |-> Stream, telemetry |-> TelemetryOn, feedback |-> Feedback, steps |-> script,
                                           expect |-> [i \in 1..15 |-> tel[TelNames[i]]]])>>)
=============================================================================
