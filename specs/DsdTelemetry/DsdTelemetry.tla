---------------------------- MODULE DsdTelemetry ----------------------------
(***************************************************************************)
(* metrics-exporter-dogstatsd: the forwarder loop and its own telemetry.   *)
(*   forwarder/sync.rs  Forwarder::run, ClientState::try_send,             *)
(*                      Forwarder::update_telemetry                        *)
(*   state.rs           State::flush and its TelemetryUpdate bookkeeping   *)
(*   telemetry.rs       TelemetryUpdate (13 per-round fields),             *)
(*                      Telemetry::apply_update (15 counters)              *)
(*   writer.rs          PayloadWriter seen as: a metric is rejected (too   *)
(*                      long) or becomes payload(s); one metric = one      *)
(*                      payload, a histogram block may need several        *)
(*                                                                         *)
(* One round of the loop:                                                  *)
(*   Flush   telemetry_update.clear(); State::flush(..); writer.payloads() *)
(*   Send*   one try_send per payload (connect lazily; a failure drops the *)
(*           payload and disconnects), track_packet_send_{succeeded,failed}*)
(*   Apply   update_telemetry(): only if telemetry is enabled AND          *)
(*           had_updates() (= some *point* was counted this round)         *)
(*                                                                         *)
(* The storage is abstract (a flush is atomic: its interleavings with      *)
(* updates are DsdAgg.tla's subject, C10), the writer's byte layout is     *)
(* DsdWriter.tla's (C09).  Payload lengths are data: chosen at the send.   *)
(*                                                                         *)
(* The agent (receiver) is part of the model: it can go away, come back    *)
(* (new socket generation), stop reading (stall: kernel buffer fills, the  *)
(* write timeout fires) and resume.                                        *)
(***************************************************************************)
EXTENDS Naturals, Sequences, FiniteSets, TLC, FiniteSetsExt, SequencesExt

CONSTANTS
  CK, GK, HK,      \* user keys (naturals, pairwise disjoint, all < 100)
  BigKeys,         \* keys whose name alone exceeds the maximum payload length: the writer rejects them
  TightH,          \* histogram keys with so little room that a wide sample never fits (dropped one by one)
  HCap,            \* narrow samples per payload of a tight histogram key
  BS,              \* AtomicBucket block size: the flush closure runs once per block
  Stream,          \* TRUE: unix stream socket (4-byte length prefix, connections); FALSE: unix datagram
  TelemetryOn,     \* DogStatsDBuilder::with_telemetry
  Feedback,        \* the exporter's recorder is (under) the global recorder: telemetry counters are registered in
                   \* the exporter's own registry and are flushed like user counters
  GateOnPoints,    \* TRUE = the code: had_updates() looks at the three point counts only.  FALSE = any field.
  MaxRounds, MaxOps, MaxRestarts, MaxStalls,
  AnyOrder,        \* payloads of a round are attempted in any order (TRUE) or in one fixed order (FALSE)
  Lens,            \* payload body lengths
  IncVals          \* counter increments (0 = increment(0): an update that leaves the value alone)

ASSUME BS \in Nat \ {0} /\ HCap \in Nat \ {0}

Prefix == IF Stream THEN 4 ELSE 0     \* payload.len() includes the length prefix (writer.rs next_payload)

\* ------------------------------------------------------------------ telemetry vocabulary
\* Telemetry::apply_update increments its 15 counters in this order
TelNames == <<"metrics", "mc", "mg", "mh", "psent", "pdrop", "pdropw", "pdrops", "bdrop", "bsent", "bdropw",
              "ctx", "ctxc", "ctxg", "ctxh">>
TelF == {TelNames[i] : i \in 1..15}
UpdF == {"cctx", "gctx", "hctx", "cpts", "gpts", "hpts", "psent", "pdrop", "pdropw", "pdrops", "bsent", "bdrop", "bdropw"}
ZeroT == [f \in TelF |-> 0]
ZeroU == [f \in UpdF |-> 0]

\* apply_update: what one round's TelemetryUpdate adds to each counter
Delta(u) == [f \in TelF |->
  CASE f = "metrics" -> u.cpts + u.gpts + u.hpts
    [] f = "mc"      -> u.cpts
    [] f = "mg"      -> u.gpts
    [] f = "mh"      -> u.hpts
    [] f = "psent"   -> u.psent
    [] f = "pdrop"   -> u.pdrop
    [] f = "pdropw"  -> u.pdropw
    [] f = "pdrops"  -> u.pdrops
    [] f = "bdrop"   -> u.bdrop
    [] f = "bsent"   -> u.bsent
    [] f = "bdropw"  -> u.bdropw
    [] f = "ctx"     -> u.cctx + u.gctx + u.hctx
    [] f = "ctxc"    -> u.cctx
    [] f = "ctxg"    -> u.gctx
    [] OTHER         -> u.hctx]
Plus(a, b) == [f \in TelF |-> a[f] + b[f]]

\* telemetry counter i lives under key 100 + i when it is registered in the exporter's own registry
TK == IF Feedback /\ TelemetryOn THEN {100 + i : i \in 1..15} ELSE {}
CKall == CK \cup TK

VARIABLES
  \* storage (ClientSideAggregatedStorage + FlushState)
  ctr,        \* [CKall -> [reg, delta, upd]]   delta / number of updates since the last flush
  idle,       \* FlushState.idle_counters
  gau,        \* [GK -> [reg, upd]]
  his,        \* [HK -> sequence of "n" (narrow sample) / "w" (wide sample)]
  \* forwarder
  pc,         \* "sleep" | "send"
  pending,    \* payloads of this round not yet attempted
  produced,   \* [history] all payloads the writer produced this round
  upd,        \* TelemetryUpdate of this round
  tel,        \* the 15 telemetry counters as emitted through the metrics facade
  telInit,    \* Telemetry::new has run (counters registered with the global recorder)
  cstate, conn, connGen, nextConn,   \* ClientState + which connection / socket generation it is attached to
  \* agent
  up, gen, reading, inflight, recvP, recvB, lostP, lostB, mayTorn,
  \* history: what an exact account would say
  sockP, sockB,   \* payloads / bytes the socket accepted (send returned Ok)
  attP, attB,     \* payloads / bytes handed to try_send, whatever the outcome
  acc,            \* sum of Delta(upd) over all finished rounds
  skipped,        \* the part of acc that was not applied (had_updates() said no)
  devGate,        \* [deviation XF01a] a round that did something (contexts, packets, bytes, serializer drops) was skipped
  rounds, nops, restarts, stalls

fvars == <<pc, pending, produced, upd, tel, telInit, cstate, conn, connGen, nextConn>>
svars == <<ctr, idle, gau, his>>
avars == <<up, gen, reading, inflight, recvP, recvB, lostP, lostB, mayTorn>>
hvars == <<sockP, sockB, attP, attB, acc, skipped, devGate>>
bvars == <<rounds, nops, restarts, stalls>>
vars == <<svars, fvars, avars, hvars, bvars>>

NoCtr == [reg |-> FALSE, delta |-> 0, upd |-> 0]
InitC(c0) ==
  /\ ctr = c0 /\ idle = {} /\ gau = [k \in GK |-> [reg |-> FALSE, upd |-> 0]]
  /\ his = [k \in HK |-> <<>>]
  /\ pc = "sleep" /\ pending = {} /\ produced = {} /\ upd = ZeroU /\ tel = ZeroT /\ telInit = FALSE
  /\ cstate = "disc" /\ conn = 0 /\ connGen = 0 /\ nextConn = 1
  /\ up = TRUE /\ gen = 1 /\ reading = TRUE /\ inflight = <<>> /\ recvP = 0 /\ recvB = 0 /\ lostP = 0 /\ lostB = 0
  /\ mayTorn = {}
  /\ sockP = 0 /\ sockB = 0 /\ attP = 0 /\ attB = 0 /\ acc = ZeroT /\ skipped = ZeroT /\ devGate = FALSE
  /\ rounds = 0 /\ nops = 0 /\ restarts = 0 /\ stalls = 0
Init == InitC([k \in CKall |-> NoCtr])

\* ------------------------------------------------------------------ the application (recorder calls)
Op == nops < MaxOps /\ nops' = nops + 1 /\ UNCHANGED <<fvars, avars, hvars, rounds, restarts, stalls>>
\* register_counter without an update (a handle that was never touched)
RegC(k) == /\ Op /\ ~ctr[k].reg /\ ctr' = [ctr EXCEPT ![k].reg = TRUE] /\ UNCHANGED <<idle, gau, his>>
\* Counter::increment(v)
Inc(k, v) == /\ Op /\ ctr' = [ctr EXCEPT ![k] = [reg |-> TRUE, delta |-> @.delta + v, upd |-> @.upd + 1]]
             /\ UNCHANGED <<idle, gau, his>>
RegG(k) == /\ Op /\ ~gau[k].reg /\ gau' = [gau EXCEPT ![k].reg = TRUE] /\ UNCHANGED <<ctr, idle, his>>
\* Gauge::set / increment / decrement
SetG(k) == /\ Op /\ gau' = [gau EXCEPT ![k] = [reg |-> TRUE, upd |-> @.upd + 1]] /\ UNCHANGED <<ctr, idle, his>>
\* Histogram::record of a narrow / wide sample
Record(k, w) == /\ Op /\ his' = [his EXCEPT ![k] = Append(@, w)] /\ UNCHANGED <<ctr, idle, gau>>

\* ------------------------------------------------------------------ State::flush
Sum(S, F(_)) == FoldSet(LAMBDA k, a : a + F(k), 0, S)
Min2(a, b) == IF a < b THEN a ELSE b

\* counters (state.rs: the `for (key, counter) in counters` loop)
CSkipped(k) == ctr[k].delta = 0 /\ k \in idle              \* zero already sent: `continue`
CActive    == {k \in CKall : ctr[k].reg /\ ~CSkipped(k)}
CWritten   == CActive \ BigKeys
CRejected  == CActive \cap BigKeys
CPayloads  == {[kind |-> "c", key |-> k, nv |-> 1, part |-> 1, val |-> ctr[k].delta] : k \in CWritten}
IdleAfter  == (idle \ {k \in CKall : ctr[k].reg /\ ctr[k].delta # 0}) \cup {k \in CKall : ctr[k].reg /\ ctr[k].delta = 0}

\* gauges: every handle is written at every flush, updated or not
GAll      == {k \in GK : gau[k].reg}
GWritten  == GAll \ BigKeys
GRejected == GAll \cap BigKeys
GPayloads == {[kind |-> "g", key |-> k, nv |-> 1, part |-> 1, val |-> 0] : k \in GWritten}

\* histograms: skipped when empty; the flush closure runs once per bucket block
HActive == {k \in HK : his[k] # <<>>}
NBlocks(k) == (Len(his[k]) + BS - 1) \div BS
Block(k, b) == SubSeq(his[k], (b - 1) * BS + 1, Min2(b * BS, Len(his[k])))
Count(s, x) == Cardinality({i \in DOMAIN s : s[i] = x})
\* per closure call: (points counted, serializer failure?, sizes of the payloads written)
Chunks(n, cap) == [i \in 1..((n + cap - 1) \div cap) |-> IF i * cap <= n THEN cap ELSE n - (i - 1) * cap]
CallPts(k, b) == IF k \in BigKeys THEN 0                                   \* WriteResult::failure(len): len - len
                 ELSE IF k \in TightH THEN Count(Block(k, b), "n")        \* len - points_dropped
                 ELSE Len(Block(k, b))
CallFail(k, b) == IF k \in BigKeys THEN 1
                  ELSE IF k \in TightH /\ Count(Block(k, b), "w") > 0 THEN 1 ELSE 0
CallSizes(k, b) == IF k \in BigKeys THEN <<>>
                   ELSE IF k \in TightH THEN Chunks(Count(Block(k, b), "n"), HCap)
                   ELSE <<Len(Block(k, b))>>
HSizes(k) == FoldLeft(LAMBDA a, b : a \o CallSizes(k, b), <<>>, [b \in 1..NBlocks(k) |-> b])
HPayloads(k) == {[kind |-> "h", key |-> k, nv |-> HSizes(k)[i], part |-> i, val |-> 0] : i \in DOMAIN HSizes(k)}
HPts(k)  == Sum(1..NBlocks(k), LAMBDA b : CallPts(k, b))
HFail(k) == Sum(1..NBlocks(k), LAMBDA b : CallFail(k, b))

Flush ==
  /\ pc = "sleep" /\ rounds < MaxRounds /\ rounds' = rounds + 1
  /\ LET rej == Cardinality(CRejected) + Cardinality(GRejected) + Sum(HActive, HFail)
         all == CPayloads \cup GPayloads \cup UNION {HPayloads(k) : k \in HActive}
     IN /\ upd' = [ZeroU EXCEPT !.cctx = Cardinality(CActive), !.gctx = Cardinality(GAll), !.hctx = Cardinality(HActive),
                                !.cpts = Sum(CWritten, LAMBDA k : ctr[k].upd),
                                !.gpts = Sum(GWritten, LAMBDA k : gau[k].upd),
                                !.hpts = Sum(HActive, HPts),
                                !.pdrop = rej, !.pdrops = rej]      \* track_packet_serializer_failed
        /\ pending' = all /\ produced' = all
  /\ idle' = IdleAfter
  /\ ctr' = [k \in CKall |-> [ctr[k] EXCEPT !.delta = 0, !.upd = 0]]
  /\ gau' = [k \in GK |-> [gau[k] EXCEPT !.upd = 0]]
  /\ his' = [k \in HK |-> <<>>]
  /\ pc' = "send"
  /\ UNCHANGED <<tel, telInit, cstate, conn, connGen, nextConn, avars, hvars, nops, restarts, stalls>>

\* ------------------------------------------------------------------ ClientState::try_send
\* the connection after the optional connect step (Disconnected -> from_forwarder_config)
ConnAfter ==
  IF cstate = "disc"
  THEN IF up THEN [st |-> "ready", id |-> nextConn, g |-> gen, new |-> TRUE]
             ELSE [st |-> "disc", id |-> conn, g |-> connGen, new |-> FALSE]     \* connect fails: ENOENT / ECONNREFUSED
  ELSE [st |-> "ready", id |-> conn, g |-> connGen, new |-> FALSE]
Valid(c) == c.st = "ready" /\ up /\ c.g = gen
SetConn(c, st) == /\ cstate' = st /\ conn' = c.id /\ connGen' = c.g
                  /\ nextConn' = IF c.new THEN nextConn + 1 ELSE nextConn
Failed(len) == [upd EXCEPT !.pdrop = @ + 1, !.pdropw = @ + 1, !.bdrop = @ + len, !.bdropw = @ + len]
SendFrame == UNCHANGED <<svars, pc, produced, tel, telInit, up, gen, reading, recvP, recvB, lostP, lostB, acc, skipped, devGate, bvars>>

\* The *Core actions say everything except which pending payload it was (trace validation cannot see the identity of
\* a payload that never arrived and keeps a debt instead, see TraceDsdTelemetry).
SendOkCore(p, len) ==
  /\ pc = "send"
  /\ LET c == ConnAfter IN
     /\ Valid(c) /\ SetConn(c, "ready")
     /\ inflight' = Append(inflight, [p |-> p, len |-> len, conn |-> c.id])
  /\ upd' = [upd EXCEPT !.psent = @ + 1, !.bsent = @ + len]                 \* track_packet_send_succeeded
  /\ sockP' = sockP + 1 /\ sockB' = sockB + len /\ attP' = attP + 1 /\ attB' = attB + len
  /\ UNCHANGED mayTorn /\ SendFrame
\* connect refused / peer gone: the payload is dropped, the client is Disconnected
SendRefusedCore(len) ==
  /\ pc = "send"
  /\ LET c == ConnAfter IN ~Valid(c) /\ SetConn(c, "disc")
  /\ upd' = Failed(len)                                                      \* track_packet_send_failed
  /\ attP' = attP + 1 /\ attB' = attB + len
  /\ UNCHANGED <<inflight, mayTorn, sockP, sockB>> /\ SendFrame
\* the agent is not reading and the kernel buffer is full: the write timeout fires (stream: possibly mid-frame)
SendTimeoutCore(len) ==
  /\ pc = "send" /\ ~reading
  /\ LET c == ConnAfter IN
     /\ Valid(c) /\ SetConn(c, "disc")
     /\ mayTorn' = IF Stream THEN mayTorn \cup {c.id} ELSE mayTorn
  /\ upd' = Failed(len)
  /\ attP' = attP + 1 /\ attB' = attB + len
  /\ UNCHANGED <<inflight, sockP, sockB>> /\ SendFrame

SendOk(p, len)      == p \in pending /\ SendOkCore(p, len) /\ pending' = pending \ {p}
SendRefused(p, len) == p \in pending /\ SendRefusedCore(len) /\ pending' = pending \ {p}
SendTimeout(p, len) == p \in pending /\ SendTimeoutCore(len) /\ pending' = pending \ {p}

\* ------------------------------------------------------------------ Forwarder::update_telemetry
HadUpdates == IF GateOnPoints THEN upd.cpts + upd.gpts + upd.hpts > 0
              ELSE \E f \in UpdF : upd[f] > 0
Applies == TelemetryOn /\ HadUpdates
ApplyCore ==
  /\ pc = "send"
  /\ LET d == Delta(upd) IN
     /\ tel' = IF Applies THEN Plus(tel, d) ELSE tel
     /\ telInit' = (telInit \/ Applies)
     /\ acc' = IF TelemetryOn THEN Plus(acc, d) ELSE acc
     /\ skipped' = IF TelemetryOn /\ ~Applies THEN Plus(skipped, d) ELSE skipped
     /\ devGate' = (devGate \/ (TelemetryOn /\ ~Applies /\ d # ZeroT))
     \* the counters are incremented through the global recorder: in feedback mode that is the exporter's own registry
     /\ ctr' = IF Applies /\ Feedback
               THEN [k \in CKall |-> IF k \in TK THEN [reg |-> TRUE, delta |-> ctr[k].delta + d[TelNames[k - 100]],
                                                       upd |-> ctr[k].upd + 1]
                                     ELSE ctr[k]]
               ELSE ctr
  /\ pc' = "sleep" /\ upd' = ZeroU /\ produced' = {}
  /\ UNCHANGED <<idle, gau, his, cstate, conn, connGen, nextConn, avars, sockP, sockB, attP, attB, bvars>>
Apply == pending = {} /\ ApplyCore /\ UNCHANGED pending

\* ------------------------------------------------------------------ the agent
AFrame == UNCHANGED <<svars, fvars, hvars, rounds, nops>>
SumLen(s) == FoldLeft(LAMBDA a, e : a + e.len, 0, s)
\* reads everything the kernel holds
AgentRead == /\ up /\ reading /\ inflight # <<>>
             /\ recvP' = recvP + Len(inflight) /\ recvB' = recvB + SumLen(inflight) /\ inflight' = <<>> /\ mayTorn' = {}
             /\ UNCHANGED <<up, gen, reading, lostP, lostB, restarts, stalls>> /\ AFrame
\* closes its socket(s): whatever it had not read yet is gone although the client counted it as sent
AgentDown == /\ up /\ restarts < MaxRestarts /\ up' = FALSE
             /\ lostP' = lostP + Len(inflight) /\ lostB' = lostB + SumLen(inflight) /\ inflight' = <<>> /\ mayTorn' = {}
             /\ UNCHANGED <<gen, reading, recvP, recvB, restarts, stalls>> /\ AFrame
AgentUp == /\ ~up /\ up' = TRUE /\ gen' = gen + 1 /\ reading' = TRUE /\ restarts' = restarts + 1
           /\ UNCHANGED <<inflight, recvP, recvB, lostP, lostB, mayTorn, stalls>> /\ AFrame
AgentStall == /\ up /\ reading /\ stalls < MaxStalls /\ reading' = FALSE /\ stalls' = stalls + 1
              /\ UNCHANGED <<up, gen, inflight, recvP, recvB, lostP, lostB, mayTorn, restarts>> /\ AFrame
AgentResume == /\ up /\ ~reading /\ reading' = TRUE
               /\ UNCHANGED <<up, gen, inflight, recvP, recvB, lostP, lostB, mayTorn, restarts, stalls>> /\ AFrame

\* ------------------------------------------------------------------
AppNext == \/ \E k \in CK : RegC(k) \/ \E v \in IncVals : Inc(k, v)
           \/ \E k \in GK : RegG(k) \/ SetG(k)
           \/ \E k \in HK, w \in {"n", "w"} : Record(k, w)
\* AnyOrder = FALSE: exhaustive configs with many payloads (feedback) send in one fixed order: the accounting does not
\* depend on which payload meets which fault, only trace validation needs the freedom (HashMap iteration order)
KindNo(p) == CASE p.kind = "c" -> 1 [] p.kind = "g" -> 2 [] OTHER -> 3
Before(p, q) == \/ KindNo(p) < KindNo(q)
                \/ KindNo(p) = KindNo(q) /\ (p.key < q.key \/ (p.key = q.key /\ p.part <= q.part))
Sendable == IF AnyOrder THEN pending ELSE {p \in pending : \A q \in pending : Before(p, q)}
SendOkA      == \E p \in Sendable, b \in Lens : SendOk(p, b + Prefix)
SendRefusedA == \E p \in Sendable, b \in Lens : SendRefused(p, b + Prefix)
SendTimeoutA == \E p \in Sendable, b \in Lens : SendTimeout(p, b + Prefix)
SendNext == SendOkA \/ SendRefusedA \/ SendTimeoutA
AgentNext == AgentRead \/ AgentDown \/ AgentUp \/ AgentStall \/ AgentResume
Next == AppNext \/ Flush \/ SendNext \/ Apply \/ AgentNext
Spec == Init /\ [][Next]_vars

-----------------------------------------------------------------------------
(* The accounting laws *)
TypeOK == /\ pc \in {"sleep", "send"} /\ cstate \in {"disc", "ready"} /\ pending \subseteq produced
          /\ (\A f \in TelF : tel[f] \in Nat) /\ (\A g \in UpdF : upd[g] \in Nat)

\* metrics == sum of metrics_by_type, aggregated_context == sum of aggregated_context_by_type
TelSums == /\ tel.metrics = tel.mc + tel.mg + tel.mh
           /\ tel.ctx = tel.ctxc + tel.ctxg + tel.ctxh
\* packets_dropped is the writer's (send failed) plus the serializer's (metric rejected) drops; a serializer drop has
\* no bytes, so bytes_dropped is the writer's alone
TelDropSplit == /\ tel.pdrop = tel.pdropw + tel.pdrops
                /\ tel.bdrop = tel.bdropw
\* within a round: every payload the writer produced is attempted exactly once: sent or dropped by the writer
RoundPackets == /\ upd.psent + upd.pdropw + Cardinality(pending) = Cardinality(produced)
                /\ upd.pdrop = upd.pdropw + upd.pdrops
\* histogram points of a round are exactly the sample values serialised into this round's histogram payloads
\* (counter / gauge points are the number of *updates* folded into the one value that was serialised)
SumNv(S) == FoldSet(LAMBDA p, a : a + p.nv, 0, S)
HistPointsAreValues == pc = "send" => upd.hpts = SumNv({p \in produced : p.kind = "h"})
\* contexts: per kind at least the distinct keys that produced a payload, and exactly those when nothing was rejected
KeysOf(kind) == {p.key : p \in {q \in produced : q.kind = kind}}
Contexts == pc = "send" =>
  /\ Cardinality(KeysOf("c")) <= upd.cctx /\ Cardinality(KeysOf("g")) <= upd.gctx /\ Cardinality(KeysOf("h")) <= upd.hctx
  /\ (upd.pdrops = 0 => /\ Cardinality(KeysOf("c")) = upd.cctx /\ Cardinality(KeysOf("g")) = upd.gctx
                        /\ Cardinality(KeysOf("h")) = upd.hctx)
\* every round is applied exactly once or not at all; nothing is counted twice
ExactlyOnce == \A f \in TelF : tel[f] + skipped[f] = acc[f]
\* ... and nothing is lost, except by the named deviation
NothingLost == (tel = acc) \/ devGate
StrictNothingLost == tel = acc                     \* witness config only
\* what the socket accepted is what the telemetry says was sent (up to the round in progress and skipped rounds)
TelVsSocket == TelemetryOn => /\ tel.psent + skipped.psent + upd.psent = sockP
                              /\ tel.bsent + skipped.bsent + upd.bsent = sockB
\* what the socket accepted was read by the agent, is still in the kernel, or died with the agent's socket
SocketConservation == /\ sockP = recvP + Len(inflight) + lostP
                      /\ sockB = recvB + SumLen(inflight) + lostB
\* every payload (byte) handed to the socket layer is counted exactly once: as sent or as dropped by the writer
Attempts == TelemetryOn =>
  /\ tel.psent + tel.pdropw + skipped.psent + skipped.pdropw + upd.psent + upd.pdropw = attP
  /\ tel.bsent + tel.bdrop + skipped.bsent + skipped.bdrop + upd.bsent + upd.bdrop = attB
TelemetryOff == ~TelemetryOn => (tel = ZeroT /\ ~telInit)
\* Telemetry::new runs only after a round that counted points
LazyInit == (GateOnPoints /\ telInit) => acc.metrics > 0
\* feedback: the exporter's own counters appear in its registry only after Telemetry::new
FeedbackReg == \A k \in TK : ctr[k].reg => telInit
\* counters never go down
Monotone == [][\A f \in TelF : tel'[f] >= tel[f]]_vars
=============================================================================
