SPECIFICATION Spec
CONSTANTS
 CK = {1,2}
 GK = {11}
 HK = {21}
 BigKeys = {2}
 TightH = {21}
 HCap = 1
 BS = 2
 Stream = FALSE
 TelemetryOn = TRUE
 Feedback = FALSE
 GateOnPoints = TRUE
 MaxRounds = 2
 MaxOps = 3
 MaxRestarts = 1
 MaxStalls = 0
 AnyOrder = TRUE
 Lens = {2}
 IncVals = {0,1}
INVARIANTS TypeOK TelSums TelDropSplit RoundPackets HistPointsAreValues Contexts ExactlyOnce NothingLost TelVsSocket SocketConservation Attempts TelemetryOff LazyInit FeedbackReg
PROPERTIES Monotone
CHECK_DEADLOCK FALSE
