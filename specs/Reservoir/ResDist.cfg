SPECIFICATION Spec
CONSTANTS
 MaxCap = 3
 MaxN = 6
