------------------------------ MODULE Reservoir ------------------------------
(***************************************************************************)
(* metrics-util/src/storage/reservoir.rs: AtomicSamplingReservoir, one     *)
(* action per atomic step.                                                 *)
(*                                                                         *)
(* push(v)   : side := use_primary.load                       (PSide)      *)
(*             idx  := count[side].fetch_add(1)               (PClaim)     *)
(*             idx < cap  -> values[side][idx] := v           (PStore)     *)
(*             otherwise  r := fastrand(Upper(idx)); r < cap -> values[side][r] := v *)
(* consume(f): lock; u := use_primary; use_primary := ~u      (CSwap)      *)
(*             ulen := count[u]; len := min(ulen, cap)        (CCount)     *)
(*             f reads values[u][0..len)                      (CRead)      *)
(*             Drain::drop: count[u] := 0                     (CReset)     *)
(*                                                                         *)
(* DrawInclusive = TRUE : fastrand(idx + 1), r in 0..idx   (Algorithm R; repaired code) *)
(* DrawInclusive = FALSE: fastrand(idx),     r in 0..idx-1 (as originally coded: CF16a, *)
(*                        and an empty range -> panic when idx = 0, i.e. capacity 0: CF16b) *)
(***************************************************************************)
EXTENDS Naturals, Integers, Sequences, FiniteSets, TLC

CONSTANTS Cap,          \* capacity
          Pushers,      \* set of pusher ids, e.g. {1,2}
          NVals,        \* pushes per pusher
          NConsumes,    \* consume() calls
          DrawInclusive

Sides == {0, 1}         \* 1 = primary, 0 = secondary (use_primary as 0/1)
Val(p, i) == p * 10 + i
Min(a, b) == IF a < b THEN a ELSE b
Upper(idx) == IF DrawInclusive THEN idx + 1 ELSE idx

VARIABLES
  usePrimary, count, values,          \* shared memory
  ppc, pside, pidx, ptgt, pk,         \* pusher: pc, loaded side, claimed idx, target slot, next value number
  cpc, cside, ulen, clen, ci, yielded,\* consumer: pc, drained side, unsampled_len, len, read index, values read so far
  consumes,
  \* history
  cycle,       \* number of swaps so far
  pcycle,      \* cycle in which the pusher's current push loaded the side
  pushedIn,    \* cycle -> bag (sequence) of values whose push ran entirely within that cycle
  dirty,       \* a push straddled a swap (known finding CF16c); from then on drains may be inexact
  drains,      \* sequence of finished drains: [cycle, vals, ulen, len]
  panicked

vars == <<usePrimary, count, values, ppc, pside, pidx, ptgt, pk, cpc, cside, ulen, clen, ci, yielded, consumes,
          cycle, pcycle, pushedIn, dirty, drains, panicked>>

MaxCycle == 64
Init ==
  /\ usePrimary = 1
  /\ count = [s \in Sides |-> 0]
  /\ values = [s \in Sides |-> [j \in 0..(Cap-1) |-> 0]]
  /\ ppc = [p \in Pushers |-> "side"] /\ pside = [p \in Pushers |-> 1]
  /\ pidx = [p \in Pushers |-> 0] /\ ptgt = [p \in Pushers |-> 0] /\ pk = [p \in Pushers |-> 1]
  /\ cpc = "swap" /\ cside = 1 /\ ulen = 0 /\ clen = 0 /\ ci = 0 /\ yielded = <<>>
  /\ consumes = 0
  /\ cycle = 0 /\ pcycle = [p \in Pushers |-> 0]
  /\ pushedIn = [c \in 0..MaxCycle |-> <<>>]
  /\ dirty = FALSE /\ drains = <<>> /\ panicked = FALSE

-----------------------------------------------------------------------------
PSide(p) ==
  /\ ppc[p] = "side" /\ pk[p] <= NVals
  /\ pside' = [pside EXCEPT ![p] = usePrimary]
  /\ pcycle' = [pcycle EXCEPT ![p] = cycle]
  /\ ppc' = [ppc EXCEPT ![p] = "claim"]
  /\ UNCHANGED <<usePrimary, count, values, pidx, ptgt, pk, cpc, cside, ulen, clen, ci, yielded, consumes,
                 cycle, pushedIn, dirty, drains, panicked>>

FinishPush(p) ==
  /\ pk' = [pk EXCEPT ![p] = @ + 1]
  /\ pushedIn' = IF pcycle[p] = cycle
                   THEN [pushedIn EXCEPT ![cycle] = Append(@, Val(p, pk[p]))]
                   ELSE pushedIn      \* a straddling push belongs to no cycle (dirty is already set)

PClaim(p) ==
  /\ ppc[p] = "claim"
  /\ LET s == pside[p] idx == count[s] IN
     /\ count' = [count EXCEPT ![s] = idx + 1]
     /\ pidx' = [pidx EXCEPT ![p] = idx]
     /\ IF idx < Cap
          THEN /\ ppc' = [ppc EXCEPT ![p] = "store"] /\ ptgt' = [ptgt EXCEPT ![p] = idx]
               /\ UNCHANGED <<pk, pushedIn, panicked>>
          ELSE IF Upper(idx) = 0
                 THEN \* rng.random_range(0..0) panics ("cannot sample empty range")
                      /\ panicked' = TRUE /\ ppc' = [ppc EXCEPT ![p] = "panicked"]
                      /\ UNCHANGED <<ptgt, pk, pushedIn>>
                 ELSE /\ ppc' = [ppc EXCEPT ![p] = "draw"] /\ UNCHANGED <<ptgt, pk, pushedIn, panicked>>
  /\ UNCHANGED <<usePrimary, values, pside, cpc, cside, ulen, clen, ci, yielded, consumes, cycle, pcycle, dirty, drains>>

\* r is the value returned by fastrand(Upper(idx)); internal to the thread (no shared access)
PDraw(p, r) ==
  /\ ppc[p] = "draw" /\ r \in 0..(Upper(pidx[p]) - 1)
  /\ IF r < Cap
       THEN /\ ppc' = [ppc EXCEPT ![p] = "store"] /\ ptgt' = [ptgt EXCEPT ![p] = r] /\ UNCHANGED <<pk, pushedIn>>
       ELSE /\ ppc' = [ppc EXCEPT ![p] = "side"] /\ FinishPush(p) /\ UNCHANGED ptgt
  /\ UNCHANGED <<usePrimary, count, values, pside, pidx, cpc, cside, ulen, clen, ci, yielded, consumes,
                 cycle, pcycle, dirty, drains, panicked>>

PStore(p) ==
  /\ ppc[p] = "store"
  /\ values' = [values EXCEPT ![pside[p]][ptgt[p]] = Val(p, pk[p])]
  /\ ppc' = [ppc EXCEPT ![p] = "side"]
  /\ FinishPush(p)
  /\ UNCHANGED <<usePrimary, count, pside, pidx, ptgt, cpc, cside, ulen, clen, ci, yielded, consumes,
                 cycle, pcycle, dirty, drains, panicked>>

-----------------------------------------------------------------------------
CSwap ==
  /\ cpc = "swap" /\ consumes < NConsumes
  /\ cside' = usePrimary
  /\ usePrimary' = 1 - usePrimary
  /\ cycle' = cycle + 1
  /\ dirty' = (dirty \/ \E p \in Pushers : ppc[p] \in {"claim", "draw", "store"})
  /\ cpc' = "count"
  /\ UNCHANGED <<count, values, ppc, pside, pidx, ptgt, pk, ulen, clen, ci, yielded, consumes,
                 pcycle, pushedIn, drains, panicked>>

CCount ==
  /\ cpc = "count"
  /\ ulen' = count[cside] /\ clen' = Min(count[cside], Cap) /\ ci' = 0 /\ yielded' = <<>>
  /\ cpc' = IF Min(count[cside], Cap) = 0 THEN "reset" ELSE "read"
  /\ UNCHANGED <<usePrimary, count, values, ppc, pside, pidx, ptgt, pk, cside, consumes,
                 cycle, pcycle, pushedIn, dirty, drains, panicked>>

CRead ==
  /\ cpc = "read"
  /\ yielded' = Append(yielded, values[cside][ci])
  /\ ci' = ci + 1
  /\ cpc' = IF ci + 1 < clen THEN "read" ELSE "reset"
  /\ UNCHANGED <<usePrimary, count, values, ppc, pside, pidx, ptgt, pk, cside, ulen, clen, consumes,
                 cycle, pcycle, pushedIn, dirty, drains, panicked>>

CReset ==
  /\ cpc = "reset"
  /\ count' = [count EXCEPT ![cside] = 0]
  /\ drains' = Append(drains, [cycle |-> cycle - 1, vals |-> yielded, ulen |-> ulen, len |-> clen, dirty |-> dirty])
  /\ consumes' = consumes + 1
  /\ cpc' = "swap"
  /\ UNCHANGED <<usePrimary, values, ppc, pside, pidx, ptgt, pk, cside, ulen, clen, ci, yielded,
                 cycle, pcycle, pushedIn, dirty, panicked>>

Next == \/ \E p \in Pushers : PSide(p) \/ PClaim(p) \/ PStore(p) \/ (\E r \in 0..(NVals * Cardinality(Pushers) + 1) : PDraw(p, r))
        \/ CSwap \/ CCount \/ CRead \/ CReset
Spec == Init /\ [][Next]_vars

-----------------------------------------------------------------------------
(* Properties                                                              *)
Range(s) == {s[i] : i \in DOMAIN s}
BagOf(s) == [v \in Range(s) |-> Cardinality({i \in DOMAIN s : s[i] = v})]
SubBag(a, b) == \A v \in DOMAIN a : v \in DOMAIN b /\ a[v] <= b[v]

\* one finished drain is exact w.r.t. the pushes of its cycle
DrainExact(d) ==
  LET P == pushedIn[d.cycle] IN
  /\ d.ulen = Len(P)                              \* the count behind sample_rate() = values pushed since the previous drain
  /\ d.len = Min(Len(P), Cap) /\ Len(d.vals) = d.len
  /\ SubBag(BagOf(d.vals), BagOf(P))              \* only values pushed since the previous drain
  /\ (Len(P) <= Cap => BagOf(d.vals) = BagOf(P))  \* all of them when no more than capacity were pushed

NeverMoreThanCap == \A i \in DOMAIN drains : Len(drains[i].vals) <= Cap /\ drains[i].len <= Cap
\* exact unless a push straddled a swap before that drain finished (CF16c)
DrainsExact == \A i \in DOMAIN drains : drains[i].dirty \/ DrainExact(drains[i])
StrictDrainsExact == \A i \in DOMAIN drains : DrainExact(drains[i])
NoPanic == ~panicked
TypeOK == usePrimary \in Sides /\ \A s \in Sides : count[s] \in Nat
=============================================================================
