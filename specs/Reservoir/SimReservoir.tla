---------------------------- MODULE SimReservoir ----------------------------
EXTENDS Reservoir, Json
VARIABLE sched
Consumer == 9
SimInit == Init /\ sched = <<>>
SimNext == \/ \E p \in Pushers : \/ (PSide(p) \/ PClaim(p) \/ PStore(p)) /\ sched' = Append(sched, <<p, ppc[p]>>)
                                 \/ (\E r \in 0..(NVals * Cardinality(Pushers) + 1) : PDraw(p, r)) /\ UNCHANGED sched
           \/ (CSwap \/ CCount \/ CRead \/ CReset) /\ sched' = Append(sched, <<Consumer, cpc>>)
SimSpec == SimInit /\ [][SimNext]_<<vars, sched>>
Done == (\A p \in Pushers : pk[p] > NVals /\ ppc[p] = "side") /\ consumes = NConsumes /\ cpc = "swap"
Emit == Done => PrintT(<<"REPLAY", ToJson([cap |-> Cap, nvals |-> [p \in Pushers |-> NVals], consumes |-> NConsumes, sched |-> sched])>>)
=============================================================================
