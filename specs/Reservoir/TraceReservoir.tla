--------------------------- MODULE TraceReservoir ---------------------------
EXTENDS Reservoir, Json, IOUtils, TLCExt
VARIABLE l
Rec == ndJsonDeserialize(IOEnv.TRACE)
tvars == <<vars, l>>
Ev == Rec[l].ev
P == Rec[l].p
A == Rec[l].a
Step == l' = l + 1
Obs(cond) == cond /\ Step /\ UNCHANGED vars
Known(tag, what) == PrintT(<<"KNOWN", tag, what>>)

Reset ==
  /\ usePrimary' = 1
  /\ count' = [s \in Sides |-> 0]
  /\ values' = [s \in Sides |-> [j \in 0..(Cap-1) |-> 0]]
  /\ ppc' = [p \in Pushers |-> "side"] /\ pside' = [p \in Pushers |-> 1]
  /\ pidx' = [p \in Pushers |-> 0] /\ ptgt' = [p \in Pushers |-> 0] /\ pk' = [p \in Pushers |-> 1]
  /\ cpc' = "swap" /\ cside' = 1 /\ ulen' = 0 /\ clen' = 0 /\ ci' = 0 /\ yielded' = <<>>
  /\ consumes' = 0
  /\ cycle' = 0 /\ pcycle' = [p \in Pushers |-> 0]
  /\ pushedIn' = [c \in 0..MaxCycle |-> <<>>]
  /\ dirty' = FALSE /\ drains' = <<>> /\ panicked' = FALSE

\* sample_rate() in millionths, rounded half up (the harness logs round(rate * 1e6))
RateMicro(len, ul) == IF ul = len THEN 1000000 ELSE (2 * len * 1000000 + ul) \div (2 * ul)

TraceNext ==
  /\ l <= Len(Rec)
  /\ CASE Ev = "reset"           -> A[1] = Cap /\ Reset /\ Step
       [] Ev = "start.pre"       -> Obs(TRUE)
       [] Ev = "res.side.pre"    -> PSide(P) /\ Step
       [] Ev = "res.side.post"   -> Obs(pside[P] = A[1])
       [] Ev = "res.claim.pre"   -> PClaim(P) /\ Step
       [] Ev = "res.claim.post"  -> Obs(pidx[P] = A[1] /\ A[2] = Cap)
       [] Ev = "res.rand.post"   -> Obs(ppc[P] = "draw" /\ A[1] = Upper(pidx[P]))   \* the draw range is the spec's
       [] Ev = "res.draw.post"   -> PDraw(P, A[1]) /\ Step
       [] Ev = "res.store.pre"   -> ptgt[P] = A[1] /\ PStore(P) /\ Step
       [] Ev = "push.done.post"  -> Obs(ppc[P] = "side" /\ A[1] = Val(P, pk[P] - 1))
       [] Ev = "res.swap.pre"    -> CSwap /\ Step
       [] Ev = "res.swap.post"   -> Obs(cside = A[1])
       [] Ev = "res.count.pre"   -> CCount /\ Step
       [] Ev = "res.read.pre"    -> ci = A[1] /\ CRead /\ Step
       [] Ev = "drain.post"      -> Obs(cpc = "reset" /\ Tail(A) = yielded /\ A[1] = RateMicro(clen, ulen))
       [] Ev = "res.reset.pre"   -> ulen = A[1] /\ clen = A[2] /\ CReset /\ Step
       [] Ev = "consume.done.post" -> Obs(cpc = "swap"
                                          /\ (IF DrainExact(drains[Len(drains)]) THEN TRUE ELSE Known("CF16c", Len(drains))))
       \* overlapping consume() calls (two consumer threads): the call returned - the other caller may already be inside
       [] Ev = "consume.ret.post" -> Obs(TRUE)
       \* ... at the end: every drain was exact and together they yielded every value pushed (never more than Cap per cycle)
       [] Ev = "overlap.final"   -> Obs(/\ cpc = "swap" /\ consumes = A[2] /\ ~dirty /\ StrictDrainsExact
                                        /\ LET S == UNION {Range(drains[i].vals) : i \in DOMAIN drains} IN Cardinality(S) = A[1])
       \* a push from a thread-local destructor at thread exit after A[2] ordinary pushes: it did not panic, the thread ended
       \* normally, and the next drain counts A[2] + 1 pushes
       [] Ev = "tls"             -> Obs(/\ A[1] = Cap /\ A[3] = 0 /\ A[4] = 1
                                        /\ A[5] = Min(A[2] + 1, Cap) /\ A[6] = RateMicro(Min(A[2] + 1, Cap), A[2] + 1))
       \* real-parallel hammer run: no push panicked, and every overflowing push drew from the range its own index prescribes
       [] Ev = "hammer"          -> Obs(/\ A[2] = 0
                                        /\ Rec[l].bad = <<>>
                                        /\ \A i \in DOMAIN Rec[l].good : Rec[l].good[i][2] = Upper(Rec[l].good[i][1]))
       [] Ev = "final"           -> Obs(TRUE)
       [] OTHER -> FALSE         \* panic / livelock / stuck / unknown site

TraceInit == Init /\ l = 1
TraceSpec == TraceInit /\ [][TraceNext]_tvars
TraceAccepted ==
  LET d == TLCGet("stats").diameter IN
  IF d - 1 = Len(Rec) THEN TRUE
  ELSE Print(<<"TRACE REJECTED at line", d, Rec[d]>>, FALSE)
=============================================================================
