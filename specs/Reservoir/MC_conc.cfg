SPECIFICATION Spec
CONSTANTS
 Cap = 2
 Pushers = {1,2}
 NVals = 2
 NConsumes = 3
 DrawInclusive = TRUE
INVARIANTS TypeOK NeverMoreThanCap DrainsExact NoPanic
CHECK_DEADLOCK FALSE
