------------------------------- MODULE ResDist -------------------------------
(***************************************************************************)
(* Exact retention distribution of the sampling rule of Reservoir.tla:     *)
(* stream position i (0-based) goes to slot i while i < cap; afterwards a  *)
(* draw r uniform in 0..Upper(i)-1 is made and slot r is replaced when     *)
(* r < cap.  Every draw sequence of the same length has the same           *)
(* probability (the number of choices at step i does not depend on the     *)
(* history), so P(position kept) = #sequences keeping it / #sequences.     *)
(* The ASSUMEs are evaluated by TLC over ALL draw sequences.               *)
(***************************************************************************)
EXTENDS Naturals, FiniteSets, Sequences, TLC
CONSTANTS MaxCap, MaxN

UpperOf(incl, i) == IF incl THEN i + 1 ELSE i

\* all draw sequences for positions cap..n-1
Draws(incl, cap, n) == {f \in [cap..(n-1) -> 0..(n-1)] : \A i \in cap..(n-1) : f[i] < UpperOf(incl, i)}

RECURSIVE SlotsAfter(_, _, _, _)
\* slots (function 0..cap-1 -> stream position) after processing positions < m
SlotsAfter(f, cap, n, m) ==
  IF m <= cap THEN [j \in 0..(cap-1) |-> j]
  ELSE LET prev == SlotsAfter(f, cap, n, m - 1)
           i == m - 1
       IN IF f[i] < cap THEN [prev EXCEPT ![f[i]] = i] ELSE prev

Kept(f, cap, n) == {SlotsAfter(f, cap, n, n)[j] : j \in 0..(cap-1)}

\* number of draw sequences after which `pos` is still in the reservoir
KeepCount(incl, cap, n, pos) == Cardinality({f \in Draws(incl, cap, n) : pos \in Kept(f, cap, n)})
Total(incl, cap, n) == Cardinality(Draws(incl, cap, n))

\* uniform: P(pos kept) = cap / n   <=>   KeepCount * n = cap * Total
Uniform(incl, cap, n) == \A pos \in 0..(n-1) : KeepCount(incl, cap, n, pos) * n = cap * Total(incl, cap, n)

Scope == {<<c, n>> \in (1..MaxCap) \X (1..MaxN) : n > c}

\* Algorithm R (inclusive range) is uniform for every capacity and stream length of the scope
ASSUME InclusiveIsUniform == \A s \in Scope : Uniform(TRUE, s[1], s[2])
\* the exclusive range (as originally coded) is not: the first overflow item always replaces
ASSUME ExclusiveIsBiased == \A s \in Scope : ~Uniform(FALSE, s[1], s[2])
\* and has an empty range for capacity 0 (panic)
ASSUME ExclusiveEmptyAtZero == UpperOf(FALSE, 0) = 0 /\ UpperOf(TRUE, 0) = 1

VARIABLE x
Init == x = PrintT(<<"RESDIST", [scope |-> Cardinality(Scope),
                                 sequences |-> Total(TRUE, MaxCap, MaxN)]>>)
Next == UNCHANGED x
Spec == Init /\ [][Next]_x
=============================================================================
