--------------------------- MODULE TraceOnceCell ---------------------------
(* A recorded run of the real RecorderOnceCell (fresh cell, or the real global *)
(* recorder in a child process) must be a behaviour of OnceCell.tla.           *)
EXTENDS OnceCell, Json, IOUtils, TLCExt, Sequences
VARIABLE l
Rec == ndJsonDeserialize(IOEnv.TRACE)
tvars == <<vars, l>>
Ev == Rec[l].ev
P == Rec[l].p
A == Rec[l].a
Step == l' = l + 1
Obs(cond) == cond /\ Step /\ UNCHANGED vars

Reset ==
  /\ state' = UNINIT /\ slot' = Noop
  /\ ipc' = [i \in Installers |-> "cas"] /\ ires' = [i \in Installers |-> "none"]
  /\ owner' = [i \in Installers |-> "caller"]
  /\ epc' = [e \in Emitters |-> "load"] /\ ld' = [e \in Emitters |-> 0]
  /\ tgt' = [e \in Emitters |-> Noop] /\ cnt' = [e \in Emitters |-> 0]
  /\ seenR' = Noop /\ startSeen' = [e \in Emitters |-> Noop] /\ stable' = TRUE

\* real-parallel trial: facts that hold for every schedule
FreeOK(r) ==
  LET E == r.emits
      T(i) == E[i][3]
  IN /\ Len(r.oks) = 1                          \* exactly one installation succeeded
     /\ r.losers_back /\ r.lib_drops = 0        \* every loser got its own, whole recorder back; none dropped
     /\ r.last = r.oks[1]                       \* afterwards emissions reach the winner
     /\ \A i \in DOMAIN E : T(i) \in {0, r.oks[1]}
     /\ \A i, j \in DOMAIN E : (E[i][2] < E[j][1] /\ T(i) # 0) => T(j) = T(i)   \* Stable (real-time order by tickets)
     \* each emitter's long tail, run-length encoded <<target, count>>: no-op first, then the winner, never back
     /\ \A t \in DOMAIN r.tails :
           LET R == r.tails[t] IN
           /\ Len(R) <= 2
           /\ \A k \in DOMAIN R : R[k][1] \in {0, r.oks[1]}
           /\ (Len(R) = 2 => (R[1][1] = 0 /\ R[2][1] = r.oks[1]))

TraceNext ==
  /\ l <= Len(Rec)
  /\ CASE Ev = "reset"            -> Reset /\ Step
       [] Ev = "start.pre"        -> Obs(TRUE)
       [] Ev = "cell.cas.pre"     -> ICas(P) /\ Step
       [] Ev = "cell.write.pre"   -> IWrite(P) /\ Step
       [] Ev = "cell.publish.pre" -> IPublish(P) /\ Step
       [] Ev = "set.done.post"    -> Obs(/\ ipc[P] = "done" /\ A[1] = P
                                         /\ IF A[2] = 1 THEN ires[P] = "ok"
                                            ELSE ires[P] = "err" /\ A[3] = P /\ A[4] = 1 /\ owner[P] = "returned")
       [] Ev = "own.drop.post"    -> CallerDrop(A[1]) /\ Step
       [] Ev = "probe.drop.post"  -> Dropped(A[1]) /\ Step   \* enabled only for a drop the caller announced
       [] Ev = "cell.load.pre"    -> ELoad(P) /\ Step
       [] Ev = "cell.read.pre"    -> ERead(P) /\ Step
       [] Ev = "probe.dispatch.post" -> tgt[P] = A[1] /\ A[2] = 1 /\ EDispatch(P) /\ Step
       \* the k-th emission of this thread returned: it went through the cell (k dispatches counted), whatever local
       \* scopes the thread had before
       [] Ev = "emit.done.post"   -> IF epc[P] = "disp" THEN tgt[P] = Noop /\ EDispatch(P) /\ (Len(A) = 0 \/ cnt'[P] = A[1]) /\ Step
                                     ELSE Obs(epc[P] = "load" /\ (Len(A) = 0 \/ cnt[P] = A[1]))
       \* a thread-local recorder scope on an emitter thread: its emissions reach the local recorder and never the cell
       [] Ev \in {"scope.enter.pre", "scope.inner.pre", "scope.exit.pre"} -> Obs(epc[P] = "load" /\ cnt[P] = 0)
       [] Ev = "local.dispatch.post" -> Obs(A[1] = P /\ epc[P] = "load" /\ cnt[P] = 0)
       [] Ev = "final"            -> Obs(/\ \A i \in Installers : ipc[i] \in {"cas", "done"}
                                         /\ \A e \in Emitters : epc[e] = "load")
       \* after the run, a fresh thread emitted once in the ordinary way and once from a thread-local destructor while exiting:
       \* with a recorder installed both reached it (nothing is ever dispatched elsewhere once the cell is initialised)
       [] Ev = "tls.exit"         -> Obs(state = INITED => (A[1] = slot /\ A[2] = 2))
       [] Ev = "free"             -> Obs(FreeOK(Rec[l]))
       [] OTHER -> FALSE          \* livelock / stuck / crash / panic / unknown site

TraceInit == Init /\ l = 1
TraceSpec == TraceInit /\ [][TraceNext]_tvars
TraceAccepted ==
  LET d == TLCGet("stats").diameter IN
  IF d - 1 = Len(Rec) THEN TRUE
  ELSE Print(<<"TRACE REJECTED at line", d, Rec[d]>>, FALSE)
=============================================================================
