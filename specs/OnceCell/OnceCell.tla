------------------------------ MODULE OnceCell ------------------------------
(***************************************************************************)
(* metrics/src/recorder/cell.rs (RecorderOnceCell) and the global branch   *)
(* of with_recorder (recorder/mod.rs), one action per atomic step.         *)
(*                                                                         *)
(* Installer i calls set(recorder i):                                      *)
(*     cas   : state.compare_exchange(UNINITIALIZED, INITIALIZING)         *)
(*     write : slot := Some(leak(recorder))                (winner only)   *)
(*     pub   : state.store(INITIALIZED)                    (winner only)   *)
(* Emitter e runs NEmits emissions:                                        *)
(*     load  : state.load()                                                *)
(*     read  : slot read                                   (only if 2)     *)
(*     disp  : the recorder (or the no-op recorder) is called              *)
(***************************************************************************)
EXTENDS Naturals, FiniteSets, TLC

CONSTANTS Installers,   \* set of recorder ids (installer i installs recorder i), e.g. {1,2,3}
          Emitters,     \* set of emitter ids disjoint from Installers, e.g. {11,12}
          NEmits        \* emissions per emitter

UNINIT == 0
INITING == 1
INITED == 2
Noop == 0

VARIABLES
  state, slot,        \* the cell
  ipc, ires,          \* installer pc, and result: "none" | "ok" | "err"
  owner,              \* recorder -> "caller" | "cell" | "returned" | "dropping" | "dropped"
  epc, ld, tgt, cnt,  \* emitter pc, loaded state, recorder read from the slot, emissions done
  seenR,              \* recorder that has received a dispatch (0: none yet)      [history]
  startSeen,          \* seenR when the emitter's current emission began          [history]
  stable              \* verdict of Stable over finished emissions                 [history]

vars == <<state, slot, ipc, ires, owner, epc, ld, tgt, cnt, seenR, startSeen, stable>>

Init ==
  /\ state = UNINIT /\ slot = Noop
  /\ ipc = [i \in Installers |-> "cas"] /\ ires = [i \in Installers |-> "none"]
  /\ owner = [i \in Installers |-> "caller"]
  /\ epc = [e \in Emitters |-> "load"] /\ ld = [e \in Emitters |-> 0]
  /\ tgt = [e \in Emitters |-> Noop] /\ cnt = [e \in Emitters |-> 0]
  /\ seenR = Noop /\ startSeen = [e \in Emitters |-> Noop] /\ stable = TRUE

ICas(i) ==
  /\ ipc[i] = "cas"
  /\ IF state = UNINIT
       THEN /\ state' = INITING /\ ipc' = [ipc EXCEPT ![i] = "write"]
            /\ owner' = [owner EXCEPT ![i] = "cell"] /\ UNCHANGED ires
       ELSE /\ ipc' = [ipc EXCEPT ![i] = "done"] /\ ires' = [ires EXCEPT ![i] = "err"]
            /\ owner' = [owner EXCEPT ![i] = "returned"]   \* handed back inside SetRecorderError
            /\ UNCHANGED state
  /\ UNCHANGED <<slot, epc, ld, tgt, cnt, seenR, startSeen, stable>>

IWrite(i) ==
  /\ ipc[i] = "write"
  /\ slot' = i
  /\ ipc' = [ipc EXCEPT ![i] = "pub"]
  /\ UNCHANGED <<state, ires, owner, epc, ld, tgt, cnt, seenR, startSeen, stable>>

IPublish(i) ==
  /\ ipc[i] = "pub"
  /\ state' = INITED
  /\ ipc' = [ipc EXCEPT ![i] = "done"] /\ ires' = [ires EXCEPT ![i] = "ok"]
  /\ UNCHANGED <<slot, owner, epc, ld, tgt, cnt, seenR, startSeen, stable>>

\* the caller drops a recorder it got back
CallerDrop(i) ==
  /\ owner[i] = "returned"
  /\ owner' = [owner EXCEPT ![i] = "dropping"]
  /\ UNCHANGED <<state, slot, ipc, ires, epc, ld, tgt, cnt, seenR, startSeen, stable>>
Dropped(i) ==
  /\ owner[i] = "dropping"
  /\ owner' = [owner EXCEPT ![i] = "dropped"]
  /\ UNCHANGED <<state, slot, ipc, ires, epc, ld, tgt, cnt, seenR, startSeen, stable>>

ELoad(e) ==
  /\ epc[e] = "load" /\ cnt[e] < NEmits
  /\ ld' = [ld EXCEPT ![e] = state]
  /\ startSeen' = [startSeen EXCEPT ![e] = seenR]
  /\ IF state = INITED
       THEN epc' = [epc EXCEPT ![e] = "read"] /\ UNCHANGED tgt
       ELSE epc' = [epc EXCEPT ![e] = "disp"] /\ tgt' = [tgt EXCEPT ![e] = Noop]
  /\ UNCHANGED <<state, slot, ipc, ires, owner, cnt, seenR, stable>>

ERead(e) ==
  /\ epc[e] = "read"
  /\ tgt' = [tgt EXCEPT ![e] = slot]
  /\ epc' = [epc EXCEPT ![e] = "disp"]
  /\ UNCHANGED <<state, slot, ipc, ires, owner, ld, cnt, seenR, startSeen, stable>>

\* the emission reaches recorder tgt[e] (0 = no-op recorder)
EDispatch(e) ==
  /\ epc[e] = "disp"
  /\ seenR' = IF tgt[e] # Noop /\ seenR = Noop THEN tgt[e] ELSE seenR
  /\ stable' = (stable /\ (startSeen[e] # Noop => tgt[e] = startSeen[e])
                       /\ (tgt[e] # Noop /\ seenR # Noop => tgt[e] = seenR))
  /\ cnt' = [cnt EXCEPT ![e] = @ + 1]
  /\ epc' = [epc EXCEPT ![e] = "load"]
  /\ UNCHANGED <<state, slot, ipc, ires, owner, ld, tgt, startSeen>>

Next == \/ \E i \in Installers : ICas(i) \/ IWrite(i) \/ IPublish(i) \/ CallerDrop(i) \/ Dropped(i)
        \/ \E e \in Emitters : ELoad(e) \/ ERead(e) \/ EDispatch(e)
Spec == Init /\ [][Next]_vars

-----------------------------------------------------------------------------
AtMostOneOk == Cardinality({i \in Installers : ires[i] = "ok" \/ ipc[i] \in {"write", "pub"}}) <= 1
\* a failed set() hands the recorder back: never kept by the cell, never dropped by the library
LoserGetsItBack == \A i \in Installers : ires[i] = "err" => (owner[i] \in {"returned", "dropping", "dropped"} /\ slot # i)
\* the slot is read only once INITIALIZED was observed, and then it holds the whole recorder
ReadOnlyWhenInitialised == \A e \in Emitters : epc[e] = "read" => (ld[e] = INITED /\ state = INITED /\ slot # Noop)
DispatchTargetInstalled == \A e \in Emitters : (epc[e] = "disp" /\ tgt[e] # Noop) => (tgt[e] = slot /\ ires[tgt[e]] = "ok")
Stable == stable
WinnerKept == \A i \in Installers : ires[i] = "ok" => owner[i] = "cell"
TypeOK == state \in {UNINIT, INITING, INITED} /\ slot \in Installers \cup {Noop}
=============================================================================
