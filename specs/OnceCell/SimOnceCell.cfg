SPECIFICATION SimSpec
CONSTANTS
 Installers = {1,2,3}
 Emitters = {11,12}
 NEmits = 2
INVARIANTS Emit
CHECK_DEADLOCK FALSE
