---------------------------- MODULE SimOnceCell ----------------------------
EXTENDS OnceCell, Json, Sequences
VARIABLE sched
SimInit == Init /\ sched = <<>>
SimNext == \/ \E i \in Installers : \/ (ICas(i) \/ IWrite(i) \/ IPublish(i)) /\ sched' = Append(sched, <<i, ipc[i]>>)
                                    \/ (CallerDrop(i) \/ Dropped(i)) /\ UNCHANGED sched
           \/ \E e \in Emitters : (ELoad(e) \/ ERead(e) \/ EDispatch(e)) /\ sched' = Append(sched, <<e, epc[e]>>)
SimSpec == SimInit /\ [][SimNext]_<<vars, sched>>
Done == (\A i \in Installers : ipc[i] = "done") /\ (\A e \in Emitters : cnt[e] = NEmits /\ epc[e] = "load")
Emit == Done => PrintT(<<"REPLAY", ToJson([ninst |-> Cardinality(Installers), nemit |-> Cardinality(Emitters),
                                             per |-> NEmits, sched |-> sched])>>)
=============================================================================
