SPECIFICATION TraceSpec
CONSTANTS
 Installers = {1,2,3}
 Emitters = {11,12}
 NEmits = 100
INVARIANTS TypeOK AtMostOneOk LoserGetsItBack ReadOnlyWhenInitialised DispatchTargetInstalled Stable WinnerKept
POSTCONDITION TraceAccepted
CHECK_DEADLOCK FALSE
