SPECIFICATION Spec
CONSTANTS
 Installers = {1,2,3}
 Emitters = {11,12}
 NEmits = 2
INVARIANTS TypeOK AtMostOneOk LoserGetsItBack ReadOnlyWhenInitialised DispatchTargetInstalled Stable WinnerKept
CHECK_DEADLOCK FALSE
