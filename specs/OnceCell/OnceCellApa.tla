---------------------------- MODULE OnceCellApa ----------------------------
(***************************************************************************)
(* Unbounded safety argument for OnceCell.tla with Apalache: a typed       *)
(* wrapper (the actions and the invariants are those of OnceCell.tla,      *)
(* brought in by INSTANCE, nothing is copied) plus an inductive invariant  *)
(* IndInv.  Three obligations, run by checks/unbounded_oncecell.py:        *)
(*   (a) Init => IndInv             --init=Init   --inv=IndInv --length=0  *)
(*   (b) IndInv /\ Next => IndInv'  --init=IndInv --inv=IndInv --length=1  *)
(*   (c) IndInv => Safety           --init=IndInv --inv=Safety --length=0  *)
(* for ALL sets Installers, Emitters of integers with at most n elements    *)
(* each (ConstInit<n>: Gen(n) = any set within that size bound)            *)
(* and ALL NEmits >= 0.                                                    *)
(***************************************************************************)
EXTENDS Integers, FiniteSets, Apalache

CONSTANTS
  \* @type: Set(Int);
  Installers,
  \* @type: Set(Int);
  Emitters,
  \* @type: Int;
  NEmits

VARIABLES
  \* @type: Int;
  state,
  \* @type: Int;
  slot,
  \* @type: Int -> Str;
  ipc,
  \* @type: Int -> Str;
  ires,
  \* @type: Int -> Str;
  owner,
  \* @type: Int -> Str;
  epc,
  \* @type: Int -> Int;
  ld,
  \* @type: Int -> Int;
  tgt,
  \* @type: Int -> Int;
  cnt,
  \* @type: Int;
  seenR,
  \* @type: Int -> Int;
  startSeen,
  \* @type: Bool;
  stable

INSTANCE OnceCell

\* any two disjoint finite sets of integers with at most n elements each (Gen(n): any set of that
\* size bound, of any integers); 0 is the no-op recorder; any number of emissions per emitter
CInit(n) ==
  /\ Installers = Gen(n)
  /\ Emitters = Gen(n)
  /\ NEmits = Gen(1)
  /\ NEmits >= 0
  /\ Noop \notin Installers
  /\ Installers \cap Emitters = {}
ConstInit4 == CInit(4)
ConstInit6 == CInit(6)
ConstInit8 == CInit(8)
ConstInit12 == CInit(12)

\* installer i is, or has been, the winner of the CAS
Winner(i) == ipc[i] \in {"write", "pub"} \/ ires[i] = "ok"

TypeInv ==
  /\ state \in {UNINIT, INITING, INITED}
  /\ slot \in Installers \cup {Noop}
  /\ ipc \in [Installers -> {"cas", "write", "pub", "done"}]
  /\ ires \in [Installers -> {"none", "ok", "err"}]
  /\ owner \in [Installers -> {"caller", "cell", "returned", "dropping", "dropped"}]
  /\ epc \in [Emitters -> {"load", "read", "disp"}]
  /\ ld \in [Emitters -> {UNINIT, INITING, INITED}]
  /\ tgt \in [Emitters -> Installers \cup {Noop}]
  /\ cnt \in [Emitters -> Int]
  /\ seenR \in Installers \cup {Noop}
  /\ startSeen \in [Emitters -> Installers \cup {Noop}]
  /\ stable \in BOOLEAN

\* the installer's pc determines its result and who owns its recorder
InstallerInv ==
  \A i \in Installers :
    /\ ipc[i] = "cas" => (ires[i] = "none" /\ owner[i] = "caller")
    /\ ipc[i] \in {"write", "pub"} => (ires[i] = "none" /\ owner[i] = "cell")
    /\ ipc[i] = "done" => ires[i] \in {"ok", "err"}
    /\ ires[i] = "ok" => (ipc[i] = "done" /\ owner[i] = "cell")
    /\ ires[i] = "err" => (ipc[i] = "done" /\ owner[i] \in {"returned", "dropping", "dropped"})

\* the cell's state word determines where the (unique) winner is and what the slot holds
CellInv ==
  /\ \A i, j \in Installers : (Winner(i) /\ Winner(j)) => i = j
  /\ state = UNINIT =>
       (slot = Noop /\ \A i \in Installers : ipc[i] = "cas")
  /\ state = INITING =>
       /\ \E w \in Installers : ipc[w] \in {"write", "pub"}
       /\ \A i \in Installers : ires[i] # "ok"
  /\ state = INITED =>
       (slot # Noop /\ \A i \in Installers : ipc[i] \notin {"write", "pub"})
  /\ \A i \in Installers : ipc[i] = "write" => slot = Noop
  /\ \A i \in Installers : ipc[i] = "pub" => slot = i
  /\ slot # Noop => (ipc[slot] = "pub" \/ ires[slot] = "ok")

\* whatever an emitter (or the history) holds that is not the no-op recorder is the published slot
EmitterInv ==
  /\ \A e \in Emitters :
       /\ ld[e] <= state
       /\ epc[e] = "read" => (ld[e] = INITED /\ state = INITED)
       /\ tgt[e] # Noop => (state = INITED /\ tgt[e] = slot)
       /\ startSeen[e] # Noop => (state = INITED /\ startSeen[e] = slot)
       /\ (epc[e] = "disp" /\ startSeen[e] # Noop) => tgt[e] = startSeen[e]
       /\ cnt[e] >= 0 /\ cnt[e] <= NEmits
       /\ epc[e] \in {"read", "disp"} => cnt[e] < NEmits
  /\ seenR # Noop => (state = INITED /\ seenR = slot)
  /\ stable

IndInv == TypeInv /\ InstallerInv /\ CellInv /\ EmitterInv

\* the invariants checks/c02.py gives to TLC
Safety ==
  /\ TypeOK /\ AtMostOneOk /\ LoserGetsItBack /\ ReadOnlyWhenInitialised
  /\ DispatchTargetInstalled /\ Stable /\ WinnerKept

\* Next plus stuttering: a finished run is not a deadlock
NextS == Next \/ UNCHANGED vars
=============================================================================
