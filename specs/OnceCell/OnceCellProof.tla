--------------------------- MODULE OnceCellProof ---------------------------
(***************************************************************************)
(* TLAPS proof that the inductive invariant IndInv of OnceCellApa.tla (the *)
(* very same definition Apalache checks for bounded set sizes) is          *)
(* inductive and implies the safety invariants of OnceCell.tla, for ANY    *)
(* sets Installers and Emitters (no size bound, not even finiteness) and   *)
(* any NEmits \in Nat:    Spec => []Safety.                                *)
(* Run by checks/unbounded_oncecell.py:                                    *)
(*   tlapm --threads 4 --cleanfp -I <dir with a stub Apalache.tla> OnceCellProof.tla *)
(* (OnceCellApa EXTENDS Apalache for Gen, used only in its ConstInit<n>;   *)
(* tlapm cannot load Apalache's own Apalache.tla, the runner supplies a    *)
(* one-line stub `Gen(n) == CHOOSE x : TRUE` that no proof step uses.)     *)
(***************************************************************************)
EXTENDS OnceCellApa, FiniteSetTheorems, TLAPS

\* what ConstInit<n> of OnceCellApa.tla assumes, minus the size bound (disjointness is not needed)
ASSUME ConstAssump == NEmits \in Nat /\ Noop \notin Installers

LEMMA InitInd == Init => IndInv
  BY ConstAssump DEF Init, IndInv, TypeInv, InstallerInv, CellInv, EmitterInv, Winner, UNINIT, INITING, INITED, Noop

LEMMA StepInd == IndInv /\ [Next]_vars => IndInv'
<1> SUFFICES ASSUME IndInv, [Next]_vars PROVE IndInv'
  OBVIOUS
<1> USE ConstAssump DEF IndInv, TypeInv, InstallerInv, CellInv, EmitterInv, Winner, UNINIT, INITING, INITED, Noop
<1>1. ASSUME NEW i \in Installers, ICas(i) PROVE IndInv'
  BY <1>1 DEF ICas
<1>2. ASSUME NEW i \in Installers, IWrite(i) PROVE IndInv'
  BY <1>2 DEF IWrite
<1>3. ASSUME NEW i \in Installers, IPublish(i) PROVE IndInv'
  BY <1>3 DEF IPublish
<1>4. ASSUME NEW i \in Installers, CallerDrop(i) PROVE IndInv'
  BY <1>4 DEF CallerDrop
<1>5. ASSUME NEW i \in Installers, Dropped(i) PROVE IndInv'
  BY <1>5 DEF Dropped
<1>6. ASSUME NEW e \in Emitters, ELoad(e) PROVE IndInv'
  BY <1>6 DEF ELoad
<1>7. ASSUME NEW e \in Emitters, ERead(e) PROVE IndInv'
  BY <1>7 DEF ERead
<1>8. ASSUME NEW e \in Emitters, EDispatch(e) PROVE IndInv'
  BY <1>8 DEF EDispatch
<1>9. CASE UNCHANGED vars
  BY <1>9 DEF vars
<1> QED
  BY <1>1, <1>2, <1>3, <1>4, <1>5, <1>6, <1>7, <1>8, <1>9 DEF Next

LEMMA IndAtMostOne == IndInv => AtMostOneOk
<1> SUFFICES ASSUME IndInv PROVE AtMostOneOk
  OBVIOUS
<1> DEFINE S == {i \in Installers : ires[i] = "ok" \/ ipc[i] \in {"write", "pub"}}
<1>1. \A i, j \in S : i = j
  BY DEF IndInv, CellInv, Winner
<1>2. CASE S = {}
  BY <1>2, FS_EmptySet DEF AtMostOneOk
<1>3. CASE S # {}
  <2>1. PICK w \in S : TRUE
    BY <1>3
  <2>2. S = {w}
    BY <1>1, <2>1
  <2> QED
    BY <2>2, FS_Singleton DEF AtMostOneOk
<1> QED
  BY <1>2, <1>3

LEMMA IndSafe == IndInv => Safety
<1>1. IndInv => AtMostOneOk
  BY IndAtMostOne
<1>2. IndInv => (TypeOK /\ LoserGetsItBack /\ ReadOnlyWhenInitialised /\ DispatchTargetInstalled /\ Stable /\ WinnerKept)
  BY ConstAssump DEF IndInv, TypeInv, InstallerInv, CellInv, EmitterInv, Winner, UNINIT, INITING, INITED, Noop,
     TypeOK, LoserGetsItBack, ReadOnlyWhenInitialised, DispatchTargetInstalled, Stable, WinnerKept
<1> QED
  BY <1>1, <1>2 DEF Safety

THEOREM Correct == Spec => []Safety
<1>1. Init => IndInv BY InitInd
<1>2. IndInv /\ [Next]_vars => IndInv' BY StepInd
<1>3. IndInv => Safety BY IndSafe
<1> QED BY <1>1, <1>2, <1>3, PTL DEF Spec
=============================================================================
