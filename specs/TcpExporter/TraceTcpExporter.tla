-------------------------- MODULE TraceTcpExporter --------------------------
(* The events of the transport thread (totally ordered: it is single-threaded), *)
(* the harness's own events and the clients' observations must be a behaviour  *)
(* of TcpExporter.tla; every invariant is evaluated in every state.            *)
EXTENDS TcpExporter, Json, IOUtils, TLCExt, SequencesExt
VARIABLE l
Rec == ndJsonDeserialize(IOEnv.TRACE)
xvars == <<vars, l>>
Ev == Rec[l].ev
A == Rec[l].a
Step == l' = l + 1
Obs(cond) == cond /\ Step /\ UNCHANGED vars

Reset ==
  /\ started' = FALSE /\ crashed' = FALSE /\ epc' = "idle" /\ coal' = FALSE
  /\ chan' = <<>> /\ wakePending' = FALSE /\ shouldSend' = FALSE /\ clientCount' = 0 /\ nextEmit' = 1
  /\ backlog' = {} /\ registered' = {}
  /\ q' = [c \in Clients |-> <<>>] /\ wbuf' = [c \in Clients |-> None]
  /\ stream' = [c \in Clients |-> <<>>] /\ sockFree' = [c \in Clients |-> SockCap] /\ peerOpen' = [c \in Clients |-> FALSE]
  /\ pc' = "boot" /\ buffered' = <<>> /\ fanLeft' = {} /\ toRemove' = <<>> /\ dtok' = 0 /\ dphase' = 0 /\ lastDrain' = 0
  /\ tot' = [i \in FrameIds |-> 0]          \* frame lengths are learnt from the first write of each frame
  /\ enq' = [c \in Clients |-> <<>>] /\ drp' = [c \in Clients |-> {}]
  /\ torn' = FALSE /\ lost' = FALSE

\* a write is about to be made with `len` bytes: fixes the frame's length the first time, must agree afterwards
LearnLen(len) ==
  /\ pc = "drive" /\ NextBuf(dtok) # None
  /\ LET b == NextBuf(dtok) IN
     IF tot[b[1]] = 0 THEN b[2] = 0 /\ tot' = [tot EXCEPT ![b[1]] = len]
     ELSE tot[b[1]] - b[2] = len /\ UNCHANGED tot
  /\ UNCHANGED <<epc, coal, started, crashed, chan, wakePending, shouldSend, clientCount, nextEmit, backlog, registered, q, wbuf, stream, sockFree,
                 peerOpen, pc, buffered, fanLeft, toRemove, dtok, dphase, lastDrain, enq, drp, torn, lost>>

\* what a client received, decoded by the harness: <<id, complete>> (id 0: a cut frame at the very end)
ObsIds(fr) == LET s == SelectSeq(fr, LAMBDA f : f[2] = 1) IN [i \in DOMAIN s |-> s[i][1]]
Complete(c) == SelectSeq(stream[c], LAMBDA ch : ch[3] = tot[ch[1]])
CompleteIds(c) == LET s == Complete(c) IN [i \in DOMAIN s |-> s[i][1]]
ClientSaw(r) ==
  LET c == r.a[1] o == ObsIds(r.frames) IN
  \* the safety properties of the whole stream written to this client (streams only grow, so checking them here covers
  \* every earlier state; they are too costly to re-evaluate after each of thousands of events)
  /\ WellFramedSeq(stream[c]) /\ NoDupSeq(stream[c]) /\ OrderedSeq(stream[c])
  /\ ~r.garbled /\ r.intact                                   \* decodable, name / labels / operation intact
  /\ IsPrefix(o, Started(c))                                  \* exactly the frames the transport wrote, in that order
  /\ (r.reader => o = CompleteIds(c))                         \* a reading client got every byte that was written
  /\ (r.reader => drp[c] = {})                                \* and, the emission being paced within the buffer, nothing was discarded for it
  /\ (\A i \in DOMAIN r.frames : r.frames[i][2] = 0 => i = Len(r.frames))
  \* a client that was connected and reading when everything had come to rest (released stallers included): the transport
  \* holds nothing back for it - no queued frame, no rest of a partially written frame - and its stream ends on a whole frame
  /\ (("drained" \in DOMAIN r /\ r.drained /\ c \in registered) =>
        (wbuf[c] = None /\ q[c] = <<>> /\ \A i \in DOMAIN r.frames : r.frames[i][2] = 1))

TraceNext ==
  /\ l <= Len(Rec)
  /\ CASE Ev = "reset"                 -> A[1] = (IF Unbounded THEN -1 ELSE Limit) /\ A[2] = NMeta /\ Reset /\ Step
       [] Ev = "tcp.start.pre"         -> Obs(pc = "boot")
       [] Ev = "tcp.start.post"        -> Start /\ started' = TRUE /\ Step
       [] Ev = "tcp.rx.meta.post"      -> Obs(pc = "rx" /\ registered = {})          \* all metadata is described before any client connects
       [] Ev = "emit"                  -> EmitAny(A[1]) /\ Step
       [] Ev = "client.connect"        -> Connect(A[1]) /\ Step
       [] Ev = "tcp.accept.post"       -> Accept(A[1]) /\ clientCount' = A[2] /\ A[3] = NMeta /\ A[4] = 1 /\ Step
       [] Ev = "tcp.wake.post"         -> WakeAny /\ Step
       [] Ev = "tcp.rx.metric.post"    -> RxMetricId(A[1]) /\ Step
       [] Ev = "tcp.rx.end.post"       -> RxEndAny /\ (Len(A) = 0 \/ A[1] = Len(buffered)) /\ Step
       [] Ev = "tcp.drive.pre"         -> CASE A[2] = 1 -> FanPick(A[1]) /\ Step
                                            [] A[2] = 2 -> Obs(pc = "drive" /\ dtok = A[1] /\ dphase = 2)
                                            [] OTHER    -> Writable(A[1]) /\ Step
       [] Ev = "tcp.idle.post"         -> DriveIdle /\ Step
       [] Ev = "tcp.write.pre"         -> LearnLen(A[1]) /\ Step
       [] Ev = "tcp.write.full.post"   -> DriveWriteO("full", 0) /\ UNCHANGED sockFree /\ Step
       [] Ev = "tcp.write.partial.post"-> DriveWriteO("partial", A[1]) /\ UNCHANGED sockFree /\ Step
                                          /\ LET b == NextBuf(dtok) IN tot[b[1]] - b[2] - A[1] = A[2]
       [] Ev = "tcp.write.block.post"  -> DriveWriteO("block", 0) /\ UNCHANGED sockFree /\ Step
       [] Ev \in {"tcp.write.err.post", "tcp.write.zero.post"} -> DriveWriteO("err", 0) /\ UNCHANGED sockFree /\ Step
       [] Ev = "tcp.fanout.post"       -> Obs(dtok = A[1] /\ dphase = 2 /\ lastDrain = A[2] /\ Len(q[A[1]]) = A[3])
       [] Ev = "tcp.dec.post"          -> Obs(clientCount = A[2] /\ shouldSend = (A[3] = 1))
       [] Ev = "tcp.fanout.done.post"  -> FanDone /\ Step
       [] Ev = "tcp.remove.post"       -> Obs(A[1] \notin registered /\ clientCount <= A[2])
       [] Ev = "client.recv"           -> Obs(ClientSaw(Rec[l]))
       [] Ev = "final"                 -> Obs(pc = "poll" /\ A[2] = 0 /\ CountConsistent /\ QueueConservation   \* no pacing deadline was missed
                                              /\ (A[3] = 1 => chan = <<>>))  \* with a reader connected throughout, nothing stays in the channel
       [] OTHER -> FALSE                \* crash / build_error / unknown

TraceInit == Init /\ l = 1
TraceSpec == TraceInit /\ [][TraceNext]_xvars
TraceAccepted ==
  LET d == TLCGet("stats").diameter IN
  IF d - 1 = Len(Rec) THEN TRUE
  ELSE Print(<<"TRACE REJECTED at line", d, Rec[d].ev, Rec[d].a>>, FALSE)
=============================================================================
