SPECIFICATION Spec
CONSTANTS
 Clients = {2,3}
 Limit = 2
 Unbounded = FALSE
 NEmit = 3
 NMeta = 1
 FrameLen = 2
 SockCap = 3
 FixDoubleDec = TRUE
 FixUnbounded = TRUE
 FixWouldBlock = FALSE
 CoalesceWake = FALSE
INVARIANTS TypeOK Framing NoDuplicateFrame MetadataFirstAndOrder CountConsistent QueueConservation NoTornFrame StartsUp
CHECK_DEADLOCK FALSE
