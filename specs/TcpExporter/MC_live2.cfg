SPECIFICATION FairSpec
CONSTANTS
 Clients = {2,3}
 Limit = 2
 Unbounded = FALSE
 NEmit = 2
 NMeta = 1
 FrameLen = 2
 SockCap = 3
 FixDoubleDec = TRUE
 FixUnbounded = TRUE
 FixWouldBlock = TRUE
 CoalesceWake = FALSE
PROPERTIES Delivery
CHECK_DEADLOCK FALSE
