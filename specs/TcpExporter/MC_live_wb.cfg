SPECIFICATION FairSpec
CONSTANTS
 Clients = {2}
 Limit = 2
 Unbounded = FALSE
 NEmit = 2
 NMeta = 1
 FrameLen = 2
 SockCap = 3
 FixDoubleDec = TRUE
 FixUnbounded = TRUE
 FixWouldBlock = FALSE
 CoalesceWake = FALSE
PROPERTIES Delivery
CHECK_DEADLOCK FALSE
