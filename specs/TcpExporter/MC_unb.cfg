SPECIFICATION Spec
CONSTANTS
 Clients = {2}
 Limit = 2
 Unbounded = TRUE
 NEmit = 2
 NMeta = 1
 FrameLen = 2
 SockCap = 3
 FixDoubleDec = TRUE
 FixUnbounded = FALSE
 FixWouldBlock = TRUE
 CoalesceWake = FALSE
INVARIANTS TypeOK Framing NoDuplicateFrame MetadataFirstAndOrder CountConsistent QueueConservation NoTornFrame StartsUp
CHECK_DEADLOCK FALSE
