----------------------------- MODULE TcpExporter -----------------------------
(***************************************************************************)
(* metrics-exporter-tcp/src/lib.rs: the recorder side (push_metric gate,   *)
(* bounded channel, waker) and the single-threaded transport loop          *)
(* (run_transport / drive_connection), at the granularity of the           *)
(* transport's own steps: receive one event, fan out to one client, one    *)
(* write() call on a client socket, accept, remove.                        *)
(*                                                                         *)
(* Frames are identified by integers: metric frames 1..NEmit (the value of *)
(* the counter increment that produced them), metadata frames by negative  *)
(* numbers. A socket is a byte pipe of capacity SockCap: write() takes     *)
(* min(remaining, free) bytes, or WouldBlock when nothing is free.         *)
(*                                                                         *)
(* FixDoubleDec  : a client found dead during fan-out is un-counted once   *)
(*                 (repaired) / twice (as coded: finding CF11b)            *)
(* FixUnbounded  : buffer_size(None) starts (repaired) / the transport     *)
(*                 thread panics allocating usize::MAX slots (CF11a)       *)
(* FixWouldBlock : on WouldBlock the buffer taken from wbuf / the queue is *)
(*                 put back (repaired) / dropped (as coded: CF11c - the    *)
(*                 rest of a partially written frame is lost: torn frame)  *)
(***************************************************************************)
EXTENDS Naturals, Integers, Sequences, FiniteSets, TLC

CONSTANTS Clients,      \* tokens, e.g. {2, 3}
          Limit,        \* buffer limit (buffer_size), also the channel capacity
          Unbounded,    \* buffer_size(None)
          NEmit,        \* metric frames emitted (ids 1..NEmit, in this order, by one emitter)
          NMeta,        \* metadata entries known before any client connects (frames -1..-NMeta)
          FrameLen,     \* bytes per frame
          SockCap,      \* socket buffer capacity in bytes
          FixDoubleDec, FixUnbounded, FixWouldBlock,
          CoalesceWake  \* witness only: wake-ups coalesced by a flag that the transport re-arms AFTER its receive loop

None == <<>>
MetaFrames == [i \in 1..NMeta |-> 0 - i]
FrameIds == (0 - NMeta)..NEmit
Min(a, b) == IF a < b THEN a ELSE b
Max(a, b) == IF a > b THEN a ELSE b

VARIABLES
  started, crashed,
  chan, wakePending, shouldSend, clientCount,          \* shared between recorder handles and the transport
  nextEmit, epc,                                       \* next metric id; the emitter is between try_send and wake ("pushed")
  coal,                                                \* (CoalesceWake only) the coalescing flag
  backlog, registered,                                 \* connected-not-yet-accepted / registered with the poller
  q, wbuf,                                             \* per client: message queue, rest of a partially written frame <<id, off>>
  stream, sockFree, peerOpen,                          \* per client: bytes put on the wire, free socket buffer space, peer still there
  pc, buffered, fanLeft, toRemove, dtok, dphase, lastDrain, \* the transport's control state
  tot,                                                 \* frame id -> length in bytes (0: not known yet)
  enq, drp,                                            \* [history] per client: every frame ever queued for it / frames discarded as oldest
  torn, lost                                           \* [history] a frame remainder / a whole frame was dropped on WouldBlock (CF11c)

vars == <<epc, coal, started, crashed, chan, wakePending, shouldSend, clientCount, nextEmit, backlog, registered, q, wbuf,
          stream, sockFree, peerOpen, pc, buffered, fanLeft, toRemove, dtok, dphase, lastDrain, tot, enq, drp, torn, lost>>
tvars == <<pc, buffered, fanLeft, toRemove, dtok, dphase, lastDrain>>

Init ==
  /\ started = FALSE /\ crashed = FALSE
  /\ chan = <<>> /\ wakePending = FALSE /\ shouldSend = FALSE /\ clientCount = 0
  /\ nextEmit = 1 /\ epc = "idle" /\ coal = FALSE
  /\ backlog = {} /\ registered = {}
  /\ q = [c \in Clients |-> <<>>] /\ wbuf = [c \in Clients |-> None]
  /\ stream = [c \in Clients |-> <<>>] /\ sockFree = [c \in Clients |-> SockCap] /\ peerOpen = [c \in Clients |-> FALSE]
  /\ pc = "boot" /\ buffered = <<>> /\ fanLeft = {} /\ toRemove = <<>> /\ dtok = 0 /\ dphase = 0 /\ lastDrain = 0
  /\ tot = [i \in FrameIds |-> FrameLen]
  /\ enq = [c \in Clients |-> <<>>] /\ drp = [c \in Clients |-> {}]
  /\ torn = FALSE /\ lost = FALSE

-----------------------------------------------------------------------------
(* the transport thread starts: VecDeque::with_capacity(buffer_limit)      *)
Start ==
  /\ pc = "boot"
  /\ IF Unbounded /\ ~FixUnbounded
       THEN crashed' = TRUE /\ pc' = "dead" /\ UNCHANGED started     \* capacity overflow panic
       ELSE started' = TRUE /\ pc' = "poll" /\ UNCHANGED crashed
  /\ UNCHANGED <<epc, coal, chan, wakePending, shouldSend, clientCount, nextEmit, backlog, registered, q, wbuf, stream, sockFree,
                 peerOpen, buffered, fanLeft, toRemove, dtok, dphase, lastDrain, tot, enq, drp, torn, lost>>

(* recorder handle: push_metric = gate read + try_send, then State::wake - two steps, the transport can run in between *)
EmitPush ==
  /\ epc = "idle" /\ nextEmit <= NEmit
  /\ nextEmit' = nextEmit + 1
  /\ IF shouldSend
       THEN /\ chan' = IF Unbounded \/ Len(chan) < Limit THEN Append(chan, nextEmit) ELSE chan   \* try_send
            /\ epc' = "pushed"
       ELSE UNCHANGED <<chan, epc>>
  /\ UNCHANGED <<coal, wakePending, started, crashed, shouldSend, clientCount, backlog, registered, q, wbuf, stream, sockFree, peerOpen, tvars, tot, enq, drp, torn, lost>>
EmitWake ==
  /\ epc = "pushed" /\ epc' = "idle"
  /\ IF CoalesceWake
       THEN coal' = TRUE /\ wakePending' = (wakePending \/ ~coal)     \* signal only if no wake-up is "still being handled"
       ELSE wakePending' = TRUE /\ UNCHANGED coal                     \* Waker::wake, unconditionally
  /\ UNCHANGED <<chan, nextEmit, started, crashed, shouldSend, clientCount, backlog, registered, q, wbuf, stream, sockFree, peerOpen, tvars, tot, enq, drp, torn, lost>>
Emit == EmitPush \/ EmitWake

(* remote peers                                                            *)
Connect(c) ==
  /\ ~peerOpen[c] /\ c \notin registered /\ c \notin backlog /\ stream[c] = <<>>
  /\ peerOpen' = [peerOpen EXCEPT ![c] = TRUE] /\ backlog' = backlog \cup {c}
  /\ UNCHANGED <<epc, coal, started, crashed, chan, wakePending, shouldSend, clientCount, nextEmit, registered, q, wbuf, stream, sockFree, tvars, tot, enq, drp, torn, lost>>
ClientRead(c, n) ==
  /\ peerOpen[c] /\ n >= 1 /\ sockFree[c] + n <= SockCap
  /\ sockFree' = [sockFree EXCEPT ![c] = @ + n]
  /\ UNCHANGED <<epc, coal, started, crashed, chan, wakePending, shouldSend, clientCount, nextEmit, backlog, registered, q, wbuf, stream, peerOpen, tvars, tot, enq, drp, torn, lost>>
ClientClose(c) ==
  /\ peerOpen[c] /\ c \in registered
  /\ peerOpen' = [peerOpen EXCEPT ![c] = FALSE]
  /\ UNCHANGED <<epc, coal, started, crashed, chan, wakePending, shouldSend, clientCount, nextEmit, backlog, registered, q, wbuf, stream, sockFree, tvars, tot, enq, drp, torn, lost>>

-----------------------------------------------------------------------------
(* transport: event loop                                                   *)
Dec == /\ clientCount' = clientCount - 1
       /\ shouldSend' = IF clientCount = 1 THEN FALSE ELSE shouldSend

\* LISTENER: accept one connection, register, increment_clients, enqueue all known metadata
Accept(c) ==
  /\ pc = "poll" /\ c \in backlog
  /\ backlog' = backlog \ {c} /\ registered' = registered \cup {c}
  /\ clientCount' = clientCount + 1 /\ shouldSend' = TRUE
  /\ q' = [q EXCEPT ![c] = MetaFrames] /\ wbuf' = [wbuf EXCEPT ![c] = None]
  /\ enq' = [enq EXCEPT ![c] = MetaFrames] /\ drp' = [drp EXCEPT ![c] = {}]
  /\ UNCHANGED <<epc, coal, started, crashed, chan, wakePending, nextEmit, stream, sockFree, peerOpen, tvars, tot, torn, lost>>

\* WAKER
WakeBegin ==
  /\ pc = "poll" /\ wakePending
  /\ wakePending' = FALSE /\ pc' = "rx"
  /\ UNCHANGED <<epc, coal, started, crashed, chan, shouldSend, clientCount, nextEmit, backlog, registered, q, wbuf, stream, sockFree, peerOpen,
                 buffered, fanLeft, toRemove, dtok, dphase, lastDrain, tot, enq, drp, torn, lost>>

RxMetric ==
  /\ pc = "rx" /\ (Unbounded \/ Len(buffered) < Limit) /\ chan # <<>>
  /\ buffered' = Append(buffered, Head(chan)) /\ chan' = Tail(chan)
  /\ UNCHANGED <<epc, coal, started, crashed, wakePending, shouldSend, clientCount, nextEmit, backlog, registered, q, wbuf, stream, sockFree, peerOpen,
                 pc, fanLeft, toRemove, dtok, dphase, lastDrain, tot, enq, drp, torn, lost>>

\* the receive loop ends: limit reached (schedules another wake) or channel seen empty ...
RxSawEnd ==
  /\ pc = "rx" /\ (chan = <<>> \/ (~Unbounded /\ Len(buffered) >= Limit))
  /\ pc' = "rxe"
  /\ IF ~Unbounded /\ Len(buffered) >= Limit
       THEN wakePending' = TRUE /\ coal' = (IF CoalesceWake THEN TRUE ELSE coal)
       ELSE UNCHANGED <<wakePending, coal>>
  /\ UNCHANGED <<epc, started, crashed, chan, shouldSend, clientCount, nextEmit, backlog, registered, q, wbuf, stream, sockFree, peerOpen,
                 buffered, fanLeft, toRemove, dtok, dphase, lastDrain, tot, enq, drp, torn, lost>>
\* ... and (hook point tcp.rx.end.post) the transport goes on: fan out what it received, or back to poll
RxEnd ==
  /\ pc = "rxe"
  /\ coal' = (IF CoalesceWake THEN FALSE ELSE coal)          \* the witness re-arms its flag only here
  /\ IF buffered = <<>> THEN pc' = "poll" /\ UNCHANGED <<fanLeft, toRemove>>
     ELSE pc' = "fan" /\ fanLeft' = registered /\ toRemove' = <<>>
  /\ UNCHANGED <<epc, wakePending, started, crashed, chan, shouldSend, clientCount, nextEmit, backlog, registered, q, wbuf, stream, sockFree, peerOpen,
                 buffered, dtok, dphase, lastDrain, tot, enq, drp, torn, lost>>

\* fan-out: pick the next client (HashMap order), drive it first (phase 1)
FanPick(c) ==
  /\ pc = "fan" /\ c \in fanLeft
  /\ pc' = "drive" /\ dtok' = c /\ dphase' = 1
  /\ UNCHANGED <<epc, coal, started, crashed, chan, wakePending, shouldSend, clientCount, nextEmit, backlog, registered, q, wbuf, stream, sockFree,
                 peerOpen, buffered, fanLeft, toRemove, lastDrain, tot, enq, drp, torn, lost>>

\* writable event on a client socket (phase 3)
Writable(c) ==
  /\ pc = "poll" /\ c \in registered
  /\ pc' = "drive" /\ dtok' = c /\ dphase' = 3
  /\ UNCHANGED <<epc, coal, started, crashed, chan, wakePending, shouldSend, clientCount, nextEmit, backlog, registered, q, wbuf, stream, sockFree,
                 peerOpen, buffered, fanLeft, toRemove, lastDrain, tot, enq, drp, torn, lost>>

(* drive_connection: one loop iteration = take a buffer, one write() call  *)
\* what drive_connection takes next: the leftover first, else the head of the queue (offset 0)
NextBuf(c) == IF wbuf[c] # None THEN wbuf[c] ELSE IF q[c] # <<>> THEN <<Head(q[c]), 0>> ELSE None
QAfterTake(c) == IF wbuf[c] = None /\ q[c] # <<>> THEN Tail(q[c]) ELSE q[c]

\* drive_connection returned `done` for the client being driven; qq = its queue at that moment
EndDrive(done, qq) ==
  LET c == dtok IN
  CASE dphase = 1 ->
         IF done
           THEN /\ toRemove' = Append(toRemove, c) /\ fanLeft' = fanLeft \ {c} /\ pc' = "fan"
                /\ (IF FixDoubleDec THEN UNCHANGED <<clientCount, shouldSend>> ELSE Dec)   \* the early decrement (CF11b)
                /\ q' = [q EXCEPT ![c] = qq] /\ UNCHANGED <<registered, dphase, lastDrain, enq, drp>>
           ELSE \* make room by dropping the oldest queued messages, append the batch, drive again (phase 2)
                LET available == IF Unbounded THEN 1000000 ELSE Max(Limit - Len(qq), 0)
                    toDrain == Max(Len(buffered) - available, 0)
                    kept == SubSeq(qq, toDrain + 1, Len(qq))
                    added == IF Unbounded THEN buffered ELSE SubSeq(buffered, 1, Min(Len(buffered), Limit))
                IN /\ q' = [q EXCEPT ![c] = kept \o added] /\ lastDrain' = toDrain
                   /\ enq' = [enq EXCEPT ![c] = @ \o added]
                   /\ drp' = [drp EXCEPT ![c] = @ \cup {qq[i] : i \in 1..toDrain}]
                   /\ dphase' = 2 /\ pc' = "drive"
                   /\ UNCHANGED <<toRemove, clientCount, shouldSend, fanLeft, registered>>
    [] dphase = 2 ->
         /\ IF done THEN /\ toRemove' = Append(toRemove, c)
                         /\ (IF FixDoubleDec THEN UNCHANGED <<clientCount, shouldSend>> ELSE Dec)
                    ELSE UNCHANGED <<toRemove, clientCount, shouldSend>>
         /\ fanLeft' = fanLeft \ {c} /\ pc' = "fan" /\ q' = [q EXCEPT ![c] = qq]
         /\ UNCHANGED <<registered, dphase, lastDrain, enq, drp>>
    [] dphase = 3 ->
         /\ IF done THEN registered' = registered \ {c} /\ Dec ELSE UNCHANGED <<registered, clientCount, shouldSend>>
         /\ pc' = "poll" /\ q' = [q EXCEPT ![c] = qq] /\ UNCHANGED <<toRemove, fanLeft, dphase, lastDrain, enq, drp>>

\* nothing to write: "client write queue drained"
DriveIdle ==
  /\ pc = "drive" /\ NextBuf(dtok) = None
  /\ EndDrive(FALSE, q[dtok])
  /\ UNCHANGED <<epc, coal, started, crashed, chan, wakePending, nextEmit, backlog, wbuf, stream, sockFree, peerOpen, buffered, dtok, tot, torn, lost>>

\* one write() call with outcome o: "full" | "partial" (n bytes) | "block" (WouldBlock) | "err" (error or zero write)
DriveWriteO(o, n) ==
  /\ pc = "drive" /\ NextBuf(dtok) # None
  /\ LET c == dtok
         b == NextBuf(c)
         rem == tot[b[1]] - b[2]
         qq == QAfterTake(c)
     IN CASE o = "full" ->
               /\ stream' = [stream EXCEPT ![c] = Append(@, <<b[1], b[2], b[2] + rem>>)]
               /\ wbuf' = [wbuf EXCEPT ![c] = None] /\ q' = [q EXCEPT ![c] = qq]
               /\ UNCHANGED <<pc, dphase, toRemove, clientCount, shouldSend, fanLeft, registered, lastDrain, enq, drp, torn, lost>>
          [] o = "partial" ->
               /\ n > 0 /\ n < rem
               /\ stream' = [stream EXCEPT ![c] = Append(@, <<b[1], b[2], b[2] + n>>)]
               /\ wbuf' = [wbuf EXCEPT ![c] = <<b[1], b[2] + n>>]
               /\ EndDrive(FALSE, qq) /\ UNCHANGED <<torn, lost>>
          [] o = "block" ->
               /\ IF FixWouldBlock
                    THEN wbuf' = [wbuf EXCEPT ![c] = b] /\ UNCHANGED <<torn, lost>>
                    ELSE /\ wbuf' = [wbuf EXCEPT ![c] = None]                 \* the buffer taken is dropped (CF11c)
                         /\ torn' = (torn \/ b[2] > 0) /\ lost' = (lost \/ b[2] = 0)
               /\ EndDrive(FALSE, qq) /\ UNCHANGED stream
          [] o = "err" ->
               /\ wbuf' = [wbuf EXCEPT ![c] = None] /\ EndDrive(TRUE, qq) /\ UNCHANGED <<stream, torn, lost>>
  /\ UNCHANGED <<epc, coal, started, crashed, chan, wakePending, nextEmit, backlog, peerOpen, buffered, dtok, tot>>

\* the socket decides the outcome: closed peer -> error; no space -> WouldBlock; else min(remaining, free) bytes
DriveWrite ==
  /\ pc = "drive" /\ NextBuf(dtok) # None
  /\ LET c == dtok
         b == NextBuf(c)
         rem == tot[b[1]] - b[2]
     IN IF ~peerOpen[c] THEN DriveWriteO("err", 0) /\ UNCHANGED sockFree
        ELSE IF sockFree[c] = 0 THEN DriveWriteO("block", 0) /\ UNCHANGED sockFree
        ELSE IF sockFree[c] >= rem THEN DriveWriteO("full", rem) /\ sockFree' = [sockFree EXCEPT ![c] = @ - rem]
        ELSE DriveWriteO("partial", sockFree[c]) /\ sockFree' = [sockFree EXCEPT ![c] = 0]

\* the fan-out is over: clear the batch, remove the clients found dead
RECURSIVE RemoveAll(_, _, _)
\* returns <<registered, count>> after processing the removal list
RemoveAll(list, reg, cnt) ==
  IF list = <<>> THEN <<reg, cnt>>
  ELSE IF Head(list) \in reg
         THEN RemoveAll(Tail(list), reg \ {Head(list)}, cnt - 1)
         ELSE RemoveAll(Tail(list), reg, cnt)
FanDone ==
  /\ pc = "fan" /\ fanLeft = {}
  /\ buffered' = <<>>
  /\ LET r == RemoveAll(toRemove, registered, clientCount) IN
     /\ registered' = r[1] /\ clientCount' = r[2]
     \* decrement_clients clears the gate when the count it saw was 1 (with the early double decrement it can skip 1)
     /\ shouldSend' = IF r[2] < clientCount /\ clientCount >= 1 /\ r[2] <= 0 THEN FALSE ELSE shouldSend
  /\ toRemove' = <<>> /\ pc' = "poll"
  /\ UNCHANGED <<epc, coal, started, crashed, chan, wakePending, nextEmit, backlog, q, wbuf, stream, sockFree, peerOpen, fanLeft, dtok, dphase, lastDrain, tot, enq, drp, torn, lost>>

\* Variants used by trace validation only: what the recorder side did is not observable (the gate read and the
\* try_send race with the transport), so an emission may or may not have reached the channel, and a wake-up needs
\* no visible cause.
EmitAny(id) ==
  /\ nextEmit' = id + 1 /\ chan' = Append(chan, id)
  /\ UNCHANGED <<epc, coal, started, crashed, wakePending, shouldSend, clientCount, backlog, registered, q, wbuf, stream, sockFree, peerOpen, tvars, tot, enq, drp, torn, lost>>
WakeAny ==
  /\ pc = "poll" /\ wakePending' = FALSE /\ pc' = "rx"
  /\ UNCHANGED <<epc, coal, started, crashed, chan, shouldSend, clientCount, nextEmit, backlog, registered, q, wbuf, stream, sockFree, peerOpen,
                 buffered, fanLeft, toRemove, dtok, dphase, lastDrain, tot, enq, drp, torn, lost>>
RxMetricId(id) ==
  /\ pc = "rx" /\ (Unbounded \/ Len(buffered) < Limit)
  /\ \E i \in DOMAIN chan : chan[i] = id /\ chan' = SubSeq(chan, i + 1, Len(chan))     \* FIFO: everything before it was not sent
  /\ buffered' = Append(buffered, id)
  /\ UNCHANGED <<epc, coal, started, crashed, wakePending, shouldSend, clientCount, nextEmit, backlog, registered, q, wbuf, stream, sockFree, peerOpen,
                 pc, fanLeft, toRemove, dtok, dphase, lastDrain, tot, enq, drp, torn, lost>>

\* (trace validation) the receive loop ends; whether the channel was empty is not observable
RxEndAny ==
  /\ pc = "rx"
  /\ wakePending' = (wakePending \/ (~Unbounded /\ Len(buffered) >= Limit))
  /\ IF buffered = <<>> THEN pc' = "poll" /\ UNCHANGED <<fanLeft, toRemove>>
     ELSE pc' = "fan" /\ fanLeft' = registered /\ toRemove' = <<>>
  /\ UNCHANGED <<epc, coal, started, crashed, chan, shouldSend, clientCount, nextEmit, backlog, registered, q, wbuf, stream, sockFree, peerOpen,
                 buffered, dtok, dphase, lastDrain, tot, enq, drp, torn, lost>>


Next ==
  \/ Start \/ Emit
  \/ \E c \in Clients : Connect(c) \/ ClientClose(c) \/ Accept(c) \/ FanPick(c) \/ Writable(c) \/ (\E n \in 1..SockCap : ClientRead(c, n))
  \/ WakeBegin \/ RxMetric \/ RxSawEnd \/ RxEnd \/ DriveIdle \/ DriveWrite \/ FanDone
Spec == Init /\ [][Next]_vars
\* liveness: the transport thread keeps running and a connected client keeps reading
TransportStep == Start \/ WakeBegin \/ RxMetric \/ RxSawEnd \/ RxEnd \/ DriveIdle \/ DriveWrite \/ FanDone
                 \/ \E c \in Clients : Accept(c) \/ FanPick(c)
\* (poll reports every ready source: a pending wake-up is handled although other events keep arriving - SF, it is only
\* enabled between two rounds of the loop)
FairSpec == Spec /\ WF_vars(TransportStep) /\ WF_vars(EmitWake) /\ SF_vars(WakeBegin)
                 /\ \A c \in Clients : SF_vars(Writable(c) /\ NextBuf(c) # None) /\ WF_vars(\E n \in 1..SockCap : ClientRead(c, n))

-----------------------------------------------------------------------------
(* Properties                                                              *)
\* A stream is a sequence of chunks <<frame, from, to>> (bytes from+1..to of the frame).
\* Whole frames only: a frame's chunks are contiguous and in order, a new frame starts only after a complete one.
WellFramedSeq(s) ==
  \A i \in DOMAIN s :
     /\ s[i][2] < s[i][3] /\ s[i][3] <= tot[s[i][1]]
     /\ (s[i][2] > 0 => (i > 1 /\ s[i-1][1] = s[i][1] /\ s[i-1][3] = s[i][2]))
     /\ (s[i][2] = 0 /\ i > 1 => s[i-1][3] = tot[s[i-1][1]])
Framing == \A c \in Clients :
  /\ WellFramedSeq(stream[c])
  /\ LET s == stream[c] IN
     (s # <<>> /\ s[Len(s)][3] < tot[s[Len(s)][1]]) =>
        (wbuf[c] = <<s[Len(s)][1], s[Len(s)][3]>> \/ ~peerOpen[c] \/ c \notin registered \/ (pc = "drive" /\ dtok = c))
Starts(s) == SelectSeq(s, LAMBDA ch : ch[2] = 0)
\* (LET values are computed once; written so that long recorded streams stay cheap to check)
NoDupSeq(s) == LET st == Starts(s) IN Cardinality({st[i][1] : i \in DOMAIN st}) = Len(st)
\* metadata known at connect time comes first, metrics keep emission order
\* (stated for neighbours; both conjuncts are transitive, so it is the same as for every pair i < j)
OrderedSeq(s) == LET st == Starts(s) IN \A i \in 1..(Len(st) - 1) :
     LET a == st[i][1] b == st[i+1][1] IN (a > 0 => b > 0) /\ (a > 0 /\ b > 0 => a < b)
NoDuplicateFrame == \A c \in Clients : NoDupSeq(stream[c])
MetadataFirstAndOrder == \A c \in Clients : OrderedSeq(stream[c])
\* between transport steps the gate reflects the set of registered clients
CountConsistent == pc = "poll" => (clientCount = Cardinality(registered) /\ (shouldSend <=> clientCount > 0))
\* everything ever queued for a client is on the wire, still pending, or was explicitly discarded as oldest
Started(c) == LET st == Starts(stream[c]) IN [i \in DOMAIN st |-> st[i][1]]
PendingIds(c) == (IF wbuf[c] # None /\ wbuf[c][2] = 0 THEN <<wbuf[c][1]>> ELSE <<>>) \o q[c]
QueueConservation ==
  \A c \in Clients : (c \in registered /\ pc \in {"poll", "fan", "rx", "rxe"} /\ ~lost
                      /\ ~(\E i \in DOMAIN toRemove : toRemove[i] = c)) =>      \* not already found dead
      SelectSeq(enq[c], LAMBDA id : id \notin drp[c]) = Started(c) \o PendingIds(c)
\* every frame queued for a client that stays connected is eventually on the wire (or was discarded as oldest)
Delivery == \A c \in Clients : \A id \in FrameIds :
   ((\E i \in DOMAIN enq[c] : enq[c][i] = id) /\ c \in registered)
      ~> ((\E i \in DOMAIN Started(c) : Started(c)[i] = id) \/ id \in drp[c] \/ ~peerOpen[c] \/ c \notin registered)
\* (liveness, FairSpec) whatever entered the channel is eventually taken out of it by the transport
ChannelDrains == (chan # <<>>) ~> (chan = <<>>)
\* no lost wake-up: whatever is in the channel while the transport sleeps in poll has a wake-up pending (or its emitter is
\* about to signal one)
NoStrandedMetric == (pc = "poll" /\ chan # <<>> /\ epc = "idle") => wakePending
NoTornFrame == ~torn /\ ~lost
StartsUp == ~crashed
TypeOK == clientCount \in Int /\ pc \in {"boot", "dead", "poll", "rx", "rxe", "fan", "drive"} /\ epc \in {"idle", "pushed"} /\ coal \in BOOLEAN
=============================================================================
