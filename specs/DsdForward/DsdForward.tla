------------------------------ MODULE DsdForward ------------------------------
(***************************************************************************)
(* metrics-exporter-dogstatsd/src/forwarder/sync.rs: ClientState::try_send *)
(* and the per-flush send loop of Forwarder::run.                          *)
(*                                                                         *)
(* The agent socket has a *generation*: every restart of the agent creates *)
(* a new socket; a client connected to an older generation gets an error   *)
(* on its next send (ECONNREFUSED / EPIPE).  try_send(payload):            *)
(*   Disconnected: connect -> Ready (then loops and sends) | Err           *)
(*   Ready:        send ok -> Ok | error -> Disconnected, Err              *)
(* A payload whose try_send fails is dropped (counted), never re-sent.     *)
(***************************************************************************)
EXTENDS Naturals, Sequences, FiniteSets, TLC
CONSTANTS NPayloads, MaxRestarts

VARIABLES cstate,     \* "disc" | "ready"
          connGen,    \* generation the client is connected to
          up, gen,    \* the agent: listening? current socket generation
          nextP,      \* next payload id to send
          delivered,  \* payload ids received by the agent, in order
          sentOk, dropped, restarts,
          upSince     \* [history] payloads attempted since the agent last came (back) up
vars == <<cstate, connGen, up, gen, nextP, delivered, sentOk, dropped, restarts, upSince>>

Init == /\ cstate = "disc" /\ connGen = 0 /\ up = TRUE /\ gen = 1 /\ nextP = 1
        /\ delivered = <<>> /\ sentOk = 0 /\ dropped = 0 /\ restarts = 0 /\ upSince = 0

\* try_send of one payload (the loop inside is folded: at most one connect then one send)
TrySend ==
  /\ nextP <= NPayloads
  /\ LET p == nextP
         \* state after the optional connect
         canConnect == up
         st1 == IF cstate = "disc" THEN (IF canConnect THEN "ready" ELSE "disc") ELSE cstate
         cg1 == IF cstate = "disc" /\ canConnect THEN gen ELSE connGen
         sendOk == st1 = "ready" /\ up /\ cg1 = gen
     IN /\ nextP' = p + 1
        /\ IF cstate = "disc" /\ ~canConnect
             THEN /\ cstate' = "disc" /\ connGen' = connGen /\ dropped' = dropped + 1
                  /\ UNCHANGED <<delivered, sentOk>>
             ELSE IF sendOk
               THEN /\ cstate' = "ready" /\ connGen' = cg1 /\ delivered' = Append(delivered, p) /\ sentOk' = sentOk + 1
                    /\ UNCHANGED dropped
               ELSE /\ cstate' = "disc" /\ connGen' = cg1 /\ dropped' = dropped + 1
                    /\ UNCHANGED <<delivered, sentOk>>
        /\ upSince' = IF up THEN upSince + 1 ELSE 0
  /\ UNCHANGED <<up, gen, restarts>>

AgentDown == /\ up /\ restarts < MaxRestarts /\ up' = FALSE /\ upSince' = 0
             /\ UNCHANGED <<cstate, connGen, gen, nextP, delivered, sentOk, dropped, restarts>>
AgentUp   == /\ ~up /\ up' = TRUE /\ gen' = gen + 1 /\ restarts' = restarts + 1 /\ upSince' = 0
             /\ UNCHANGED <<cstate, connGen, nextP, delivered, sentOk, dropped>>

Next == TrySend \/ AgentDown \/ AgentUp
Spec == Init /\ [][Next]_vars

-----------------------------------------------------------------------------
\* every payload is delivered exactly once or counted as dropped; nothing is duplicated or reordered
Accounting == sentOk + dropped = nextP - 1 /\ Len(delivered) = sentOk
InOrderNoDup == \A i, j \in DOMAIN delivered : i < j => delivered[i] < delivered[j]
\* the forwarder recovers: once the agent is (back) up, at most one payload is lost before sends succeed again
Recovery == (up /\ upSince >= 2) => (delivered # <<>> /\ delivered[Len(delivered)] = nextP - 1)
TypeOK == cstate \in {"disc", "ready"}
=============================================================================
