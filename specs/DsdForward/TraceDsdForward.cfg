SPECIFICATION TraceSpec
CONSTANTS
 NPayloads = 100000
 MaxRestarts = 100000
INVARIANTS TypeOK Accounting InOrderNoDup Recovery
POSTCONDITION TraceAccepted
CHECK_DEADLOCK FALSE
