--------------------------- MODULE TraceDsdForward ---------------------------
(* The real forwarder (real exporter thread, real unix sockets, an agent that  *)
(* goes away and comes back while the forwarder is idle): every send outcome   *)
(* and what the agent finally received must be a behaviour of DsdForward.tla.  *)
(* Payload 2k-1 carries the k-th increment (value 10k), payload 2k the single  *)
(* zero that follows it.                                                       *)
EXTENDS DsdForward, Json, IOUtils, TLCExt
VARIABLE l
Rec == ndJsonDeserialize(IOEnv.TRACE)
xvars == <<vars, l>>
Ev == Rec[l].ev
A == Rec[l].a
Step == l' = l + 1
Obs(cond) == cond /\ Step /\ UNCHANGED vars
Reset == /\ cstate' = "disc" /\ connGen' = 0 /\ up' = TRUE /\ gen' = 1 /\ nextP' = 1
         /\ delivered' = <<>> /\ sentOk' = 0 /\ dropped' = 0 /\ restarts' = 0 /\ upSince' = 0
ValueOf(p) == IF p % 2 = 1 THEN ((p + 1) \div 2) * 10 ELSE 0
TraceNext ==
  /\ l <= Len(Rec)
  /\ CASE Ev = "reset"         -> Reset /\ Step
       [] Ev = "fwd.send.post" -> TrySend /\ (sentOk' = sentOk + 1) = (A[1] = 1) /\ Step
       [] Ev = "agent.down"    -> AgentDown /\ Step
       [] Ev = "agent.up"      -> AgentUp /\ Step
       [] Ev = "agent.got"     -> Obs(/\ ~Rec[l].timed_out /\ Rec[l].extra_attempts = 0
                                      /\ A = [i \in DOMAIN delivered |-> ValueOf(delivered[i])])
       [] OTHER -> FALSE
TraceInit == Init /\ l = 1
TraceSpec == TraceInit /\ [][TraceNext]_xvars
TraceAccepted ==
  LET d == TLCGet("stats").diameter IN
  IF d - 1 = Len(Rec) THEN TRUE
  ELSE Print(<<"TRACE REJECTED at line", d, Rec[d].ev, Rec[d].a>>, FALSE)
=============================================================================
