SPECIFICATION Spec
CONSTANTS
 NPayloads = 6
 MaxRestarts = 2
INVARIANTS TypeOK Accounting InOrderNoDup Recovery
CHECK_DEADLOCK FALSE
