----------------------------- MODULE DsdAggApa -----------------------------
(***************************************************************************)
(* Unbounded safety argument for the COUNTER part of DsdAgg.tla under      *)
(* increment-only traffic.                                                 *)
(*                                                                         *)
(* DsdAgg.tla cannot be given to Apalache through INSTANCE (messages are   *)
(* tuples of different shapes, histograms are sequences of sequences), so  *)
(* this is a typed COPY of its counter part: the variables of              *)
(* AtomicCounter (isAbs, last, cur, upd), the updaters, the flusher and    *)
(* the counter history variables; the actions I1-I3, A1-A4, FBegin, FCur,  *)
(* FLast, FUpd, FHists are copied verbatim with GKeys = HKeys = {} and the *)
(* gauge / histogram / msgs variables deleted; the record-valued uop is    *)
(* split into ukind / ukey / uval (Apalache cannot generate a record set   *)
(* with an Int field).  The binding of the copy to                         *)
(* the original is checked by TLC (MCDsdAggApaRef.tla: every step of       *)
(* MCDsdAgg with an increment-only program is a step of this module).      *)
(*                                                                         *)
(* Environment: any updater may at any time begin increment(v) of any      *)
(* counter key with any v \in Nat (the programs of MCDsdAgg.tla are        *)
(* instances).  absolute() is NOT in the environment: its laws in          *)
(* DsdAgg.tla rest on an assumption about the caller (one thread, non-     *)
(* decreasing values, checks/c10.py) that is a property of the programs,   *)
(* not of this module.                                                     *)
(*                                                                         *)
(* Obligations (checks/unbounded_dsdagg.py):                               *)
(*   (a) Init => IndInv   (b) IndInv /\ Next => IndInv'   (c) IndInv => Safety *)
(* for ALL sets Updaters, CKeys \subseteq 1..n (ConstInit<n>; identities   *)
(* are only compared, so 1..n is every set of that size up to renaming),   *)
(* ALL MaxFlushes >= 0, IdleByDelta = TRUE (the repaired code).            *)
(***************************************************************************)
EXTENDS Integers

CONSTANTS
  \* @type: Set(Int);
  Updaters,
  \* @type: Set(Int);
  CKeys,
  \* @type: Int;
  MaxFlushes,
  \* @type: Bool;
  IdleByDelta

\* increment values the environment may choose (TLC refinement check overrides this with a finite set)
Vals == Nat

VARIABLES
  \* @type: Int -> Bool;
  isAbs,
  \* @type: Int -> Int;
  last,
  \* @type: Int -> Int;
  cur,
  \* @type: Int -> Int;
  upd,
  \* @type: Int -> Str;
  ukind,
  \* @type: Int -> Int;
  ukey,
  \* @type: Int -> Int;
  uval,
  \* @type: Int -> Str;
  upc,
  \* @type: Int -> Bool;
  uold,
  \* @type: Str;
  fpc,
  \* @type: Int;
  fk,
  \* @type: Int;
  fcur,
  \* @type: Int;
  fdelta,
  \* @type: Int;
  fupd,
  \* @type: Set(Int);
  ftodo,
  \* @type: Set(Int);
  idle,
  \* @type: Int;
  flushes,
  \* @type: Int -> Int;
  added,
  \* @type: Int -> Int;
  sentSum,
  \* @type: Int -> Str;
  lastOut,
  \* @type: Int -> Set(Str);
  kinds,
  \* @type: Int -> Int;
  absFirst,
  \* @type: Int -> Int;
  absLast,
  \* @type: Bool;
  okNoOver,
  \* @type: Bool;
  okZeroOnce,
  \* @type: Bool;
  devAbs

shared == <<isAbs, last, cur, upd>>
uvars  == <<ukind, ukey, uval, upc, uold>>
fvars  == <<fpc, fk, fcur, fdelta, fupd, ftodo, idle, flushes>>
hist   == <<added, sentSum, lastOut, kinds, absFirst, absLast, okNoOver, okZeroOnce, devAbs>>
vars   == <<shared, uvars, fvars, hist>>

Init ==
  /\ isAbs = [k \in CKeys |-> FALSE] /\ last = [k \in CKeys |-> 0] /\ cur = [k \in CKeys |-> 0] /\ upd = [k \in CKeys |-> 0]
  /\ ukind = [u \in Updaters |-> "none"] /\ ukey = [u \in Updaters |-> 0] /\ uval = [u \in Updaters |-> 0]   \* NoOp
  /\ upc = [u \in Updaters |-> "idle"] /\ uold = [u \in Updaters |-> FALSE]
  /\ fpc = "idle" /\ fk = 0 /\ fcur = 0 /\ fdelta = 0 /\ fupd = 0 /\ ftodo = {} /\ idle = {} /\ flushes = 0
  /\ added = [k \in CKeys |-> 0] /\ sentSum = [k \in CKeys |-> 0] /\ lastOut = [k \in CKeys |-> "none"]
  /\ kinds = [k \in CKeys |-> {}] /\ absFirst = [k \in CKeys |-> 0] /\ absLast = [k \in CKeys |-> 0]
  /\ okNoOver = TRUE /\ okZeroOnce = TRUE /\ devAbs = FALSE

-----------------------------------------------------------------------------
(* updaters (copied from DsdAgg.tla)                                       *)
FirstPc(kind) == IF kind = "inc" THEN "i1" ELSE "a1"

\* op = [kind |-> opkind, key |-> opkey, val |-> opval]
UBegin(u, opkind, opkey, opval) ==
  /\ upc[u] = "idle"
  /\ ukind' = [ukind EXCEPT ![u] = opkind] /\ ukey' = [ukey EXCEPT ![u] = opkey] /\ uval' = [uval EXCEPT ![u] = opval]
  /\ upc' = [upc EXCEPT ![u] = FirstPc(opkind)]
  /\ kinds' = IF opkind \in {"inc", "abs"} THEN [kinds EXCEPT ![opkey] = @ \cup {opkind}] ELSE kinds
  /\ UNCHANGED <<shared, uold, fvars,
                 added, sentSum, lastOut, absFirst, absLast, okNoOver, okZeroOnce, devAbs>>

Goto(u, pcn) == upc' = [upc EXCEPT ![u] = pcn]
K(u) == ukey[u]
V(u) == uval[u]

\* increment: is_absolute.store(false)
I1(u) == /\ upc[u] = "i1" /\ isAbs' = [isAbs EXCEPT ![K(u)] = FALSE] /\ Goto(u, "i2")
         /\ UNCHANGED <<last, cur, upd, ukind, ukey, uval, uold, fvars, hist>>
\* increment: current.fetch_add(v)
I2(u) == /\ upc[u] = "i2" /\ cur' = [cur EXCEPT ![K(u)] = @ + V(u)] /\ Goto(u, "i3")
         /\ added' = [added EXCEPT ![K(u)] = @ + V(u)]
         /\ UNCHANGED <<isAbs, last, upd, ukind, ukey, uval, uold, fvars,
                        sentSum, lastOut, kinds, absFirst, absLast, okNoOver, okZeroOnce, devAbs>>
\* increment: updates.fetch_add(1)
I3(u) == /\ upc[u] = "i3" /\ upd' = [upd EXCEPT ![K(u)] = @ + 1] /\ Goto(u, "idle")
         /\ UNCHANGED <<isAbs, last, cur, ukind, ukey, uval, uold, fvars, hist>>

\* absolute: is_absolute.swap(true)
A1(u) == /\ upc[u] = "a1" /\ uold' = [uold EXCEPT ![u] = isAbs[K(u)]]
         /\ isAbs' = [isAbs EXCEPT ![K(u)] = TRUE]
         /\ Goto(u, IF isAbs[K(u)] THEN "a3" ELSE "a2")
         /\ UNCHANGED <<last, cur, upd, ukind, ukey, uval, fvars, hist>>
\* absolute (first one): last.store(v)
A2(u) == /\ upc[u] = "a2" /\ last' = [last EXCEPT ![K(u)] = V(u)] /\ Goto(u, "a3")
         /\ devAbs' = (devAbs \/ (fk = K(u) /\ fpc = "c_last"))
         /\ UNCHANGED <<isAbs, cur, upd, ukind, ukey, uval, uold, fvars,
                        added, sentSum, lastOut, kinds, absFirst, absLast, okNoOver, okZeroOnce>>
\* absolute: current.store(v)
A3(u) == /\ upc[u] = "a3" /\ cur' = [cur EXCEPT ![K(u)] = V(u)] /\ Goto(u, "a4")
         /\ absFirst' = [absFirst EXCEPT ![K(u)] = IF @ = 0 THEN V(u) ELSE @]
         /\ absLast' = [absLast EXCEPT ![K(u)] = V(u)]
         /\ UNCHANGED <<isAbs, last, upd, ukind, ukey, uval, uold, fvars,
                        added, sentSum, lastOut, kinds, okNoOver, okZeroOnce, devAbs>>
\* absolute: updates.fetch_add(1)
A4(u) == /\ upc[u] = "a4" /\ upd' = [upd EXCEPT ![K(u)] = @ + 1] /\ Goto(u, "idle")
         /\ UNCHANGED <<isAbs, last, cur, ukind, ukey, uval, uold, fvars, hist>>

UStep(u) == I1(u) \/ I2(u) \/ I3(u) \/ A1(u) \/ A2(u) \/ A3(u) \/ A4(u)

-----------------------------------------------------------------------------
(* State::flush, counters only (copied from DsdAgg.tla with GKeys = HKeys = {}) *)
FirstAbsWindow(k) == \E u \in Updaters : ukind[u] = "abs" /\ ukey[u] = k /\ upc[u] = "a3" /\ ~uold[u]

FBegin ==
  /\ fpc = "idle" /\ flushes < MaxFlushes
  /\ fpc' = (IF CKeys # {} THEN "c_pick" ELSE "h_all")
  /\ ftodo' = (IF CKeys # {} THEN CKeys ELSE {})
  /\ UNCHANGED <<shared, uvars, fk, fcur, fdelta, fupd, idle, flushes, hist>>

\* counter.flush(): current.load
FCur(k) ==
  /\ fpc = "c_pick" /\ k \in ftodo
  /\ fk' = k /\ ftodo' = ftodo \ {k} /\ fcur' = cur[k] /\ fpc' = "c_last"
  /\ devAbs' = (devAbs \/ FirstAbsWindow(k))
  /\ UNCHANGED <<shared, uvars, fdelta, fupd, idle, flushes,
                 added, sentSum, lastOut, kinds, absFirst, absLast, okNoOver, okZeroOnce>>

\* last.swap(current); delta = current - last
FLast ==
  /\ fpc = "c_last"
  /\ fdelta' = fcur - last[fk] /\ last' = [last EXCEPT ![fk] = fcur] /\ fpc' = "c_upd"
  /\ devAbs' = (devAbs \/ FirstAbsWindow(fk))
  /\ UNCHANGED <<isAbs, cur, upd, uvars, fk, fcur, fupd, ftodo, idle, flushes,
                 added, sentSum, lastOut, kinds, absFirst, absLast, okNoOver, okZeroOnce>>

\* updates.swap(0) and State::flush's decision for this counter
FUpd ==
  /\ fpc = "c_upd"
  /\ LET u0 == upd[fk]
         active == IF IdleByDelta THEN fdelta # 0 ELSE u0 # 0
         skip == ~active /\ fk \in idle
     IN /\ fupd' = u0 /\ upd' = [upd EXCEPT ![fk] = 0]
        /\ idle' = IF active THEN idle \ {fk} ELSE idle \cup {fk}
        /\ IF skip
             THEN /\ UNCHANGED <<sentSum, okNoOver>>
                  /\ lastOut' = [lastOut EXCEPT ![fk] = "skip"]
             ELSE /\ sentSum' = [sentSum EXCEPT ![fk] = @ + fdelta]
                  /\ lastOut' = [lastOut EXCEPT ![fk] = IF fdelta = 0 THEN "zero" ELSE "nonzero"]
                  /\ okNoOver' = (okNoOver /\ (devAbs \/ fdelta >= 0)
                                           /\ (kinds[fk] = {"inc"} => sentSum[fk] + fdelta <= added[fk]))
        /\ okZeroOnce' = (okZeroOnce /\ (devAbs \/ IF fdelta = 0 THEN (skip <=> lastOut[fk] \in {"zero", "skip"}) ELSE ~skip))
  /\ fpc' = (IF ftodo = {} THEN "h_all" ELSE "c_pick")
  /\ ftodo' = ftodo
  /\ UNCHANGED <<isAbs, last, cur, uvars, fk, fcur, fdelta, flushes,
                 added, kinds, absFirst, absLast, devAbs>>

\* (no gauges, no histograms) ends the flush
FHists ==
  /\ fpc = "h_all"
  /\ fpc' = "idle" /\ flushes' = flushes + 1
  /\ UNCHANGED <<shared, uvars, fk, fcur, fdelta, fupd, ftodo, idle,
                 added, sentSum, lastOut, kinds, absFirst, absLast, okNoOver, okZeroOnce, devAbs>>

FStep == FBegin \/ (\E k \in CKeys : FCur(k)) \/ FLast \/ FUpd \/ FHists

\* the environment: increment(v) of any counter key, any v
UBeginInc(u) == \E k \in CKeys : \E v \in Vals : UBegin(u, "inc", k, v)

Next == (\E u \in Updaters : UBeginInc(u) \/ UStep(u)) \/ FStep
Spec == Init /\ [][Next]_vars
\* Next plus stuttering: a finished run is not a deadlock
NextS == Next \/ UNCHANGED vars

-----------------------------------------------------------------------------
(* Properties (copied from DsdAgg.tla)                                     *)
MidFlush(k) == fk = k /\ fpc = "c_upd"
MidAbs(k) == \E u \in Updaters : ukind[u] = "abs" /\ ukey[u] = k /\ upc[u] \in {"a2", "a3"}

IncConservation == \A k \in CKeys : (kinds[k] = {"inc"} /\ ~MidFlush(k)) => sentSum[k] + (cur[k] - last[k]) = added[k]
AbsConservation == \A k \in CKeys : (kinds[k] = {"abs"} /\ absFirst[k] # 0 /\ ~MidFlush(k) /\ ~MidAbs(k) /\ ~devAbs)
                                      => sentSum[k] + (cur[k] - last[k]) = absLast[k] - absFirst[k]
NoOvershoot == okNoOver
ZeroOnce == okZeroOnce
TypeOK == fpc \in {"idle", "c_pick", "c_last", "c_upd", "g_pick", "g_upd", "h_all"}

\* the counter invariants checks/c10.py gives to TLC (HistConservation is about the part not modelled here)
Safety == TypeOK /\ IncConservation /\ AbsConservation /\ NoOvershoot /\ ZeroOnce

-----------------------------------------------------------------------------
(* Constants for Apalache                                                  *)
CInit(n) ==
  /\ Updaters \in SUBSET (1..n)
  /\ CKeys \in SUBSET (1..n)
  /\ MaxFlushes \in Nat
  /\ IdleByDelta = TRUE
ConstInit2 == CInit(2)
ConstInit3 == CInit(3)
ConstInit4 == CInit(4)
ConstInit6 == CInit(6)
ConstInit8 == CInit(8)
ConstInit12 == CInit(12)

-----------------------------------------------------------------------------
(* The inductive invariant                                                 *)
TypeInv ==
  /\ isAbs \in [CKeys -> BOOLEAN]
  /\ last \in [CKeys -> Int] /\ cur \in [CKeys -> Int] /\ upd \in [CKeys -> Int]
  /\ ukind \in [Updaters -> {"none", "inc"}] /\ ukey \in [Updaters -> CKeys \cup {0}] /\ uval \in [Updaters -> Int]
  /\ upc \in [Updaters -> {"idle", "i1", "i2", "i3"}]
  /\ uold \in [Updaters -> BOOLEAN]
  /\ fpc \in {"idle", "c_pick", "c_last", "c_upd", "h_all"}
  /\ fk \in CKeys \cup {0}
  /\ fcur \in Int /\ fdelta \in Int /\ fupd \in Int
  /\ ftodo \in SUBSET CKeys /\ idle \in SUBSET CKeys
  /\ flushes \in Int
  /\ added \in [CKeys -> Int] /\ sentSum \in [CKeys -> Int]
  /\ lastOut \in [CKeys -> {"none", "nonzero", "zero", "skip"}]
  /\ kinds \in [CKeys -> SUBSET {"inc"}]
  /\ absFirst \in [CKeys -> {0}] /\ absLast \in [CKeys -> {0}]
  /\ okNoOver \in BOOLEAN /\ okZeroOnce \in BOOLEAN /\ devAbs \in BOOLEAN

\* an updater inside increment() works on a counter key it has registered in `kinds`, with a value >= 0
UpdaterInv ==
  \A u \in Updaters :
    upc[u] # "idle" => (ukind[u] = "inc" /\ ukey[u] \in CKeys /\ uval[u] >= 0 /\ "inc" \in kinds[ukey[u]])

\* the delta the flusher holds between FLast and FUpd for key k
Pending(k) == IF fpc = "c_upd" /\ fk = k THEN fdelta ELSE 0

\* per key: sent + held by the flusher + not yet flushed = added; `current` only grows, `last` trails it
CounterInv ==
  \A k \in CKeys :
    /\ sentSum[k] + Pending(k) + (cur[k] - last[k]) = added[k]
    /\ last[k] <= cur[k] /\ last[k] >= 0 /\ upd[k] >= 0
    /\ ~isAbs[k]
    /\ k \in idle <=> lastOut[k] \in {"zero", "skip"}

FlusherInv ==
  /\ fpc \in {"c_last", "c_upd"} => fk \in CKeys
  /\ fpc = "c_last" => (last[fk] <= fcur /\ fcur <= cur[fk])
  /\ fpc = "c_upd" => fdelta >= 0
  /\ flushes >= 0 /\ flushes <= MaxFlushes
  /\ fpc # "idle" => flushes < MaxFlushes
  /\ fupd >= 0
  /\ okNoOver /\ okZeroOnce /\ ~devAbs

IndInv == TypeInv /\ UpdaterInv /\ CounterInv /\ FlusherInv
=============================================================================
