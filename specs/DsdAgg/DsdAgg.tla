------------------------------- MODULE DsdAgg -------------------------------
(***************************************************************************)
(* metrics-exporter-dogstatsd: client-side aggregation.                    *)
(*   storage.rs  AtomicCounter / AtomicGauge / AtomicHistogram             *)
(*   state.rs    State::flush (idle-counter logic, timestamps)             *)
(* One action per atomic operation of the storage; the decisions State::   *)
(* flush takes on thread-local data are folded into the step that produces *)
(* their input.                                                            *)
(*                                                                         *)
(* u64 arithmetic: values are small, a wrapped delta (current < last) is   *)
(* represented by a negative integer (2^64 - k  ==  -k as i64).            *)
(*                                                                         *)
(* IdleByDelta = TRUE : a counter is idle when the delta to send is 0      *)
(*                      (repaired code)                                    *)
(* IdleByDelta = FALSE: as originally coded, idle when the update count    *)
(*                      swapped out is 0 (finding CF10a: a delta computed  *)
(*                      for an idle counter is dropped)                    *)
(* TsWhenAggressive   : timestamp sent in Aggressive mode (documented;     *)
(*                      repaired code) / FALSE: inverted (finding CF10c)   *)
(***************************************************************************)
EXTENDS Naturals, Integers, Sequences, FiniteSets, TLC

CONSTANTS Updaters, CKeys, GKeys, HKeys, MaxFlushes, IdleByDelta, TsWhenAggressive, Mode

Flusher == 9
NoOp == [kind |-> "none", key |-> 0, val |-> 0]

VARIABLES
  \* shared memory
  isAbs, last, cur, upd,       \* AtomicCounter, per key
  ginner, gupd,                \* AtomicGauge, per key
  hbuf,                        \* raw histogram contents (the bucket is abstract here: see Bucket.tla), per key
  \* updaters
  uop, upc, uold,
  \* flusher
  fpc, fk, fcur, fdelta, fupd, ftodo, idle, flushes, msgs,
  \* history
  added,      \* key -> sum of increments applied to `current`
  sentSum,    \* key -> sum of counter values sent
  lastOut,    \* key -> "none" | "nonzero" | "zero" | "skip": what the previous flush did for the key
  kinds,      \* key -> subset of {"inc","abs"} used on it
  absFirst, absLast,  \* first / latest absolute value stored (0 = none yet)
  hrec, hsent,        \* key -> sequences of recorded / sent histogram values
  okNoOver, okZeroOnce, okGauge, devAbs

shared == <<isAbs, last, cur, upd, ginner, gupd, hbuf>>
uvars  == <<uop, upc, uold>>
fvars  == <<fpc, fk, fcur, fdelta, fupd, ftodo, idle, flushes, msgs>>
hist   == <<added, sentSum, lastOut, kinds, absFirst, absLast, hrec, hsent, okNoOver, okZeroOnce, okGauge, devAbs>>
vars   == <<shared, uvars, fvars, hist>>

Init ==
  /\ isAbs = [k \in CKeys |-> FALSE] /\ last = [k \in CKeys |-> 0] /\ cur = [k \in CKeys |-> 0] /\ upd = [k \in CKeys |-> 0]
  /\ ginner = [g \in GKeys |-> 0] /\ gupd = [g \in GKeys |-> 0]
  /\ hbuf = [h \in HKeys |-> <<>>]
  /\ uop = [u \in Updaters |-> NoOp] /\ upc = [u \in Updaters |-> "idle"] /\ uold = [u \in Updaters |-> FALSE]
  /\ fpc = "idle" /\ fk = 0 /\ fcur = 0 /\ fdelta = 0 /\ fupd = 0 /\ ftodo = {} /\ idle = {} /\ flushes = 0 /\ msgs = <<>>
  /\ added = [k \in CKeys |-> 0] /\ sentSum = [k \in CKeys |-> 0] /\ lastOut = [k \in CKeys |-> "none"]
  /\ kinds = [k \in CKeys |-> {}] /\ absFirst = [k \in CKeys |-> 0] /\ absLast = [k \in CKeys |-> 0]
  /\ hrec = [h \in HKeys |-> <<>>] /\ hsent = [h \in HKeys |-> <<>>]
  /\ okNoOver = TRUE /\ okZeroOnce = TRUE /\ okGauge = TRUE /\ devAbs = FALSE

-----------------------------------------------------------------------------
(* updaters                                                                *)
FirstPc(kind) == CASE kind = "inc" -> "i1" [] kind = "abs" -> "a1" [] kind = "gset" -> "g1"
                   [] kind = "gadd" -> "ga1" [] kind = "hrec" -> "h1"

\* a handle operation begins (the operation comes from the program / the trace)
UBegin(u, op) ==
  /\ upc[u] = "idle"
  /\ uop' = [uop EXCEPT ![u] = op] /\ upc' = [upc EXCEPT ![u] = FirstPc(op.kind)]
  \* which update styles a counter key has seen (the conservation laws are stated for pure keys only)
  /\ kinds' = IF op.kind \in {"inc", "abs"} THEN [kinds EXCEPT ![op.key] = @ \cup {op.kind}] ELSE kinds
  /\ UNCHANGED <<shared, uold, fvars,
                 added, sentSum, lastOut, absFirst, absLast, hrec, hsent, okNoOver, okZeroOnce, okGauge, devAbs>>

Goto(u, pcn) == upc' = [upc EXCEPT ![u] = pcn]
K(u) == uop[u].key
V(u) == uop[u].val

\* increment: is_absolute.store(false)
I1(u) == /\ upc[u] = "i1" /\ isAbs' = [isAbs EXCEPT ![K(u)] = FALSE] /\ Goto(u, "i2")
         /\ UNCHANGED <<last, cur, upd, ginner, gupd, hbuf, uop, uold, fvars, hist>>
\* increment: current.fetch_add(v)
I2(u) == /\ upc[u] = "i2" /\ cur' = [cur EXCEPT ![K(u)] = @ + V(u)] /\ Goto(u, "i3")
         /\ added' = [added EXCEPT ![K(u)] = @ + V(u)]
         /\ UNCHANGED <<isAbs, last, upd, ginner, gupd, hbuf, uop, uold, fvars,
                        sentSum, lastOut, kinds, absFirst, absLast, hrec, hsent, okNoOver, okZeroOnce, okGauge, devAbs>>
\* increment: updates.fetch_add(1)
I3(u) == /\ upc[u] = "i3" /\ upd' = [upd EXCEPT ![K(u)] = @ + 1] /\ Goto(u, "idle")
         /\ UNCHANGED <<isAbs, last, cur, ginner, gupd, hbuf, uop, uold, fvars, hist>>

\* absolute: is_absolute.swap(true)
A1(u) == /\ upc[u] = "a1" /\ uold' = [uold EXCEPT ![u] = isAbs[K(u)]]
         /\ isAbs' = [isAbs EXCEPT ![K(u)] = TRUE]
         /\ Goto(u, IF isAbs[K(u)] THEN "a3" ELSE "a2")
         /\ UNCHANGED <<last, cur, upd, ginner, gupd, hbuf, uop, fvars, hist>>
\* absolute (first one): last.store(v)
A2(u) == /\ upc[u] = "a2" /\ last' = [last EXCEPT ![K(u)] = V(u)] /\ Goto(u, "a3")
         \* CF10b, other half of the window: the flush already loaded `current` of this key and will swap `last` next
         /\ devAbs' = (devAbs \/ (fk = K(u) /\ fpc = "c_last"))
         /\ UNCHANGED <<isAbs, cur, upd, ginner, gupd, hbuf, uop, uold, fvars,
                        added, sentSum, lastOut, kinds, absFirst, absLast, hrec, hsent, okNoOver, okZeroOnce, okGauge>>
\* absolute: current.store(v)
A3(u) == /\ upc[u] = "a3" /\ cur' = [cur EXCEPT ![K(u)] = V(u)] /\ Goto(u, "a4")
         /\ absFirst' = [absFirst EXCEPT ![K(u)] = IF @ = 0 THEN V(u) ELSE @]
         /\ absLast' = [absLast EXCEPT ![K(u)] = V(u)]
         /\ UNCHANGED <<isAbs, last, upd, ginner, gupd, hbuf, uop, uold, fvars,
                        added, sentSum, lastOut, kinds, hrec, hsent, okNoOver, okZeroOnce, okGauge, devAbs>>
\* absolute: updates.fetch_add(1)
A4(u) == /\ upc[u] = "a4" /\ upd' = [upd EXCEPT ![K(u)] = @ + 1] /\ Goto(u, "idle")
         /\ UNCHANGED <<isAbs, last, cur, ginner, gupd, hbuf, uop, uold, fvars, hist>>

\* gauge set: inner.store(v) ; gauge increment/decrement: inner.fetch_update(+d)
G1(u)  == /\ upc[u] = "g1" /\ ginner' = [ginner EXCEPT ![K(u)] = V(u)] /\ Goto(u, "g2")
          /\ UNCHANGED <<isAbs, last, cur, upd, gupd, hbuf, uop, uold, fvars, hist>>
GA1(u) == /\ upc[u] = "ga1" /\ ginner' = [ginner EXCEPT ![K(u)] = @ + V(u)] /\ Goto(u, "g2")
          /\ UNCHANGED <<isAbs, last, cur, upd, gupd, hbuf, uop, uold, fvars, hist>>
G2(u)  == /\ upc[u] = "g2" /\ gupd' = [gupd EXCEPT ![K(u)] = @ + 1] /\ Goto(u, "idle")
          /\ UNCHANGED <<isAbs, last, cur, upd, ginner, hbuf, uop, uold, fvars, hist>>
\* histogram record: the (linearizable) bucket push
H1(u)  == /\ upc[u] = "h1" /\ hbuf' = [hbuf EXCEPT ![K(u)] = Append(@, V(u))] /\ Goto(u, "idle")
          /\ hrec' = [hrec EXCEPT ![K(u)] = Append(@, V(u))]
          /\ UNCHANGED <<isAbs, last, cur, upd, ginner, gupd, uop, uold, fvars,
                         added, sentSum, lastOut, kinds, absFirst, absLast, hsent, okNoOver, okZeroOnce, okGauge, devAbs>>

UStep(u) == I1(u) \/ I2(u) \/ I3(u) \/ A1(u) \/ A2(u) \/ A3(u) \/ A4(u) \/ G1(u) \/ GA1(u) \/ G2(u) \/ H1(u)

-----------------------------------------------------------------------------
(* State::flush                                                            *)
HasTs == IF TsWhenAggressive THEN Mode = "Aggressive" ELSE Mode = "Conservative"

\* CF10b window: some thread is inside the first absolute() of key k: `last` stored, `current` not yet.
\* The deviation is recorded when the flush's current.load .. last.swap interval overlaps that window.
FirstAbsWindow(k) == \E u \in Updaters : uop[u].kind = "abs" /\ uop[u].key = k /\ upc[u] = "a3" /\ ~uold[u]

AfterCounters == IF GKeys # {} THEN "g_pick" ELSE "h_all"
FBegin ==
  /\ fpc = "idle" /\ flushes < MaxFlushes
  /\ fpc' = (IF CKeys # {} THEN "c_pick" ELSE AfterCounters)
  /\ ftodo' = (IF CKeys # {} THEN CKeys ELSE GKeys) /\ msgs' = <<>>
  /\ UNCHANGED <<shared, uvars, fk, fcur, fdelta, fupd, idle, flushes, hist>>

\* counter.flush(): current.load    (the registry's handle list is iterated in arbitrary order)
FCur(k) ==
  /\ fpc = "c_pick" /\ k \in ftodo
  /\ fk' = k /\ ftodo' = ftodo \ {k} /\ fcur' = cur[k] /\ fpc' = "c_last"
  /\ devAbs' = (devAbs \/ FirstAbsWindow(k))
  /\ UNCHANGED <<shared, uvars, fdelta, fupd, idle, flushes, msgs,
                 added, sentSum, lastOut, kinds, absFirst, absLast, hrec, hsent, okNoOver, okZeroOnce, okGauge>>

\* last.swap(current); delta = current - last
FLast ==
  /\ fpc = "c_last"
  /\ fdelta' = fcur - last[fk] /\ last' = [last EXCEPT ![fk] = fcur] /\ fpc' = "c_upd"
  \* CF10b: the flush lands inside the first absolute() of the key (last stored, current not yet)
  /\ devAbs' = (devAbs \/ FirstAbsWindow(fk))
  /\ UNCHANGED <<isAbs, cur, upd, ginner, gupd, hbuf, uvars, fk, fcur, fupd, ftodo, idle, flushes, msgs,
                 added, sentSum, lastOut, kinds, absFirst, absLast, hrec, hsent, okNoOver, okZeroOnce, okGauge>>

\* updates.swap(0) and State::flush's decision for this counter
FUpd ==
  /\ fpc = "c_upd"
  /\ LET u0 == upd[fk]
         active == IF IdleByDelta THEN fdelta # 0 ELSE u0 # 0
         skip == ~active /\ fk \in idle
     IN /\ fupd' = u0 /\ upd' = [upd EXCEPT ![fk] = 0]
        /\ idle' = IF active THEN idle \ {fk} ELSE idle \cup {fk}
        /\ IF skip
             THEN /\ UNCHANGED <<msgs, sentSum, okNoOver>>
                  /\ lastOut' = [lastOut EXCEPT ![fk] = "skip"]
             ELSE /\ msgs' = Append(msgs, <<"c", fk, fdelta, HasTs>>)
                  /\ sentSum' = [sentSum EXCEPT ![fk] = @ + fdelta]
                  /\ lastOut' = [lastOut EXCEPT ![fk] = IF fdelta = 0 THEN "zero" ELSE "nonzero"]
                  \* no single delta exceeds what was added (a negative delta is a wrapped one)
                  /\ okNoOver' = (okNoOver /\ (devAbs \/ fdelta >= 0)
                                           /\ (kinds[fk] = {"inc"} => sentSum[fk] + fdelta <= added[fk]))
        \* a counter that stops changing is sent as zero exactly once, then not again until it changes
        /\ okZeroOnce' = (okZeroOnce /\ (devAbs \/ IF fdelta = 0 THEN (skip <=> lastOut[fk] \in {"zero", "skip"}) ELSE ~skip))
  /\ fpc' = (IF ftodo = {} THEN AfterCounters ELSE "c_pick")
  /\ ftodo' = (IF ftodo = {} THEN GKeys ELSE ftodo)
  /\ UNCHANGED <<isAbs, last, cur, ginner, gupd, hbuf, uvars, fk, fcur, fdelta, flushes,
                 added, kinds, absFirst, absLast, hrec, hsent, okGauge, devAbs>>

\* gauge.flush(): inner.load
FGCur(g) ==
  /\ fpc = "g_pick" /\ g \in ftodo
  /\ fk' = g /\ ftodo' = ftodo \ {g} /\ fcur' = ginner[g] /\ fpc' = "g_upd"
  /\ UNCHANGED <<shared, uvars, fdelta, fupd, idle, flushes, msgs, hist>>

\* updates.swap(0); the gauge's value is sent
FGUpd ==
  /\ fpc = "g_upd"
  /\ gupd' = [gupd EXCEPT ![fk] = 0]
  /\ msgs' = Append(msgs, <<"g", fk, fcur, HasTs>>)
  /\ fpc' = (IF ftodo = {} THEN "h_all" ELSE "g_pick")
  /\ UNCHANGED <<isAbs, last, cur, upd, ginner, hbuf, uvars, fk, fcur, fdelta, fupd, ftodo, idle, flushes, hist>>

\* histograms: for every non-empty one, is_empty() + flush (abstract bucket, see Bucket.tla); ends the flush
HistMsgs(S) == {<<"h", h, hbuf[h], FALSE>> : h \in {x \in S : hbuf[x] # <<>>}}
FHists ==
  /\ fpc = "h_all"
  /\ hbuf' = [h \in HKeys |-> <<>>]
  /\ hsent' = [h \in HKeys |-> hsent[h] \o hbuf[h]]
  /\ fpc' = "idle" /\ flushes' = flushes + 1
  /\ UNCHANGED <<isAbs, last, cur, upd, ginner, gupd, uvars, fk, fcur, fdelta, fupd, ftodo, idle, msgs,
                 added, sentSum, lastOut, kinds, absFirst, absLast, hrec, okNoOver, okZeroOnce, okGauge, devAbs>>

FStep == FBegin \/ (\E k \in CKeys : FCur(k)) \/ FLast \/ FUpd \/ (\E g \in GKeys : FGCur(g)) \/ FGUpd \/ FHists

-----------------------------------------------------------------------------
(* Properties                                                              *)
BagOf(s) == [v \in {s[i] : i \in DOMAIN s} |-> Cardinality({i \in DOMAIN s : s[i] = v})]

MidFlush(k) == fk = k /\ fpc = "c_upd"
MidAbs(k) == \E u \in Updaters : uop[u].kind = "abs" /\ uop[u].key = k /\ upc[u] \in {"a2", "a3"}

\* increments only: what was sent plus the delta not yet flushed is exactly what was added
IncConservation == \A k \in CKeys : (kinds[k] = {"inc"} /\ ~MidFlush(k)) => sentSum[k] + (cur[k] - last[k]) = added[k]
\* absolutes only: deltas add up to last value minus first value
AbsConservation == \A k \in CKeys : (kinds[k] = {"abs"} /\ absFirst[k] # 0 /\ ~MidFlush(k) /\ ~MidAbs(k) /\ ~devAbs)
                                      => sentSum[k] + (cur[k] - last[k]) = absLast[k] - absFirst[k]
NoOvershoot == okNoOver
ZeroOnce == okZeroOnce
\* every histogram value is sent in exactly one flush (or is still pending)
HistConservation == \A h \in HKeys : BagOf(hsent[h] \o hbuf[h]) = BagOf(hrec[h])
\* the strict variants (no allowance for the CF10b window)
StrictNoNegativeDelta == \A i \in DOMAIN msgs : msgs[i][1] = "c" => msgs[i][3] >= 0
TypeOK == fpc \in {"idle", "c_pick", "c_last", "c_upd", "g_pick", "g_upd", "h_all"}
=============================================================================
