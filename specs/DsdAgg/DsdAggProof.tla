---------------------------- MODULE DsdAggProof ----------------------------
(***************************************************************************)
(* TLAPS proof that the inductive invariant IndInv of DsdAggApa.tla (the   *)
(* very same definition Apalache checks for bounded set sizes) is          *)
(* inductive and implies the counter invariants, for ANY sets Updaters and *)
(* CKeys (no size bound, not even finiteness), any MaxFlushes \in Nat and  *)
(* IdleByDelta = TRUE:    DsdAggApa!Spec => []Safety.                      *)
(* Run by checks/unbounded_dsdagg.py:  tlapm --threads 4 --cleanfp DsdAggProof.tla *)
(***************************************************************************)
EXTENDS DsdAggApa, TLAPS

\* what ConstInit<n> of DsdAggApa.tla assumes, minus the size bound
ASSUME ConstAssump == MaxFlushes \in Nat /\ IdleByDelta = TRUE

LEMMA InitInd == Init => IndInv
  BY ConstAssump DEF Init, IndInv, TypeInv, UpdaterInv, CounterInv, FlusherInv, Pending

LEMMA StepInd == IndInv /\ [Next]_vars => IndInv'
<1> SUFFICES ASSUME IndInv, [Next]_vars PROVE IndInv'
  OBVIOUS
<1> USE ConstAssump
<1>1. ASSUME NEW u \in Updaters, UBeginInc(u) PROVE IndInv'
  <2>1. PICK k \in CKeys, v \in Nat : UBegin(u, "inc", k, v)
    BY <1>1 DEF UBeginInc, Vals
  <2>a. TypeInv'
    BY <2>1 DEF IndInv, TypeInv, UpdaterInv, FlusherInv, K, V, Goto, UBegin, FirstPc, shared, fvars
  <2>b. UpdaterInv'
    BY <2>1 DEF IndInv, TypeInv, UpdaterInv, FlusherInv, K, V, Goto, UBegin, FirstPc, shared, fvars
  <2>c. CounterInv'
    BY <2>1 DEF IndInv, TypeInv, UpdaterInv, CounterInv, FlusherInv, Pending, K, V, Goto, UBegin, FirstPc, shared, fvars
  <2>d. FlusherInv'
    BY <2>1 DEF IndInv, TypeInv, UpdaterInv, CounterInv, FlusherInv, Pending, K, V, Goto, UBegin, FirstPc, shared, fvars
  <2> QED
    BY <2>a, <2>b, <2>c, <2>d DEF IndInv
<1>2. ASSUME NEW u \in Updaters, I1(u) PROVE IndInv'
  <2>a. TypeInv'
    BY <1>2 DEF IndInv, TypeInv, UpdaterInv, FlusherInv, K, V, Goto, I1, fvars, hist
  <2>b. UpdaterInv'
    BY <1>2 DEF IndInv, TypeInv, UpdaterInv, FlusherInv, K, V, Goto, I1, fvars, hist
  <2>c. CounterInv'
    BY <1>2 DEF IndInv, TypeInv, UpdaterInv, CounterInv, FlusherInv, Pending, K, V, Goto, I1, fvars, hist
  <2>d. FlusherInv'
    BY <1>2 DEF IndInv, TypeInv, UpdaterInv, CounterInv, FlusherInv, Pending, K, V, Goto, I1, fvars, hist
  <2> QED
    BY <2>a, <2>b, <2>c, <2>d DEF IndInv
<1>3. ASSUME NEW u \in Updaters, I2(u) PROVE IndInv'
  <2>a. TypeInv'
    BY <1>3 DEF IndInv, TypeInv, UpdaterInv, FlusherInv, K, V, Goto, I2, fvars
  <2>b. UpdaterInv'
    BY <1>3 DEF IndInv, TypeInv, UpdaterInv, FlusherInv, K, V, Goto, I2, fvars
  <2>c. CounterInv'
    BY <1>3 DEF IndInv, TypeInv, UpdaterInv, CounterInv, FlusherInv, Pending, K, V, Goto, I2, fvars
  <2>d. FlusherInv'
    BY <1>3 DEF IndInv, TypeInv, UpdaterInv, CounterInv, FlusherInv, Pending, K, V, Goto, I2, fvars
  <2> QED
    BY <2>a, <2>b, <2>c, <2>d DEF IndInv
<1>4. ASSUME NEW u \in Updaters, I3(u) PROVE IndInv'
  <2>a. TypeInv'
    BY <1>4 DEF IndInv, TypeInv, UpdaterInv, FlusherInv, K, V, Goto, I3, fvars, hist
  <2>b. UpdaterInv'
    BY <1>4 DEF IndInv, TypeInv, UpdaterInv, FlusherInv, K, V, Goto, I3, fvars, hist
  <2>c. CounterInv'
    BY <1>4 DEF IndInv, TypeInv, UpdaterInv, CounterInv, FlusherInv, Pending, K, V, Goto, I3, fvars, hist
  <2>d. FlusherInv'
    BY <1>4 DEF IndInv, TypeInv, UpdaterInv, CounterInv, FlusherInv, Pending, K, V, Goto, I3, fvars, hist
  <2> QED
    BY <2>a, <2>b, <2>c, <2>d DEF IndInv
<1>5. ASSUME NEW u \in Updaters, A1(u) \/ A2(u) \/ A3(u) \/ A4(u) PROVE IndInv'
  BY <1>5 DEF A1, A2, A3, A4, IndInv, TypeInv
<1>6. CASE FBegin
  <2>a. TypeInv'
    BY <1>6 DEF IndInv, TypeInv, UpdaterInv, FlusherInv, K, V, Goto, FBegin, shared, uvars, hist
  <2>b. UpdaterInv'
    BY <1>6 DEF IndInv, TypeInv, UpdaterInv, FlusherInv, K, V, Goto, FBegin, shared, uvars, hist
  <2>c. CounterInv'
    BY <1>6 DEF IndInv, TypeInv, UpdaterInv, CounterInv, FlusherInv, Pending, K, V, Goto, FBegin, shared, uvars, hist
  <2>d. FlusherInv'
    BY <1>6 DEF IndInv, TypeInv, UpdaterInv, CounterInv, FlusherInv, Pending, K, V, Goto, FBegin, shared, uvars, hist
  <2> QED
    BY <2>a, <2>b, <2>c, <2>d DEF IndInv
<1>7. ASSUME NEW k \in CKeys, FCur(k) PROVE IndInv'
  <2>a. TypeInv'
    BY <1>7 DEF IndInv, TypeInv, UpdaterInv, FlusherInv, K, V, Goto, FCur, FirstAbsWindow, shared, uvars
  <2>b. UpdaterInv'
    BY <1>7 DEF IndInv, TypeInv, UpdaterInv, FlusherInv, K, V, Goto, FCur, FirstAbsWindow, shared, uvars
  <2>c. CounterInv'
    BY <1>7 DEF IndInv, TypeInv, UpdaterInv, CounterInv, FlusherInv, Pending, K, V, Goto, FCur, FirstAbsWindow, shared, uvars
  <2>d. FlusherInv'
    BY <1>7 DEF IndInv, TypeInv, UpdaterInv, CounterInv, FlusherInv, Pending, K, V, Goto, FCur, FirstAbsWindow, shared, uvars
  <2> QED
    BY <2>a, <2>b, <2>c, <2>d DEF IndInv
<1>8. CASE FLast
  <2>a. TypeInv'
    BY <1>8 DEF IndInv, TypeInv, UpdaterInv, FlusherInv, K, V, Goto, FLast, FirstAbsWindow, uvars
  <2>b. UpdaterInv'
    BY <1>8 DEF IndInv, TypeInv, UpdaterInv, FlusherInv, K, V, Goto, FLast, FirstAbsWindow, uvars
  <2>c. CounterInv'
    BY <1>8 DEF IndInv, TypeInv, UpdaterInv, CounterInv, FlusherInv, Pending, K, V, Goto, FLast, FirstAbsWindow, uvars
  <2>d. FlusherInv'
    BY <1>8 DEF IndInv, TypeInv, UpdaterInv, CounterInv, FlusherInv, Pending, K, V, Goto, FLast, FirstAbsWindow, uvars
  <2> QED
    BY <2>a, <2>b, <2>c, <2>d DEF IndInv
<1>9. CASE FUpd
  <2>a. TypeInv'
    BY <1>9 DEF IndInv, TypeInv, UpdaterInv, FlusherInv, K, V, Goto, FUpd, uvars
  <2>b. UpdaterInv'
    BY <1>9 DEF IndInv, TypeInv, UpdaterInv, FlusherInv, K, V, Goto, FUpd, uvars
  <2>c. CounterInv'
    BY <1>9 DEF IndInv, TypeInv, UpdaterInv, CounterInv, FlusherInv, Pending, K, V, Goto, FUpd, uvars
  <2>d. FlusherInv'
    BY <1>9 DEF IndInv, TypeInv, UpdaterInv, CounterInv, FlusherInv, Pending, K, V, Goto, FUpd, uvars
  <2> QED
    BY <2>a, <2>b, <2>c, <2>d DEF IndInv
<1>10. CASE FHists
  <2>a. TypeInv'
    BY <1>10 DEF IndInv, TypeInv, UpdaterInv, FlusherInv, K, V, Goto, FHists, shared, uvars
  <2>b. UpdaterInv'
    BY <1>10 DEF IndInv, TypeInv, UpdaterInv, FlusherInv, K, V, Goto, FHists, shared, uvars
  <2>c. CounterInv'
    BY <1>10 DEF IndInv, TypeInv, UpdaterInv, CounterInv, FlusherInv, Pending, K, V, Goto, FHists, shared, uvars
  <2>d. FlusherInv'
    BY <1>10 DEF IndInv, TypeInv, UpdaterInv, CounterInv, FlusherInv, Pending, K, V, Goto, FHists, shared, uvars
  <2> QED
    BY <2>a, <2>b, <2>c, <2>d DEF IndInv
<1>11. CASE UNCHANGED vars
  BY <1>11 DEF vars, shared, uvars, fvars, hist, IndInv, TypeInv, UpdaterInv, CounterInv, FlusherInv, Pending
<1> QED
  BY <1>1, <1>2, <1>3, <1>4, <1>5, <1>6, <1>7, <1>8, <1>9, <1>10, <1>11 DEF Next, UStep, FStep

LEMMA IndSafe == IndInv => Safety
  BY ConstAssump DEF IndInv, TypeInv, UpdaterInv, CounterInv, FlusherInv, Pending,
     Safety, TypeOK, IncConservation, AbsConservation, NoOvershoot, ZeroOnce, MidFlush, MidAbs

THEOREM Correct == Spec => []Safety
<1>1. Init => IndInv BY InitInd
<1>2. IndInv /\ [Next]_vars => IndInv' BY StepInd
<1>3. IndInv => Safety BY IndSafe
<1> QED BY <1>1, <1>2, <1>3, PTL DEF Spec
=============================================================================
