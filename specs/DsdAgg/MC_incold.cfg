SPECIFICATION MCSpec
CONSTANTS
 Updaters = {1,2}
 CKeys = {1,2}
 GKeys = {1}
 HKeys = {1}
 MaxFlushes = 3
 IdleByDelta = FALSE
 TsWhenAggressive = TRUE
 Mode = "Aggressive"
 Prog <- ProgInc
INVARIANTS TypeOK IncConservation AbsConservation NoOvershoot ZeroOnce HistConservation
CHECK_DEADLOCK FALSE
