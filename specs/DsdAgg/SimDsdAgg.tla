------------------------------ MODULE SimDsdAgg ------------------------------
EXTENDS MCDsdAgg, Json
VARIABLE sched
SimInit == MCInit /\ sched = <<>>
SimNext == \/ \E u \in Updaters : /\ upc[u] = "idle" /\ ip[u] <= Len(Prog[u])
                                  /\ UBegin(u, Prog[u][ip[u]]) /\ ip' = [ip EXCEPT ![u] = @ + 1]
                                  /\ sched' = Append(sched, <<u, "begin">>)
           \/ \E u \in Updaters : UStep(u) /\ UNCHANGED ip /\ sched' = Append(sched, <<u, upc[u]>>)
           \/ FStep /\ UNCHANGED ip /\ sched' = Append(sched, <<Flusher, fpc>>)
SimSpec == SimInit /\ [][SimNext]_<<vars, ip, sched>>
AllFlushed == Done /\ flushes = MaxFlushes
Emit == AllFlushed => PrintT(<<"REPLAY", ToJson([nc |-> Cardinality(CKeys), flushes |-> MaxFlushes, aggressive |-> (Mode = "Aggressive"),
                                                   progs |-> [u \in Updaters |-> Prog[u]], sched |-> sched])>>)
=============================================================================
