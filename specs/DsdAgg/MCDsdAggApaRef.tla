--------------------------- MODULE MCDsdAggApaRef ---------------------------
(***************************************************************************)
(* Binds DsdAggApa.tla (the typed copy of the counter part of DsdAgg.tla   *)
(* used for the unbounded argument) to DsdAgg.tla itself: every behaviour  *)
(* of MCDsdAgg (the original module driven by a program) with counters     *)
(* only and an increment-only program is, under the mapping below, a       *)
(* behaviour of DsdAggApa!Spec.  Checked by TLC as a refinement property   *)
(* (checks/unbounded_dsdagg.py, cfg generated there); if an action of the  *)
(* copy drifted from the original, some step of the original is not a      *)
(* [C!Next]_C!vars step and TLC reports it.                                *)
(* Mapping: same-named variables map to themselves; the record uop is      *)
(* split into ukind / ukey / uval; gauge, histogram, msgs variables and    *)
(* the program counter ip of MCDsdAgg have no counterpart (steps changing  *)
(* only those stutter).                                                    *)
(***************************************************************************)
EXTENDS MCDsdAgg

\* increment values occurring in the programs (overrides DsdAggApa!Vals == Nat, which TLC cannot enumerate)
RefVals == 0..8

C == INSTANCE DsdAggApa WITH ukind <- [u \in Updaters |-> uop[u].kind],
                             ukey  <- [u \in Updaters |-> uop[u].key],
                             uval  <- [u \in Updaters |-> uop[u].val]

CopySpec == C!Spec
\* the copy's invariants, evaluated on the original's states (must agree with the original's own)
CopySafety == C!Safety
SameVerdicts == /\ C!IncConservation <=> IncConservation
                /\ C!NoOvershoot <=> NoOvershoot
                /\ C!ZeroOnce <=> ZeroOnce
=============================================================================
