------------------------------ MODULE MCDsdAgg ------------------------------
EXTENDS DsdAgg
CONSTANT Prog        \* updater -> sequence of operations
VARIABLE ip
Op(k, key, v) == [kind |-> k, key |-> key, val |-> v]

\* programs (selected by the cfg with  Prog <- ProgX)
ProgInc   == (1 :> <<Op("inc", 1, 2), Op("inc", 1, 3)>>) @@ (2 :> <<Op("inc", 1, 1), Op("inc", 2, 4)>>)
ProgAbs   == (1 :> <<Op("abs", 1, 5), Op("abs", 1, 5), Op("abs", 1, 8)>>) @@ (2 :> <<Op("inc", 2, 1)>>)
ProgMixed == (1 :> <<Op("inc", 1, 2), Op("gset", 1, 7), Op("hrec", 1, 3)>>) @@ (2 :> <<Op("gadd", 1, 2), Op("hrec", 1, 4), Op("inc", 1, 1)>>)
ProgInc3  == (1 :> <<Op("inc", 1, 2)>>) @@ (2 :> <<Op("inc", 1, 1)>>) @@ (3 :> <<Op("inc", 1, 4)>>)

MCInit == Init /\ ip = [u \in Updaters |-> 1]
MCNext == \/ \E u \in Updaters : /\ upc[u] = "idle" /\ ip[u] <= Len(Prog[u])
                                 /\ UBegin(u, Prog[u][ip[u]]) /\ ip' = [ip EXCEPT ![u] = @ + 1]
          \/ (\E u \in Updaters : UStep(u)) /\ UNCHANGED ip
          \/ FStep /\ UNCHANGED ip
MCSpec == MCInit /\ [][MCNext]_<<vars, ip>>
Done == (\A u \in Updaters : upc[u] = "idle" /\ ip[u] > Len(Prog[u])) /\ fpc = "idle"
=============================================================================
