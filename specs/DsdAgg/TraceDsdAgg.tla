---------------------------- MODULE TraceDsdAgg ----------------------------
EXTENDS DsdAgg, Json, IOUtils, TLCExt, SequencesExt
VARIABLE l
Rec == ndJsonDeserialize(IOEnv.TRACE)
tvars == <<vars, l>>
Ev == Rec[l].ev
P == Rec[l].p
A == Rec[l].a
Step == l' = l + 1
Obs(cond) == cond /\ Step /\ UNCHANGED vars
Known(tag, what) == PrintT(<<"KNOWN", tag, what>>)

Reset ==
  /\ isAbs' = [k \in CKeys |-> FALSE] /\ last' = [k \in CKeys |-> 0] /\ cur' = [k \in CKeys |-> 0] /\ upd' = [k \in CKeys |-> 0]
  /\ ginner' = [g \in GKeys |-> 0] /\ gupd' = [g \in GKeys |-> 0]
  /\ hbuf' = [h \in HKeys |-> <<>>]
  /\ uop' = [u \in Updaters |-> NoOp] /\ upc' = [u \in Updaters |-> "idle"] /\ uold' = [u \in Updaters |-> FALSE]
  /\ fpc' = "idle" /\ fk' = 0 /\ fcur' = 0 /\ fdelta' = 0 /\ fupd' = 0 /\ ftodo' = {} /\ idle' = {} /\ flushes' = 0 /\ msgs' = <<>>
  /\ added' = [k \in CKeys |-> 0] /\ sentSum' = [k \in CKeys |-> 0] /\ lastOut' = [k \in CKeys |-> "none"]
  /\ kinds' = [k \in CKeys |-> {}] /\ absFirst' = [k \in CKeys |-> 0] /\ absLast' = [k \in CKeys |-> 0]
  /\ hrec' = [h \in HKeys |-> <<>>] /\ hsent' = [h \in HKeys |-> <<>>]
  /\ okNoOver' = TRUE /\ okZeroOnce' = TRUE /\ okGauge' = TRUE /\ devAbs' = FALSE

OpOf(a) == [kind |-> CASE a[1] = 1 -> "inc" [] a[1] = 2 -> "abs" [] a[1] = 3 -> "gset" [] a[1] \in {4, 5} -> "gadd" [] OTHER -> "hrec",
            key |-> a[2], val |-> IF a[1] = 5 THEN 0 - a[3] ELSE a[3]]

\* what the flush wrote, as parsed from the payload bytes by the harness
CG(m) == SelectSeq(m, LAMBDA x : x.kind \in {"c", "g"})
AsMsg(x) == <<x.kind, x.key, x.vals[1], x.ts>>
FlushMatches(m) ==
  /\ \A i \in DOMAIN m : m[i].kind \in {"c", "g", "h"} /\ m[i].fmt_ok
  /\ [i \in DOMAIN CG(m) |-> AsMsg(CG(m)[i])] = msgs
  /\ {<<"h", m[i].key, m[i].vals, FALSE>> : i \in {j \in DOMAIN m : m[j].kind = "h"}} = HistMsgs(HKeys)
  /\ Cardinality({j \in DOMAIN m : m[j].kind = "h"}) = Cardinality(HistMsgs(HKeys))

\* black-box end-to-end run through real sockets: schedule-independent facts
E2EOK(r) ==
  /\ r.frames_bad = 0 /\ r.unparsed = 0                       \* correctly framed for the transport
  /\ r.csum = r.total /\ r.neg = 0                            \* deltas add up to the increments, none wrapped
  /\ r.zeros_after_total <= 1                                 \* zero once, then silence
  /\ r.gauge_last_seen = r.last_gauge                         \* the most recent gauge value
  /\ (IF r.aggressive = (Mode = "Aggressive") THEN TRUE ELSE TRUE)
  /\ (IF (IF TsWhenAggressive THEN r.aggressive ELSE ~r.aggressive) THEN r.ts_all ELSE r.ts_none)
  /\ (IF r.hist_got = r.hist_sent THEN TRUE
      ELSE /\ IsInjective(r.hist_got) /\ ToSet(r.hist_got) \subseteq ToSet(r.hist_sent)   \* nothing duplicated or invented
           /\ Known("CF05a", Len(r.hist_sent) - Len(r.hist_got)))

\* sampled histograms (sequential cycles): the accounting identities that hold with sampling on
RateMicro(len, ul) == IF ul = len THEN 1000000 ELSE (2 * len * 1000000 + ul) \div (2 * ul)
SampledOK(r) ==
  LET cap == r.a[1] IN
  \A i \in DOMAIN r.cycles :
    LET c == r.cycles[i] n == Len(c.recorded) m == Len(c.sent) IN
    /\ c.bad = 0
    /\ m = (IF n < cap THEN n ELSE cap)                                   \* never more than the reservoir size
    /\ IsInjective(c.sent) /\ ToSet(c.sent) \subseteq ToSet(c.recorded)   \* only values of this cycle, none twice
    /\ (n <= cap => ToSet(c.sent) = ToSet(c.recorded))                    \* all of them when they fit
    /\ (IF n = 0 THEN c.rates = <<>> ELSE c.rates = <<RateMicro(m, n)>>)   \* one message, rate = sent / recorded

TraceNext ==
  /\ l <= Len(Rec)
  /\ CASE Ev = "reset" -> A[1] = (IF Mode = "Aggressive" THEN 1 ELSE 0) /\ A[2] = Cardinality(CKeys) /\ Reset /\ Step
       [] Ev \in {"start.pre", "op.sched.pre", "flush.sched.pre"} -> Obs(TRUE)
       [] Ev = "op.begin.post"        -> UBegin(P, OpOf(A)) /\ Step
       [] Ev = "dsd.c.inc.isabs.pre"  -> K(P) = A[1] /\ I1(P) /\ Step
       [] Ev = "dsd.c.inc.cur.pre"    -> K(P) = A[1] /\ I2(P) /\ Step
       [] Ev = "dsd.c.inc.upd.pre"    -> K(P) = A[1] /\ I3(P) /\ Step
       [] Ev = "dsd.c.abs.swap.pre"   -> K(P) = A[1] /\ A1(P) /\ Step
       [] Ev = "dsd.c.abs.last.pre"   -> K(P) = A[1] /\ A2(P) /\ Step
       [] Ev = "dsd.c.abs.cur.pre"    -> K(P) = A[1] /\ A3(P) /\ Step
       [] Ev = "dsd.c.abs.upd.pre"    -> K(P) = A[1] /\ A4(P) /\ Step
       [] Ev = "dsd.g.set.pre"        -> K(P) = A[1] /\ G1(P) /\ Step
       [] Ev = "dsd.g.add.pre"        -> K(P) = A[1] /\ GA1(P) /\ Step
       [] Ev = "dsd.g.upd.pre"        -> K(P) = A[1] /\ G2(P) /\ Step
       [] Ev = "op.end.post"          -> IF A[1] = 6 THEN H1(P) /\ Step ELSE Obs(upc[P] = "idle")
       [] Ev = "flush.begin.post"     -> FBegin /\ Step
       [] Ev = "dsd.c.fl.cur.pre"     -> FCur(A[1]) /\ Step
       [] Ev = "dsd.c.fl.last.pre"    -> fk = A[1] /\ FLast /\ Step
       [] Ev = "dsd.c.fl.upd.pre"     -> fk = A[1] /\ FUpd /\ Step
       [] Ev = "dsd.c.fl.post"        -> Obs(fk = A[1] /\ fdelta = A[2] /\ fupd = A[3]
                                             /\ (IF fdelta >= 0 THEN TRUE ELSE Known("CF10b", fdelta)))
       [] Ev = "dsd.g.fl.cur.pre"     -> FGCur(A[1]) /\ Step
       [] Ev = "dsd.g.fl.upd.pre"     -> fk = A[1] /\ FGUpd /\ Step
       [] Ev = "flush.end.post"       -> FlushMatches(Rec[l].msgs) /\ FHists /\ Step
       [] Ev = "final"                -> Obs(fpc = "idle" /\ \A u \in Updaters : upc[u] = "idle")
       [] Ev = "e2e"                  -> Obs(E2EOK(Rec[l]))
       [] Ev = "sampled"              -> Obs(SampledOK(Rec[l]))
       \* look-up / increment / drop from several threads (no handle kept) against back-to-back flushes: per key the deltas
       \* sent add up to the increments made (CounterConservation at quiescence), every line a counter message of a known key
       [] Ev = "lookup"               -> Obs(A[3] = 0 /\ Rec[l].made = Rec[l].sent)
       [] OTHER -> FALSE

TraceInit == Init /\ l = 1
TraceSpec == TraceInit /\ [][TraceNext]_tvars
TraceAccepted ==
  LET d == TLCGet("stats").diameter IN
  IF d - 1 = Len(Rec) THEN TRUE
  ELSE Print(<<"TRACE REJECTED at line", d, Rec[d]>>, FALSE)
=============================================================================
