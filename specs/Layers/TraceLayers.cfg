SPECIFICATION TraceSpec
CONSTANTS
 MaxCalls = 1000000
 MaxUpdates = 1000000
 Configs <- NoConfigs
 OpsOf <- NoOps
 UpdatesOf <- NoUpdates
INVARIANTS TypeOK InvDeliveries InvPrefixLaw InvFilterLaw InvRouterLaw InvFanoutLaw InvCompose InvHandleTargets InvUpdateOnce
POSTCONDITION TraceAccepted
CHECK_DEADLOCK FALSE
