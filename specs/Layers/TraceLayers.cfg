SPECIFICATION TraceSpec
CONSTANTS
 MaxCalls = 1000000
 MaxUpdates = 1000000
 Configs <- NoConfigs
 OpsOf <- NoOps
 UpdatesOf <- NoUpdates
 BuilderCallsOf <- NoBuilderCalls
 MaxHist = 1000000
 StaleCaseFlag = FALSE
INVARIANTS TypeOK InvDeliveries InvPure InvPrefixLaw InvFilterLaw InvRouterLaw InvFanoutLaw InvCompose InvBuilder InvHandleTargets InvUpdateOnce
POSTCONDITION TraceAccepted
CHECK_DEADLOCK FALSE
