------------------------------ MODULE MCLayers ------------------------------
(* Scopes for the exhaustive runs of Layers.tla and for the export of programs *)
(* (configuration + operations) executed by harness/src/bin/c13.rs on the real *)
(* metrics_util::layers types.  One mode per layer plus "stack" (all orders of *)
(* up to MaxDepth layers of every kind) and "fanout" (handle trees).           *)
EXTENDS Layers, Json

CONSTANTS Mode,       \* "prefix" | "filter" | "router" | "fanout" | "stack"
          Alpha,      \* code points for prefixes / patterns / routes
          NameAlpha,  \* code points for metric names
          MaxName, MaxPat, MaxPats, MaxRoutes, MaxDepth,
          MaskSet, KindSet, DfaSet,
          PerOp,      \* "both": describe and register for every (name, kind); "alt": one of them, alternating
          MaxBuilders, AllowOnto, BWide     \* "builder" mode: builders per history, layer() onto earlier products, wider choices

Strs(A, n) == SeqOf(A, n)
Probe(i) == [t |-> "probe", id |-> i]
Stack1(base, L) == IF base.t = "stack" THEN [base EXCEPT !.layers = Append(@, L)]
                   ELSE [t |-> "stack", base |-> base, layers |-> <<L>>]
PrefixL(p) == [t |-> "prefix", p |-> p]
FilterL(ps, ci, d) == [t |-> "filter", pats |-> ps, ci |-> ci, dfa |-> d]
RouteTo(m, p, n) == [mask |-> m, pat |-> p, to |-> n]

(* ---- configurations ---- *)
PrefixConfigs == {Stack1(Probe(0), PrefixL(p)) : p \in Strs(Alpha, MaxPat)}
FilterConfigs ==
  {Stack1(Probe(0), FilterL(ps, ci, d)) : ps \in SeqOf(Strs(Alpha, MaxPat), MaxPats), ci \in BOOLEAN, d \in DfaSet}
RouterConfigs ==
  {[t |-> "router", def |-> Probe(0),
    routes |-> [i \in DOMAIN rs |-> RouteTo(rs[i][1], rs[i][2], Probe(i))]] : rs \in SeqOf(MaskSet \X Strs(Alpha, MaxPat), MaxRoutes)}
Fan(s) == [t |-> "fanout", outs |-> s]
cA == 97  cB == 98  cBB == 66
FanoutConfigs ==
  {Fan([i \in 1..w |-> Probe(i)]) : w \in 0..3}
  \cup {Fan(<<Probe(1), Fan(<<Probe(2), Probe(3)>>)>>),
        Fan(<<Fan(<<>>), Probe(1)>>),
        Fan(<<Stack1(Probe(1), FilterL(<< <<cA>> >>, FALSE, TRUE)), Probe(2)>>),
        Fan(<<Stack1(Probe(1), PrefixL(<<cA>>)), Stack1(Probe(2), PrefixL(<<cB>>)), Probe(3)>>),
        Fan(<<[t |-> "router", def |-> Probe(1), routes |-> <<RouteTo("c", <<cA>>, Probe(2))>>], Probe(3)>>),
        Stack1(Fan(<<Probe(1), Probe(2)>>), FilterL(<< <<cB>> >>, TRUE, FALSE)),
        Stack1(Fan(<<Probe(1), Probe(2)>>), PrefixL(<<cA>>))}

(* "stack": every sequence of up to MaxDepth wrappers around probe 0; the wrapper applied at
   depth d brings its own fresh probes 10d+1, 10d+2 *)
Wrappers == 1..8
Wrap(w, inner, d) ==
  CASE w = 1 -> Stack1(inner, PrefixL(<<cA>>))
    [] w = 2 -> Stack1(inner, PrefixL(<<>>))
    [] w = 3 -> Stack1(inner, FilterL(<< <<cA, Dot>> >>, FALSE, TRUE))
    [] w = 4 -> Stack1(inner, FilterL(<< <<cBB>>, <<Dot, Dot>> >>, TRUE, FALSE))
    [] w = 5 -> [t |-> "router", def |-> inner,
                 routes |-> <<RouteTo("all", <<cA>>, Probe(10 * d + 1)), RouteTo("c", <<cA, Dot>>, Probe(10 * d + 2))>>]
    [] w = 6 -> [t |-> "router", def |-> Probe(10 * d + 1),
                 routes |-> <<RouteTo("all", <<cA>>, inner), RouteTo("g", <<cA, Dot, cA>>, Probe(10 * d + 2))>>]
    [] w = 7 -> Fan(<<inner, Probe(10 * d + 1)>>)
    [] w = 8 -> Fan(<<Probe(10 * d + 1), inner>>)
RECURSIVE WrapAll(_, _)
WrapAll(ws, k) == IF k = 0 THEN Probe(0) ELSE Wrap(ws[k], WrapAll(ws, k - 1), k)    \* ws[Len] is outermost
StackConfigs == {WrapAll(ws, Len(ws)) : ws \in SeqOf(Wrappers, MaxDepth)}

(* "sibling": every route table {P, P+x, P+y} (P = "" or "a"; x # y over Alpha) for every mask, P added first or last:
   the radix trie gets a value-less internal node where P+x and P+y diverge (at nibble granularity: 'a' = 0x61 and
   'b' = 0x62 share the high nibble, '.' = 0x2e and 'A' = 0x41 do not); names end on / pass through / diverge inside it *)
SiblingConfigs ==
  {[t |-> "router", def |-> Probe(0),
    routes |-> IF first THEN <<RouteTo(m, P, Probe(1)), RouteTo(m, P \o <<x>>, Probe(2)), RouteTo(m, P \o <<y>>, Probe(3))>>
               ELSE <<RouteTo(m, P \o <<x>>, Probe(2)), RouteTo(m, P \o <<y>>, Probe(3)), RouteTo(m, P, Probe(1))>>]
     : P \in {<<>>, <<cA>>}, x \in Alpha, y \in Alpha, m \in MaskSet, first \in BOOLEAN}

MCConfigs == CASE Mode = "prefix" -> PrefixConfigs
               [] Mode = "filter" -> FilterConfigs
               [] Mode = "router" -> RouterConfigs
               [] Mode = "fanout" -> FanoutConfigs
               [] Mode = "stack"  -> StackConfigs
               [] Mode = "builder" -> {}
               [] Mode = "sibling" -> SiblingConfigs

(* ---- "builder": every history of at most MaxHist calls on FilterLayer / PrefixLayer values ---- *)
Call(c, b, p, pats, x, onto) == [c |-> c, b |-> b, p |-> p, pats |-> pats, x |-> x, onto |-> onto]
BNewPats == IF BWide THEN {<<>>, << <<cA>> >>, << <<cBB>>, <<cA, Dot>> >>} ELSE {<<>>, << <<cA>> >>}
BAddPats == IF BWide THEN {<<65>>, <<cB>>} ELSE {<<65>>}
NewCalls == {Call("new_filter", 0, <<>>, ps, FALSE, 0) : ps \in BNewPats}
            \cup {Call("new_default", 0, <<>>, <<>>, FALSE, 0), Call("new_prefix", 0, <<cA>>, <<>>, FALSE, 0)}
MCBuilderCalls(bs, md) ==
  IF Mode # "builder" THEN {}
  ELSE (IF Len(bs) < MaxBuilders THEN NewCalls ELSE {})
       \cup UNION {
            {Call("layer", b, <<>>, <<>>, FALSE, o) : o \in {0} \cup (IF AllowOnto THEN DOMAIN md ELSE {})}
            \cup (IF bs[b].t = "filter"
                  THEN {Call("add", b, p, <<>>, FALSE, 0) : p \in BAddPats}
                       \cup {Call("ci", b, <<>>, <<>>, x, 0) : x \in BOOLEAN}
                       \cup {Call("dfa", b, <<>>, <<>>, x, 0) : x \in DfaSet}
                  ELSE {}) : b \in DOMAIN bs}

(* ---- operations ---- *)
DescribeOp(k, n, unit, desc) == [o |-> "describe", kind |-> k, name |-> n, unit |-> unit, desc |-> desc]
RegisterOp(k, n, labels, lvl, tgt, mod) ==
  [o |-> "register", kind |-> k, name |-> n, labels |-> labels, lvl |-> lvl, tgt |-> tgt, mod |-> mod]
KindIdx(k) == CASE k = "c" -> 0 [] k = "g" -> 1 [] k = "h" -> 2
Sum(s) == FoldLeft(LAMBDA x, y : x + y, 0, s)
(* the payload (unit, description / labels, metadata) varies with the name so that "everything
   else unchanged" is exercised without multiplying the scope *)
Variant(n, k) == (Sum(n) + Len(n) + KindIdx(k)) % 3
DescOf(n, k) == CASE Variant(n, k) = 0 -> DescribeOp(k, n, "none", <<>>)
                  [] Variant(n, k) = 1 -> DescribeOp(k, n, "count", <<100, 46, 65>>)
                  [] Variant(n, k) = 2 -> DescribeOp(k, n, "bytes", n)
RegOf(n, k) == CASE Variant(n, k) = 0 -> RegisterOp(k, n, <<>>, "info", <<116>>, TRUE)
                 [] Variant(n, k) = 1 -> RegisterOp(k, n, << << <<107>>, <<118, 46>> >> >>, "debug", <<>>, FALSE)
                 [] Variant(n, k) = 2 -> RegisterOp(k, n, << <<n, <<65>> >>, << <<107>>, n>> >>, "error", n, TRUE)
Names == Strs(NameAlpha, MaxName)
AllOps ==      \* constant: evaluated once
  IF PerOp = "both" THEN {DescOf(n, k) : n \in Names, k \in KindSet} \cup {RegOf(n, k) : n \in Names, k \in KindSet}
  ELSE {IF (Sum(n) + KindIdx(k)) % 2 = 0 THEN DescOf(n, k) ELSE RegOf(n, k) : n \in Names, k \in KindSet}
MCOpsOf(c) == IF c.t = "none" THEN {} ELSE AllOps

Upd3(u, v, n) == [u |-> u, v |-> v, n |-> n]
UpdSeq(k) == CASE k = "c" -> <<Upd3("increment", "3", 1), Upd3("absolute", "7", 1)>>
               [] k = "g" -> <<Upd3("increment", "2", 1), Upd3("decrement", "1", 1), Upd3("set", "5", 1)>>
               [] k = "h" -> <<Upd3("record", "4", 1), Upd3("record_many", "6", 2), Upd3("record_many", "8", 0)>>
MCUpdatesOf(k) == {UpdSeq(k)[i] : i \in DOMAIN UpdSeq(k)}

(* ---- export: one program per configuration ---- *)
Program(c) ==
  LET regsq == SetToSeq({op \in MCOpsOf(c) : op.o = "register"})
      descs == SetToSeq({op \in MCOpsOf(c) : op.o = "describe"})
      updOf(i) == LET us == UpdSeq(regsq[i].kind) IN us[((i + Sum(regsq[i].name)) % Len(us)) + 1]
      withUpd == FlattenSeq([i \in DOMAIN regsq |->
                    <<regsq[i], [o |-> "update", h |-> i, u |-> updOf(i).u, v |-> updOf(i).v, n |-> updOf(i).n]>>])
  IN [cfg |-> c, ops |-> withUpd \o descs]
HistProgram == [hist |-> hist, ops |-> SetToSeq(AllOps)]
ExportNext == DoConfigure \/ DoBuild \/ DoAssemble
ExportSpec == Init /\ [][ExportNext]_vars
CallsOnly(c) == [cfg |-> c, ops |-> SetToSeq(AllOps)]
Emit == cfg.t # "none" => PrintT(<<"REPLAY", ToJson(IF hist # <<>> THEN HistProgram
                                                    ELSE IF Mode = "sibling" THEN CallsOnly(cfg) ELSE Program(cfg))>>)
=============================================================================
