SPECIFICATION ExportSpec
CONSTANTS
 Mode = "stack"
 Alpha = {97, 65, 46}
 NameAlpha = {97, 66, 46}
 MaxName = 2
 MaxPat = 2
 MaxPats = 2
 MaxRoutes = 2
 MaxDepth = 2
 MaskSet = {"c", "all"}
 KindSet = {"c", "g"}
 DfaSet = {TRUE}
 PerOp = "alt"
 MaxCalls = 1
 MaxUpdates = 1
 Configs <- MCConfigs
 OpsOf <- MCOpsOf
 UpdatesOf <- MCUpdatesOf
INVARIANTS Emit
CHECK_DEADLOCK FALSE
