------------------------------- MODULE Layers -------------------------------
(* C13 -- metrics-util layers: Prefix / Filter / Router / Fanout / Stack.    *)
(*                                                                           *)
(* A configuration is a tree of recorders (what a user builds with           *)
(* Stack::new(..).push(..), RouterBuilder, FanoutBuilder):                    *)
(*   [t |-> "probe",  id]                       a leaf recorder (logs calls) *)
(*   [t |-> "stack",  base, layers]             Stack::new(base).push(layers[1]).push(layers[2])... *)
(*        layer = [t |-> "prefix", p] | [t |-> "filter", pats, ci, dfa]      *)
(*   [t |-> "router", def, routes]              RouterBuilder::from_recorder(def).add_route(mask, pat, to)... *)
(*        route = [mask \in {"c","g","h","all"}, pat, to]                    *)
(*   [t |-> "fanout", outs]                     FanoutBuilder.add_recorder(outs[1])...  *)
(* Names, prefixes, patterns are sequences of code points.                   *)
(*                                                                           *)
(* Two formulations live side by side and TLC checks that they agree for     *)
(* every configuration / operation of the scope:                             *)
(*  - the MIRROR  (Run, Upd): what the code does, method by method           *)
(*    (prefix.rs prefix_key, filter.rs should_filter = automaton scan,       *)
(*     router.rs add_route/route = per-kind maps with overwrite, global mask *)
(*     guard, closest-ancestor lookup; fanout.rs loops; Stack::push nesting) *)
(*  - the LAWS    (Expected, Inv... invariants): the property as stated         *)
(*    (substring, longest matching route of that kind / later duplicate      *)
(*     wins, "<prefix>.<name>", every recorder once, composition).           *)
(* State machine: one action per public call on the top-most recorder        *)
(* (describe_* / register_* / an update through a returned handle).          *)
EXTENDS Naturals, Integers, Sequences, FiniteSets, SequencesExt, TLC

CONSTANTS Configs,      \* set of configuration trees of the scope
          OpsOf(_),     \* configuration -> set of describe/register operations of the scope
          UpdatesOf(_), \* kind -> set of updates [u, v, n] tried through a handle
          MaxCalls,     \* describe/register calls per configuration
          MaxUpdates,   \* handle updates per configuration
          BuilderCallsOf(_, _), \* (builders, produced layers) -> builder calls of the scope
          MaxHist,      \* builder calls per history
          StaleCaseFlag \* witness: FilterLayer keeps its compiled automaton across case_insensitive() (must be rejected)

VARIABLES cfg,      \* configuration tree, or NoCfg before Configure
          regs,     \* probe id -> number of register_* calls that probe has received (names its handles)
          handles,  \* sequence of handles returned to the caller by register_* (mirror: handle trees)
          last,     \* the last public call and what the leaf recorders received for it
          ncalls, nupd,
          blds,     \* the layer builders alive (FilterLayer / PrefixLayer values: stateful, re-usable: layer(&self))
          made,     \* what the layer() calls produced so far: made[i] = stack over probe i
          hist      \* the builder calls made so far (history; the law is stated over it)
bvars == <<blds, made, hist>>
vars == <<cfg, regs, handles, last, ncalls, nupd, blds, made, hist>>

NoCfg == [t |-> "none"]
Kinds == {"c", "g", "h"}
Masks == {"c", "g", "h", "all"}
Dot == 46

-----------------------------------------------------------------------------
(* ---------- text helpers ---------- *)
Fold(c) == IF c >= 65 /\ c <= 90 THEN c + 32 ELSE c      \* ASCII-only case folding (bytes A-Z)
IsPre(p, s) == Len(p) <= Len(s) /\ \A i \in 1..Len(p) : p[i] = s[i]
BagOfSeq(s) == [v \in {s[i] : i \in DOMAIN s} |-> Cardinality({i \in DOMAIN s : s[i] = v})]
BCount(b, v) == IF v \in DOMAIN b THEN b[v] ELSE 0
BSum(b1, b2) == [v \in DOMAIN b1 \cup DOMAIN b2 |-> BCount(b1, v) + BCount(b2, v)]
NoBag == <<>>

(* ---------- structure ---------- *)
RECURSIVE ProbeIds(_)
ProbeIds(n) ==
  CASE n.t = "probe"  -> {n.id}
    [] n.t = "stack"  -> ProbeIds(n.base)
    [] n.t = "router" -> ProbeIds(n.def) \cup UNION {ProbeIds(n.routes[i].to) : i \in DOMAIN n.routes}
    [] n.t = "fanout" -> UNION {ProbeIds(n.outs[i]) : i \in DOMAIN n.outs}
RECURSIVE ProbeSeq(_)     \* leaves in left-to-right order (well-formed = all distinct)
ProbeSeq(n) ==
  CASE n.t = "probe"  -> <<n.id>>
    [] n.t = "stack"  -> ProbeSeq(n.base)
    [] n.t = "router" -> ProbeSeq(n.def) \o FlattenSeq([i \in DOMAIN n.routes |-> ProbeSeq(n.routes[i].to)])
    [] n.t = "fanout" -> FlattenSeq([i \in DOMAIN n.outs |-> ProbeSeq(n.outs[i])])
WellFormed(n) == Len(ProbeSeq(n)) = Cardinality(ProbeIds(n))

-----------------------------------------------------------------------------
(* ======================= MIRROR of the code ======================= *)

(* prefix.rs: prefix_key / prefix_key_name: push_str(prefix); push('.'); push_str(name);
   Key::from_parts(new_name, key.labels()); unit / description / metadata are passed on untouched *)
PrefixOp(p, op) == [op EXCEPT !.name = p \o <<Dot>> \o op.name]

(* filter.rs: should_filter = automaton.is_match(name).  The automaton is mirrored as the
   non-deterministic scan it is built from: a set of (pattern, matched length) items advanced per
   character, a new attempt started at every position; ascii_case_insensitive folds A-Z only. *)
ShouldFilter(L, name) ==
  LET P == L.pats
      N(c) == IF L.ci THEN Fold(c) ELSE c
      Adv(S, c) == {<<x[1], x[2] + 1>> : x \in {y \in S \cup {<<i, 0>> : i \in DOMAIN P} :
                                                  y[2] < Len(P[y[1]]) /\ N(P[y[1]][y[2] + 1]) = N(c)}}
      Acc(S) == \E x \in S : x[2] = Len(P[x[1]])
      step(acc, c) == LET S2 == Adv(acc.S, c) IN [S |-> S2, m |-> acc.m \/ Acc(S2)]
      fin == FoldLeft(step, [S |-> {}, m |-> \E i \in DOMAIN P : Len(P[i]) = 0], name)
  IN fin.m

(* router.rs: RouterBuilder::add_route: target_idx = targets.len(); global_mask |= mask;
   insert (pattern -> idx) into the trie of every kind in the mask (insert overwrites). *)
KindsOfMask(m) == IF m = "all" THEN Kinds ELSE {m}
MapPut(t, key, v) == [q \in DOMAIN t \cup {key} |-> IF q = key THEN v ELSE t[q]]
EmptyRouter == [gmask |-> {}, trie |-> [k \in Kinds |-> <<>>]]
AddRoute(r, i, route) ==
  [gmask |-> r.gmask \cup KindsOfMask(route.mask),
   trie  |-> [k \in Kinds |-> IF k \in KindsOfMask(route.mask) THEN MapPut(r.trie[k], route.pat, i) ELSE r.trie[k]]]
BuildRouter(routes) ==
  LET add(r, i) == AddRoute(r, i, routes[i]) IN FoldLeft(add, EmptyRouter, [i \in DOMAIN routes |-> i])
(* Router::route: default unless the global mask has the kind; else Trie::get_ancestor(name) =
   the stored key that is the longest prefix of name; none -> default.  0 = default, i = targets[i]. *)
Route(r, kind, name) ==
  IF kind \notin r.gmask THEN 0
  ELSE LET anc == {q \in DOMAIN r.trie[kind] : IsPre(q, name)} IN
       IF anc = {} THEN 0
       ELSE r.trie[kind][CHOOSE q \in anc : \A q2 \in anc : Len(q2) <= Len(q)]

NoopH == [t |-> "noop"]
(* Run(node, op, rc): the call `op` made on recorder `node`: what reaches the probes, in call
   order, and (register) the handle returned.  rc = regs.  A probe's k-th register_* returns the
   probe handle (id, k). *)
RECURSIVE Run(_, _, _)
RECURSIVE RunLayers(_, _, _, _, _)
Run(n, op, rc) ==
  CASE n.t = "probe" ->
         IF op.o = "describe"
         THEN [dl |-> << [p |-> n.id, op |-> op] >>, h |-> NoopH]
         ELSE [dl |-> << [p |-> n.id, hid |-> rc[n.id], op |-> op] >>, h |-> [t |-> "leaf", p |-> n.id, hid |-> rc[n.id]]]
    [] n.t = "stack" -> RunLayers(n.base, n.layers, Len(n.layers), op, rc)
    [] n.t = "router" ->
         LET r == Route(BuildRouter(n.routes), op.kind, op.name)
         IN IF r = 0 THEN Run(n.def, op, rc) ELSE Run(n.routes[r].to, op, rc)
    [] n.t = "fanout" ->      \* for recorder in &self.recorders { .. }; handle = Fanout*{ inner handles }
         LET rs == [i \in DOMAIN n.outs |-> Run(n.outs[i], op, rc)]
         IN [dl |-> FlattenSeq([i \in DOMAIN n.outs |-> rs[i].dl]),
             h  |-> [t |-> "fan", hs |-> [i \in DOMAIN n.outs |-> rs[i].h]]]
(* Stack::push(layer) = Stack::new(layer.layer(self.inner)): the k-th pushed layer wraps layers
   1..k-1; a call on the stack enters the last pushed layer first. *)
RunLayers(base, layers, k, op, rc) ==
  IF k = 0 THEN Run(base, op, rc)
  ELSE LET L == layers[k] IN
       CASE L.t = "prefix" -> RunLayers(base, layers, k - 1, PrefixOp(L.p, op), rc)
         [] L.t = "filter" -> IF ShouldFilter(L, op.name) THEN [dl |-> <<>>, h |-> NoopH]   \* return / Counter::noop()
                              ELSE RunLayers(base, layers, k - 1, op, rc)

(* handles.rs / fanout.rs: an update through a handle.  noop: nothing; probe handle: logs it;
   Fanout{Counter,Gauge,Histogram}: for h in inner { h.<method>(value) }.  FanoutHistogram has no
   record_many: the trait default calls self.record(value) count times. *)
RECURSIVE Upd(_, _)
Upd(h, u) ==
  CASE h.t = "noop" -> <<>>
    [] h.t = "leaf" -> IF u.u = "record_many"     \* the probe handle only implements record: default loop
                       THEN [i \in 1..u.n |-> [p |-> h.p, hid |-> h.hid, u |-> "record", v |-> u.v]]
                       ELSE << [p |-> h.p, hid |-> h.hid, u |-> u.u, v |-> u.v] >>
    [] h.t = "fan"  -> IF u.u = "record_many"
                       THEN FlattenSeq([i \in 1..u.n |-> FlattenSeq([j \in DOMAIN h.hs |-> Upd(h.hs[j], [u |-> "record", v |-> u.v, n |-> 1])])])
                       ELSE FlattenSeq([j \in DOMAIN h.hs |-> Upd(h.hs[j], u)])

-----------------------------------------------------------------------------
(* ======================= the state machine ======================= *)
Init == /\ cfg = NoCfg /\ regs = <<>> /\ handles = <<>> /\ last = [o |-> "none"] /\ ncalls = 0 /\ nupd = 0
        /\ blds = <<>> /\ made = <<>> /\ hist = <<>>

Setup(c) ==
  /\ cfg' = c /\ regs' = [p \in ProbeIds(c) |-> 0]
  /\ handles' = <<>> /\ last' = [o |-> "configure"] /\ ncalls' = 0 /\ nupd' = 0
Configure(c) == cfg.t = "none" /\ hist = <<>> /\ Setup(c) /\ UNCHANGED bvars       \* building the recorder tree

(* ---------- the layer builders are objects with state ----------
   FilterLayer: from_patterns(pats) (case sensitive, dfa) | default() (no pattern, case sensitive, no dfa);
   add_pattern(&mut self, p), case_insensitive(&mut self, x), use_dfa(&mut self, x) and Layer::layer(&self, inner)
   can be called in any order, any number of times; layer() compiles the automaton from the fields as they are
   at that moment.  PrefixLayer::new(p); layer(&self, inner) any number of times.  (RouterBuilder::build,
   FanoutBuilder::add_recorder/build and Stack::push take self by value: no call after the product was taken.)
   A call is a record [c, b, p, pats, x, onto]; layer(b, onto): onto = 0 wraps a fresh probe, onto = i wraps the
   i-th product (which is consumed: made[i] becomes the wrapped one). *)
NoCache == [t |-> "none"]
PushLayer(n, L) == [n EXCEPT !.layers = Append(@, L)]
FreshStack(i, L) == [t |-> "stack", base |-> [t |-> "probe", id |-> i], layers |-> <<L>>]
Logged(c) == hist' = Append(hist, c) /\ UNCHANGED <<cfg, regs, handles, last, ncalls, nupd>>
BNewFilter(c) ==
  /\ c.c \in {"new_filter", "new_default"}
  /\ blds' = Append(blds, [t |-> "filter", pats |-> IF c.c = "new_filter" THEN c.pats ELSE <<>>, ci |-> FALSE,
                           dfa |-> (c.c = "new_filter"), cache |-> NoCache])
  /\ UNCHANGED made /\ Logged(c)
BNewPrefix(c) ==
  /\ c.c = "new_prefix"
  /\ blds' = Append(blds, [t |-> "prefix", p |-> c.p])
  /\ UNCHANGED made /\ Logged(c)
BAddPattern(c) ==       \* self.patterns.push(pattern)
  /\ c.c = "add" /\ c.b \in DOMAIN blds /\ blds[c.b].t = "filter"
  /\ blds' = [blds EXCEPT ![c.b].pats = Append(@, c.p), ![c.b].cache = NoCache]
  /\ UNCHANGED made /\ Logged(c)
BCase(c) ==             \* self.case_insensitive = x     (witness: the compiled automaton is NOT dropped)
  /\ c.c = "ci" /\ c.b \in DOMAIN blds /\ blds[c.b].t = "filter"
  /\ blds' = [blds EXCEPT ![c.b].ci = c.x, ![c.b].cache = IF StaleCaseFlag THEN @ ELSE NoCache]
  /\ UNCHANGED made /\ Logged(c)
BDfa(c) ==              \* self.use_dfa = x
  /\ c.c = "dfa" /\ c.b \in DOMAIN blds /\ blds[c.b].t = "filter"
  /\ blds' = [blds EXCEPT ![c.b].dfa = c.x, ![c.b].cache = NoCache]
  /\ UNCHANGED made /\ Logged(c)
BLayer(c) ==            \* Layer::layer(&self, inner): Filter { inner, automaton built from the current fields } / Prefix
  /\ c.c = "layer" /\ c.b \in DOMAIN blds /\ c.onto \in {0} \cup DOMAIN made
  /\ LET B == blds[c.b]
         snap == IF B.t = "prefix" THEN [t |-> "prefix", p |-> B.p]
                 ELSE IF StaleCaseFlag /\ B.cache.t # "none" THEN B.cache
                 ELSE [t |-> "filter", pats |-> B.pats, ci |-> B.ci, dfa |-> B.dfa]
     IN /\ made' = IF c.onto = 0 THEN Append(made, FreshStack(Len(made) + 1, snap))
                   ELSE [made EXCEPT ![c.onto] = PushLayer(@, snap)]
        /\ blds' = IF B.t = "filter" /\ StaleCaseFlag THEN [blds EXCEPT ![c.b].cache = snap] ELSE blds
  /\ Logged(c)
Build(c) == cfg.t = "none" /\ (BNewFilter(c) \/ BNewPrefix(c) \/ BAddPattern(c) \/ BCase(c) \/ BDfa(c) \/ BLayer(c))
(* the produced layers are put to use: all of them under one fanout (each over its own probe) *)
Assemble == cfg.t = "none" /\ Len(made) >= 1 /\ Setup([t |-> "fanout", outs |-> made]) /\ UNCHANGED bvars

Describe(op) ==       \* describe_counter / describe_gauge / describe_histogram on the top recorder
  /\ cfg.t # "none" /\ op.o = "describe" /\ ncalls < MaxCalls
  /\ LET r == Run(cfg, op, regs) IN last' = [o |-> "describe", op |-> op, out |-> r.dl]
  /\ ncalls' = ncalls + 1
  /\ UNCHANGED <<cfg, regs, handles, nupd>> /\ UNCHANGED bvars

Register(op) ==       \* register_counter / register_gauge / register_histogram on the top recorder
  /\ cfg.t # "none" /\ op.o = "register" /\ ncalls < MaxCalls
  /\ LET r == Run(cfg, op, regs) IN
       /\ last' = [o |-> "register", op |-> op, out |-> r.dl, h |-> r.h]
       /\ handles' = Append(handles, [kind |-> op.kind, h |-> r.h])
       /\ regs' = [p \in DOMAIN regs |-> regs[p] + Cardinality({i \in DOMAIN r.dl : r.dl[i].p = p})]
  /\ ncalls' = ncalls + 1
  /\ UNCHANGED <<cfg, nupd>> /\ UNCHANGED bvars

Update(i, u) ==       \* Counter::increment/absolute, Gauge::increment/decrement/set, Histogram::record/record_many
  /\ cfg.t # "none" /\ i \in DOMAIN handles /\ nupd < MaxUpdates
  /\ last' = [o |-> "update", i |-> i, u |-> u, out |-> Upd(handles[i].h, u)]
  /\ nupd' = nupd + 1
  /\ UNCHANGED <<cfg, regs, handles, ncalls>> /\ UNCHANGED bvars

DoConfigure == cfg.t = "none" /\ \E c \in Configs : Configure(c)      \* guard first: Configs is large
DoDescribe == cfg.t # "none" /\ ncalls < MaxCalls /\ \E op \in OpsOf(cfg) : Describe(op)
DoRegister == cfg.t # "none" /\ ncalls < MaxCalls /\ \E op \in OpsOf(cfg) : Register(op)
DoUpdate == nupd < MaxUpdates /\ \E i \in DOMAIN handles : \E u \in UpdatesOf(handles[i].kind) : Update(i, u)
DoBuild == cfg.t = "none" /\ Len(hist) < MaxHist /\ \E c \in BuilderCallsOf(blds, made) : Build(c)
DoAssemble == Assemble
Next == DoConfigure \/ DoBuild \/ DoAssemble \/ DoDescribe \/ DoRegister \/ DoUpdate
Spec == Init /\ [][Next]_vars

-----------------------------------------------------------------------------
(* ======================= LAWS (the property) ======================= *)

(* "contains one of the patterns (case-insensitively if so configured)" *)
HasSub(name, pat, ci) ==
  \E i \in 0..(Len(name) - Len(pat)) :
     \A j \in 1..Len(pat) : IF ci THEN Fold(name[i + j]) = Fold(pat[j]) ELSE name[i + j] = pat[j]
Dropped(L, name) == \E i \in DOMAIN L.pats : HasSub(name, L.pats[i], L.ci)

(* "the one whose route is the longest prefix of the name among routes for that metric kind, or
   the default when none matches"; a later add_route of the same pattern replaces the earlier one
   for the kinds it covers. *)
RouteMatches(routes, i, kind, name) == kind \in KindsOfMask(routes[i].mask) /\ IsPre(routes[i].pat, name)
Chosen(routes, kind, name) ==
  LET M == {i \in DOMAIN routes : RouteMatches(routes, i, kind, name)} IN
  IF M = {} THEN 0
  ELSE CHOOSE i \in M : \A j \in M : \/ Len(routes[j].pat) < Len(routes[i].pat)
                                      \/ (Len(routes[j].pat) = Len(routes[i].pat) /\ j <= i)

(* Denotation: the bag of (probe, operation) a call produces; layers of a stack compose in push
   order (the last pushed layer sees the call first). *)
RECURSIVE Expected(_, _)
RECURSIVE ExpectedLayers(_, _, _, _)
Expected(n, op) ==
  CASE n.t = "probe"  -> BagOfSeq(<< <<n.id, op>> >>)
    [] n.t = "stack"  -> ExpectedLayers(n.base, n.layers, Len(n.layers), op)
    [] n.t = "router" -> LET c == Chosen(n.routes, op.kind, op.name)
                         IN Expected(IF c = 0 THEN n.def ELSE n.routes[c].to, op)
    [] n.t = "fanout" -> LET add(b, i) == BSum(b, Expected(n.outs[i], op))
                         IN FoldLeft(add, NoBag, [i \in DOMAIN n.outs |-> i])
ExpectedLayers(base, layers, k, op) ==
  IF k = 0 THEN Expected(base, op)
  ELSE LET L == layers[k] IN
       CASE L.t = "prefix" -> ExpectedLayers(base, layers, k - 1, [op EXCEPT !.name = L.p \o <<Dot>> \o @])
         [] L.t = "filter" -> IF Dropped(L, op.name) THEN NoBag ELSE ExpectedLayers(base, layers, k - 1, op)

IsCall == last.o \in {"describe", "register"}
OutBag == BagOfSeq([i \in DOMAIN last.out |-> <<last.out[i].p, last.out[i].op>>])

(* every describe/register call: exactly the transformed operations reach exactly the right recorders *)
InvDeliveries == IsCall => OutBag = Expected(cfg, last.op)

(* Purity.  What a call delivers is a function of (configuration, call) only: no layer keeps state that one call
   could leave behind for another (Run takes the history only through `regs`, which merely names probe handles).
   Checked: the deliveries of every call, whatever calls preceded it, equal those of the same call made first on a
   fresh instance.  Consequence used by the real-parallel conformance stage (every layer is a Sync Recorder called
   from many threads): concurrent calls cannot influence each other, so after ANY interleaving of calls the probes
   have received exactly the sum of the per-call deliveries (HammerExpected).  FilterMemo.tla is the concurrent
   counter-model: a filter that remembers its last decision in two cells breaks exactly this. *)
Pairs(dl) == BagOfSeq([i \in DOMAIN dl |-> <<dl[i].p, dl[i].op>>])
InvPure == IsCall => OutBag = Pairs(Run(cfg, last.op, [p \in ProbeIds(cfg) |-> 0]).dl)
(* totals after a set of calls made in any order / concurrently: rows = [o, kind, name, calls]; every register is
   followed by one update through the returned handle *)
HammerExpected(c, rows) ==
  LET z == [p \in ProbeIds(c) |-> 0]
      one(r) == LET dl == Run(c, [o |-> r.o, kind |-> r.kind, name |-> r.name], z).dl
                IN {[p |-> dl[i].p, o |-> r.o, kind |-> r.kind, name |-> dl[i].op.name, n |-> r.calls,
                     incs |-> IF r.o = "register" THEN r.calls ELSE 0] : i \in DOMAIN dl}
  IN UNION {one(rows[j]) : j \in DOMAIN rows}

(* the four layer laws spelled out for a single layer directly over probes *)
OnlyProbes(s) == \A i \in DOMAIN s : s[i].t = "probe"
InvPrefixLaw ==
  (IsCall /\ cfg.t = "stack" /\ cfg.base.t = "probe" /\ Len(cfg.layers) = 1 /\ cfg.layers[1].t = "prefix") =>
     /\ Len(last.out) = 1
     /\ last.out[1].p = cfg.base.id
     /\ last.out[1].op.name = cfg.layers[1].p \o <<Dot>> \o last.op.name
     /\ [last.out[1].op EXCEPT !.name = last.op.name] = last.op        \* everything else unchanged
InvFilterLaw ==
  (IsCall /\ cfg.t = "stack" /\ cfg.base.t = "probe" /\ Len(cfg.layers) = 1 /\ cfg.layers[1].t = "filter") =>
     LET L == cfg.layers[1]
         hit == \E i \in DOMAIN L.pats : \E a \in 0..Len(last.op.name) : \E b \in a..Len(last.op.name) :
                   LET sub == SubSeq(last.op.name, a + 1, b)
                   IN IF L.ci THEN [j \in DOMAIN sub |-> Fold(sub[j])] = [j \in DOMAIN L.pats[i] |-> Fold(L.pats[i][j])]
                      ELSE sub = L.pats[i]
     IN IF hit THEN last.out = <<>> /\ (last.o = "register" => last.h = NoopH)       \* dropped, inert handle
        ELSE Len(last.out) = 1 /\ last.out[1].p = cfg.base.id /\ last.out[1].op = last.op
InvRouterLaw ==
  (IsCall /\ cfg.t = "router" /\ cfg.def.t = "probe" /\ OnlyProbes([i \in DOMAIN cfg.routes |-> cfg.routes[i].to])) =>
     LET R == cfg.routes  name == last.op.name  kind == last.op.kind
         forKind == {i \in DOMAIN R : R[i].mask = "all" \/ R[i].mask = kind}
         live == {i \in forKind : ~ \E j \in forKind : j > i /\ R[j].pat = R[i].pat}   \* not replaced by a later duplicate
         match == {i \in live : IsPre(R[i].pat, name)}
     IN /\ Len(last.out) = 1                                  \* exactly one recorder
        /\ last.out[1].op = last.op                           \* unchanged
        /\ IF match = {} THEN last.out[1].p = cfg.def.id
           ELSE \E i \in match : /\ last.out[1].p = R[i].to.id
                                 /\ \A j \in match : Len(R[j].pat) <= Len(R[i].pat)
InvFanoutLaw ==
  (IsCall /\ cfg.t = "fanout" /\ OnlyProbes(cfg.outs)) =>
     /\ Len(last.out) = Len(cfg.outs)
     /\ \A i \in DOMAIN cfg.outs :
          Cardinality({j \in DOMAIN last.out : last.out[j].p = cfg.outs[i].id /\ last.out[j].op = last.op}) = 1

(* Composition: the outermost layer of a stack, then the rest of the stack *)
InvCompose ==
  (IsCall /\ cfg.t = "stack" /\ Len(cfg.layers) >= 1) =>
     LET k == Len(cfg.layers)
         top == [t |-> "stack", base |-> [t |-> "probe", id |-> -1], layers |-> <<cfg.layers[k]>>]
         rest == [t |-> "stack", base |-> cfg.base, layers |-> SubSeq(cfg.layers, 1, k - 1)]
         mid == Run(top, last.op, [p \in {-1} |-> 0]).dl          \* what the outermost layer alone lets through
         below == FlattenSeq([i \in DOMAIN mid |-> Run(rest, mid[i].op, regs).dl])
     IN BagOfSeq([i \in DOMAIN below |-> <<below[i].p, below[i].op>>]) = OutBag

(* handles: a register call returns a handle that reaches exactly the probe handles created by
   that call; an update through it reaches each of them exactly once (noop when there is none) *)
RECURSIVE Leaves(_)
Leaves(h) == CASE h.t = "noop" -> <<>>
               [] h.t = "leaf" -> << <<h.p, h.hid>> >>
               [] h.t = "fan"  -> FlattenSeq([j \in DOMAIN h.hs |-> Leaves(h.hs[j])])
InvHandleTargets ==
  last.o = "register" =>
     /\ BagOfSeq(Leaves(last.h)) = BagOfSeq([i \in DOMAIN last.out |-> <<last.out[i].p, last.out[i].hid>>])
     /\ \A i \in DOMAIN last.out : \A j \in DOMAIN last.out : i # j => last.out[i].p # last.out[j].p \/ last.out[i].hid # last.out[j].hid
InvUpdateOnce ==
  last.o = "update" =>
     LET tg == Leaves(handles[last.i].h)
         times == IF last.u.u = "record_many" THEN last.u.n ELSE 1
         what == IF last.u.u = "record_many" THEN "record" ELSE last.u.u
     IN /\ Len(last.out) = times * Len(tg)
        /\ \A t \in DOMAIN tg :
             Cardinality({j \in DOMAIN last.out : last.out[j] = [p |-> tg[t][1], hid |-> tg[t][2], u |-> what, v |-> last.u.v]}) = times

(* Builders: every product of layer() behaves according to the configuration of its builder AT THE MOMENT of that
   layer() call -- stated over the history of calls alone: patterns = those given at creation plus every add_pattern
   before the call; case_insensitive / use_dfa = the argument of the latest such call before it (defaults otherwise);
   products made earlier keep what they had. *)
NewIdx(h, b) == CHOOSE k \in DOMAIN h : /\ h[k].c \in {"new_filter", "new_default", "new_prefix"}
                                        /\ Cardinality({j \in 1..k : h[j].c \in {"new_filter", "new_default", "new_prefix"}}) = b
LawSnap(h, k) ==      \* h[k] is a layer call
  LET b == h[k].b
      n == h[NewIdx(h, b)]
      before(what) == {j \in 1..(k - 1) : h[j].c = what /\ h[j].b = b}
      latest(what, dflt) == IF before(what) = {} THEN dflt
                            ELSE h[CHOOSE j \in before(what) : \A j2 \in before(what) : j2 <= j].x
      added == SetToSortSeq(before("add"), LAMBDA x, y : x < y)
  IN IF n.c = "new_prefix" THEN [t |-> "prefix", p |-> n.p]
     ELSE [t |-> "filter",
           pats |-> (IF n.c = "new_filter" THEN n.pats ELSE <<>>) \o [i \in DOMAIN added |-> h[added[i]].p],
           ci |-> latest("ci", FALSE), dfa |-> latest("dfa", n.c = "new_filter")]
LawMade(h) ==
  LET step(m, k) == IF h[k].c # "layer" THEN m
                    ELSE IF h[k].onto = 0 THEN Append(m, FreshStack(Len(m) + 1, LawSnap(h, k)))
                    ELSE [m EXCEPT ![h[k].onto] = PushLayer(@, LawSnap(h, k))]
  IN FoldLeft(step, <<>>, [k \in DOMAIN h |-> k])
InvBuilder == /\ made = LawMade(hist)
              /\ (cfg.t # "none" /\ hist # <<>>) => cfg = [t |-> "fanout", outs |-> LawMade(hist)]

TypeOK ==
  /\ Len(hist) <= MaxHist
  /\ cfg.t = "none" \/ WellFormed(cfg)
  /\ ncalls \in 0..MaxCalls /\ nupd \in 0..MaxUpdates
  /\ last.o \in {"none", "configure", "describe", "register", "update"}
  /\ Len(handles) <= MaxCalls
=============================================================================
