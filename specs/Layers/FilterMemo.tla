----------------------------- MODULE FilterMemo -----------------------------
(* C13, concurrency: every layer is a Sync Recorder called from many threads  *)
(* at once.  Layers.tla states (InvPure) that what a call delivers is a pure   *)
(* function of (configuration, call): a layer keeps no state that one call     *)
(* could leave behind for another, hence concurrent calls cannot influence     *)
(* each other and any interleaving delivers the sum of the per-call results.   *)
(* This module is the smallest concurrent model of that statement for Filter:  *)
(* several callers register keys through ONE filter, each call being           *)
(*   FilterMemoTwoCells = FALSE: scan the own name (automaton.is_match), deliver *)
(*   FilterMemoTwoCells = TRUE (witness, must be rejected): a "last decision"  *)
(*     memo kept in two separately written cells (hash, state):                *)
(*       state := load; if state # empty and hash-load = own hash: use state   *)
(*       else scan; state := empty; hash := own; state := decision             *)
(* Property OwnKey: every call is delivered according to its own key.          *)
EXTENDS Naturals, FiniteSets
CONSTANTS Callers, Keys, DropKeys, NCalls, FilterMemoTwoCells
ASSUME DropKeys \subseteq Keys

VARIABLES mstate,   \* memo cell 1: "empty" | "pass" | "drop"
          mhash,    \* memo cell 2: key whose decision is (supposed to be) in mstate
          pc, key, st, dec, n,
          done      \* completed calls [c, i, key, dropped]
vars == <<mstate, mhash, pc, key, st, dec, n, done>>

Drop(k) == k \in DropKeys      \* the pure decision: name contains one of the patterns

Init == /\ mstate = "empty" /\ mhash = "none"
        /\ pc = [c \in Callers |-> "idle"] /\ key = [c \in Callers |-> "none"]
        /\ st = [c \in Callers |-> "empty"] /\ dec = [c \in Callers |-> FALSE]
        /\ n = [c \in Callers |-> 0] /\ done = {}

Goto(c, l) == pc' = [pc EXCEPT ![c] = l]
Begin(c, k) == /\ pc[c] = "idle" /\ n[c] < NCalls
               /\ key' = [key EXCEPT ![c] = k]
               /\ Goto(c, IF FilterMemoTwoCells THEN "ld_state" ELSE "scan")
               /\ UNCHANGED <<mstate, mhash, st, dec, n, done>>
LdState(c) == /\ pc[c] = "ld_state"
              /\ st' = [st EXCEPT ![c] = mstate]
              /\ Goto(c, IF mstate # "empty" THEN "ld_hash" ELSE "scan")
              /\ UNCHANGED <<mstate, mhash, key, dec, n, done>>
LdHash(c) == /\ pc[c] = "ld_hash"
             /\ IF mhash = key[c]
                THEN dec' = [dec EXCEPT ![c] = (st[c] = "drop")] /\ Goto(c, "deliver")
                ELSE UNCHANGED dec /\ Goto(c, "scan")
             /\ UNCHANGED <<mstate, mhash, key, st, n, done>>
Scan(c) == /\ pc[c] = "scan"
           /\ dec' = [dec EXCEPT ![c] = Drop(key[c])]
           /\ Goto(c, IF FilterMemoTwoCells THEN "st_empty" ELSE "deliver")
           /\ UNCHANGED <<mstate, mhash, key, st, n, done>>
StEmpty(c) == pc[c] = "st_empty" /\ mstate' = "empty" /\ Goto(c, "st_hash") /\ UNCHANGED <<mhash, key, st, dec, n, done>>
StHash(c) == pc[c] = "st_hash" /\ mhash' = key[c] /\ Goto(c, "st_state") /\ UNCHANGED <<mstate, key, st, dec, n, done>>
StState(c) == /\ pc[c] = "st_state" /\ mstate' = (IF dec[c] THEN "drop" ELSE "pass") /\ Goto(c, "deliver")
              /\ UNCHANGED <<mhash, key, st, dec, n, done>>
Deliver(c) == /\ pc[c] = "deliver"      \* dropped: return Counter::noop(); else inner.register_*(key)
              /\ done' = done \cup {[c |-> c, i |-> n[c], key |-> key[c], dropped |-> dec[c]]}
              /\ n' = [n EXCEPT ![c] = @ + 1] /\ Goto(c, "idle")
              /\ UNCHANGED <<mstate, mhash, key, st, dec>>
DoBegin == \E c \in Callers, k \in Keys : Begin(c, k)
DoLdState == \E c \in Callers : LdState(c)
DoLdHash == \E c \in Callers : LdHash(c)
DoScan == \E c \in Callers : Scan(c)
DoStEmpty == \E c \in Callers : StEmpty(c)
DoStHash == \E c \in Callers : StHash(c)
DoStState == \E c \in Callers : StState(c)
DoDeliver == \E c \in Callers : Deliver(c)
Next == DoBegin \/ DoLdState \/ DoLdHash \/ DoScan \/ DoStEmpty \/ DoStHash \/ DoStState \/ DoDeliver
Spec == Init /\ [][Next]_vars

(* every call is delivered according to its own key *)
OwnKey == \A d \in done : d.dropped = Drop(d.key)
TypeOK == /\ mstate \in {"empty", "pass", "drop"} /\ mhash \in Keys \cup {"none"}
          /\ \A c \in Callers : n[c] \in 0..NCalls
=============================================================================
