SPECIFICATION Spec
CONSTANTS
 Mode = "filter"
 Alpha = {97, 65, 46}
 NameAlpha = {97, 65, 46}
 MaxName = 3
 MaxPat = 2
 MaxPats = 2
 MaxRoutes = 2
 MaxDepth = 2
 MaskSet = {"c", "all"}
 KindSet = {"c"}
 DfaSet = {TRUE}
 PerOp = "both"
 MaxCalls = 1
 MaxUpdates = 1
 Configs <- MCConfigs
 OpsOf <- MCOpsOf
 UpdatesOf <- MCUpdatesOf
INVARIANTS TypeOK InvDeliveries InvPrefixLaw InvFilterLaw InvRouterLaw InvFanoutLaw InvCompose InvHandleTargets InvUpdateOnce
CHECK_DEADLOCK FALSE
