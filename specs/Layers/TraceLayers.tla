---------------------------- MODULE TraceLayers ----------------------------
(* Trace validation for C13: every line of the ndjson trace written by        *)
(* harness/src/bin/c13.rs is one public call on the real layer stack together  *)
(* with what every probe recorder received for it ("got").  The call is taken  *)
(* with the action of Layers.tla on the logged configuration / arguments, and  *)
(* the deliveries computed by the specification must equal the observed ones   *)
(* as bags (per recorder, per handle).  All law invariants of Layers.tla are   *)
(* evaluated in every state (i.e. on the logged names, incl. non-ASCII).       *)
EXTENDS Layers, Json, IOUtils, TLCExt
VARIABLE l
Rec == ndJsonDeserialize(IOEnv.TRACE)
tvars == <<vars, l>>

E == Rec[l]
Step == l' = l + 1

NoConfigs == {}
NoOps(c) == {}
NoUpdates(k) == {}
NoBuilderCalls(bs, md) == {}
CallOf(e) == [c |-> e.c, b |-> e.b, p |-> e.p, pats |-> e.pats, x |-> e.x, onto |-> e.onto]
Fresh == blds' = <<>> /\ made' = <<>> /\ hist' = <<>>

DescOp(e) == [o |-> "describe", kind |-> e.kind, name |-> e.name, unit |-> e.unit, desc |-> e.desc]
RegOp(e) == [o |-> "register", kind |-> e.kind, name |-> e.name, labels |-> e.labels, lvl |-> e.lvl, tgt |-> e.tgt, mod |-> e.mod]

(* observed = computed, as bags; a mismatch prints what the specification expected *)
Same(expected, got) ==
  IF BagOfSeq(expected) = BagOfSeq(got) THEN TRUE
  ELSE Print(<<"MISMATCH at line", l, "expected", expected, "got", got>>, FALSE)

(* real-parallel run: several threads made the calls of `rows` through ONE shared layer tree; at quiescence the
   probes' totals (`seen`, one entry per probe / call kind / delivered name) must be exactly what the delivery
   function gives for each call, summed (purity, Layers!InvPure) *)
HammerOK(e) ==
  LET exp == HammerExpected(cfg, e.rows)
      seen == {e.seen[i] : i \in DOMAIN e.seen}
  IN IF exp = seen /\ Cardinality(seen) = Len(e.seen) THEN TRUE
     ELSE Print(<<"HAMMER MISMATCH at line", l, "missing/short", exp \ seen, "unexpected", seen \ exp>>, FALSE)

TraceNext ==
  /\ l <= Len(Rec)
  /\ CASE E.ev = "reset"    -> (IF E.cfg.t = "none"            \* start of a builder history: nothing configured yet
                                 THEN cfg' = NoCfg /\ regs' = <<>> /\ handles' = <<>> /\ last' = [o |-> "none"]
                                      /\ ncalls' = 0 /\ nupd' = 0
                                 ELSE Setup(E.cfg)) /\ Fresh /\ Step
       [] E.ev = "build"    -> Build(CallOf(E)) /\ Step           \* a call on a real FilterLayer / PrefixLayer value
       [] E.ev = "assemble" -> Assemble /\ Step                   \* the products go under one Fanout
       [] E.ev = "describe" -> Describe(DescOp(E)) /\ Step /\ Same(last'.out, E.got)
       [] E.ev = "register" -> Register(RegOp(E)) /\ Step /\ Same(last'.out, E.got) /\ E.h = Len(handles')
       [] E.ev = "update"   -> /\ E.h \in DOMAIN handles /\ handles[E.h].kind = E.kind
                               /\ Update(E.h, [u |-> E.u, v |-> E.v, n |-> E.n]) /\ Step /\ Same(last'.out, E.got)
       [] E.ev = "hammer"   -> HammerOK(E) /\ Step /\ UNCHANGED vars
       [] OTHER -> FALSE      \* panic in the code under test / unknown event: not a behaviour

TraceInit == Init /\ l = 1
TraceSpec == TraceInit /\ [][TraceNext]_tvars
TraceAccepted ==
  LET d == TLCGet("stats").diameter IN
  IF d - 1 = Len(Rec) THEN TRUE
  ELSE Print(<<"TRACE REJECTED at line", d, Rec[d]>>, FALSE)
=============================================================================
