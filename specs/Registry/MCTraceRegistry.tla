-------------------------- MODULE MCTraceRegistry --------------------------
EXTENDS TraceRegistry
\* the shard a key selects is measured on the real key and logged with every call: shardOf is not used
MC_TraceShardFns == {[c \in Classes |-> [v \in Variants |-> 0]]}
MC_NoSets == {{}}
MC_NoOps == {}
=============================================================================
