-------------------------- MODULE RegistryKeyMemo --------------------------
(***************************************************************************)
(* The assumption Registry.tla rests on, made explicit: the registry       *)
(* locates a key by the hash the key INSTANCE memoises (`Key::get_hash`:   *)
(* shard = hash & mask, raw-entry hash), so "one storage per key" needs    *)
(*     equal keys  =>  the same memoised hash,                             *)
(* also for an instance that is a clone taken at any moment of another     *)
(* thread's first hashing of a shared, lazily hashed key                   *)
(* (Key::from_static_name / from_static_parts / from_static_labels: what   *)
(* the macros put into statics; hashed = FALSE, hash = 0 initially).       *)
(*                                                                         *)
(* Composition of Registry.tla with the memo of ONE shared lazily hashed   *)
(* key of class SharedClass (metrics/src/key.rs, one action per atomic     *)
(* operation, as in specs/KeyOrder/KeyHashMemo.tla):                       *)
(*   users    call the registry with the shared key: get_hash() =          *)
(*            hashed.load; true -> hash.load | false -> hash.store(H);     *)
(*            hashed.store(true)                                           *)
(*   cloners  clone the shared key (as coded: hashed.load then hash.load), *)
(*            and call the registry with their private copy, whose         *)
(*            get_hash() returns the copied value if the copied flag is    *)
(*            set and computes H otherwise                                 *)
(* The location a key instance selects is Loc(h): the class's shard if its *)
(* memoised hash h is H (= 1), shard 0 (= 0 & mask) if it is 0.            *)
(*                                                                         *)
(* CloneMayMemoiseZero = TRUE is a witness-only variant: Clone loads       *)
(* `hash` BEFORE `hashed`; a clone can then carry hashed = TRUE with       *)
(* hash = 0 for ever and the registry creates a second storage.            *)
(***************************************************************************)
EXTENDS Registry
CONSTANTS CloneMayMemoiseZero, SharedClass, SharedKind, Users, Cloners

VARIABLES khashed, khash,  \* the shared key's atomics
          kpc,             \* per thread: where it is in get_hash / clone, or "ready" (hash of its instance known)
          ch, cv,          \* per cloner: the copy's flag / value
          eh               \* per thread: the hash its instance returned from get_hash (0 or 1 = H)
kvars == <<khashed, khash, kpc, ch, cv, eh>>
allvars == <<vars, kvars>>

KInit ==
  /\ Init
  /\ khashed = FALSE /\ khash = 0
  /\ kpc = [t \in Threads |-> IF t \in Users THEN "lh" ELSE "c1"]
  /\ ch = [t \in Threads |-> FALSE] /\ cv = [t \in Threads |-> 0]
  /\ eh = [t \in Threads |-> 1]

ULoadHashed(t) ==
  /\ t \in Users /\ kpc[t] = "lh" /\ Idle(t)
  /\ kpc' = [kpc EXCEPT ![t] = IF khashed THEN "lv" ELSE "sv"]
  /\ UNCHANGED <<vars, khashed, khash, ch, cv, eh>>
ULoadHash(t) ==
  /\ kpc[t] = "lv"
  /\ eh' = [eh EXCEPT ![t] = khash] /\ kpc' = [kpc EXCEPT ![t] = "ready"]
  /\ UNCHANGED <<vars, khashed, khash, ch, cv>>
UStoreHash(t) ==
  /\ kpc[t] = "sv"
  /\ khash' = 1 /\ kpc' = [kpc EXCEPT ![t] = "sh"]
  /\ UNCHANGED <<vars, khashed, ch, cv, eh>>
UStoreHashed(t) ==
  /\ kpc[t] = "sh"
  /\ khashed' = TRUE
  /\ eh' = [eh EXCEPT ![t] = 1] /\ kpc' = [kpc EXCEPT ![t] = "ready"]
  /\ UNCHANGED <<vars, khash, ch, cv>>

\* first load of Clone
Clone1(t) ==
  /\ t \in Cloners /\ kpc[t] = "c1"
  /\ IF CloneMayMemoiseZero THEN cv' = [cv EXCEPT ![t] = khash] /\ UNCHANGED ch
                            ELSE ch' = [ch EXCEPT ![t] = khashed] /\ UNCHANGED cv
  /\ kpc' = [kpc EXCEPT ![t] = "c2"]
  /\ UNCHANGED <<vars, khashed, khash, eh>>
\* second load of Clone, then get_hash() on the private copy
Clone2(t) ==
  /\ t \in Cloners /\ kpc[t] = "c2"
  /\ IF CloneMayMemoiseZero THEN ch' = [ch EXCEPT ![t] = khashed] /\ UNCHANGED cv
                            ELSE cv' = [cv EXCEPT ![t] = khash] /\ UNCHANGED ch
  /\ eh' = [eh EXCEPT ![t] = IF ch'[t] THEN cv'[t] ELSE 1]
  /\ kpc' = [kpc EXCEPT ![t] = "ready"]
  /\ UNCHANGED <<vars, khashed, khash>>

Loc(h) == IF h = 1 THEN shardOf[SharedClass][CHOOSE v \in Variants : TRUE] ELSE 0

\* a registry call with the thread's key instance; a user's next call hashes the shared key again
Use(t) ==
  /\ kpc[t] = "ready"
  /\ \/ GocRead(t, SharedKind, SharedClass, 0, Loc(eh[t]))
     \/ Get(t, SharedKind, SharedClass, 0, Loc(eh[t]))
     \/ Delete(t, SharedKind, SharedClass, 0, Loc(eh[t]))
  /\ kpc' = [kpc EXCEPT ![t] = IF t \in Users THEN "lh" ELSE "ready"]
  /\ UNCHANGED <<khashed, khash, ch, cv, eh>>
KGocWrite(t) == GocWrite(t) /\ UNCHANGED kvars

KNext == \E t \in Threads : \/ ULoadHashed(t) \/ ULoadHash(t) \/ UStoreHash(t) \/ UStoreHashed(t)
                            \/ Clone1(t) \/ Clone2(t) \/ Use(t) \/ KGocWrite(t)
KSpec == KInit /\ [][KNext]_allvars

\* the contract: every instance of the (equal) keys memoises the same hash
MemoContract == \A t \in Threads : kpc[t] = "ready" => eh[t] = 1
MemoOK == khashed => khash = 1
=============================================================================
