------------------------- MODULE MCRegistryKeyMemo -------------------------
EXTENDS RegistryKeyMemo
\* the shared key's class selects the last shard (so that hash 0 selects another one)
MC_ShardFnsLast == {[c \in Classes |-> [v \in Variants |-> NShards - 1]]}
MC_NoSets == {{}}
MC_NoOps == {}
MC_KView == <<shardOf, shards, nextId, pc, cur, nops, lastGoc, bad, kvars>>
=============================================================================
