--------------------------- MODULE TraceRegistry ---------------------------
(* A recorded run of the real metrics_util::registry::Registry (harness     *)
(* c06, ProbeStorage numbering every storage it constructs) must be a       *)
(* behaviour of Registry.tla.                                               *)
(*                                                                          *)
(* Scheduled runs: exactly one thread runs between two `.pre` lines (grants *)
(* of the deterministic scheduler), so the line order is the real order.    *)
(* A `.pre` line is the specification's action for the critical section the *)
(* granted thread enters next; that step also fixes everything the thread   *)
(* will observe until its next yield (`exp`), and every following `.post`   *)
(* line of the thread must be exactly the next expected observation:        *)
(*   op.new.post  [kind, class, id]  ProbeStorage constructed storage `id`  *)
(*   op.run.post  [id]               the `op` closure ran on storage `id`   *)
(*   op.done.post d                  the call returned d                    *)
(* Held-lock runs: a visit_* callback / retain_* predicate parks inside the  *)
(* last non-empty shard of its kind (`hold.enter`: the walk up to that shard *)
(* happened, its lock is held) while a second thread calls the registry;    *)
(* the calls of the second thread that completed before the driver let the  *)
(* parked thread go (`hold.release`) are logged before that line, the others *)
(* after it (two active threads, the parked one changes nothing any more:   *)
(* both placements are exact).  A call logged before `hold.release` must be *)
(* enabled while the lock is held: clear() / retain / delete / insert on a  *)
(* locked shard cannot have returned.                                       *)
(* Clone runs: the scheduler also yields at the points inside Key::get_hash  *)
(* (`key.*.pre`), so a call announced by `op.begin.pre` with d.lin = TRUE    *)
(* takes effect at the LAST yield of its get_hash (`key.hash.load.pre` on    *)
(* the memoised path, `key.hashed.store.pre` on the first-use path): after   *)
(* that grant the thread runs straight into the shard's critical section.    *)
(* `op.clone.pre` / `op.cloned.post` are the clone of a shared lazily hashed *)
(* key (atomic between two grants) and the hash the copy then returns.       *)
(* Real-parallel trials (`free`, `clonefree`) have no total order: schedule- *)
(* independent facts only (FreeOK, CloneFreeOK).                             *)
EXTENDS Registry, Json, IOUtils, TLCExt
VARIABLES l, exp, pend
Rec == ndJsonDeserialize(IOEnv.TRACE)
tvars == <<vars, l, exp, pend>>
NoPend == [op |-> "none"]
Ev == Rec[l].ev
P == Rec[l].p
A == Rec[l].a
D == Rec[l].d
Go(e) == l' = l + 1 /\ exp' = e /\ UNCHANGED pend
GoP(e, pn) == l' = l + 1 /\ exp' = e /\ pend' = pn
Obs(cond) == cond /\ Go(exp) /\ UNCHANGED vars

Reset ==
  /\ shards' = [k \in Kinds |-> [s \in Shards |-> {}]]
  /\ nextId' = 1
  /\ pc' = [t \in Threads |-> "idle"]
  /\ cur' = [t \in Threads |-> NoCur]
  /\ nops' = [t \in Threads |-> 0]
  /\ res' = [t \in Threads |-> NoRes]
  /\ owner' = <<>>
  /\ lastGoc' = [k \in Kinds |-> [c \in Classes |-> 0]]
  /\ bad' = {}
  /\ UNCHANGED shardOf

SeqSet(q) == {q[i] : i \in DOMAIN q}
Pairs(q) == {<<q[i][1], q[i][2]>> : i \in DOMAIN q}
\* a listing reports exactly the entries of `set`, each once
ListEq(q, set) == Len(q) = Cardinality(set) /\ Pairs(q) = set

\* expected observations: <<tag, thread, payload>>
XNew(t, r)  == <<"new", t, <<r.k, r.c, r.id>>>>
XRun(t, r)  == <<"run", t, <<r.id>>>>
XDone(t, r) == <<"done", t, r>>
AfterYield(t, r) == (IF r.new THEN <<XNew(t, r)>> ELSE <<>>) \o <<XRun(t, r), XDone(t, r)>>

DoneMatches(r, d) ==
  /\ d.op = r.op
  /\ CASE r.op \in {"goc", "get"}         -> d.id = r.id
       [] r.op = "del"                     -> d.ex = r.ex
       [] r.op \in {"visit", "handles"}    -> ListEq(d.list, r.list)
       [] r.op = "retain"                  -> Pairs(d.list) = r.list   \* entries the predicate was called on
       [] r.op = "clear"                   -> TRUE
       [] OTHER                            -> FALSE

Expect(tag, payload) ==
  /\ exp # <<>>
  /\ Head(exp)[1] = tag /\ Head(exp)[2] = P
  /\ Head(exp)[3] = payload
  /\ Go(Tail(exp)) /\ UNCHANGED vars

BeginWith(d) ==
  /\ exp = <<>>
  /\ d.heq                           \* the key hashes like the canonical key of its class (hash contract observed)
  /\ d.s \in Shards
  /\ CASE d.op = "goc" -> /\ GocRead(P, d.k, d.c, d.v, d.s)
                          /\ exp' = (IF pc'[P] = "gap" THEN <<>> ELSE AfterYield(P, res'[P]))
       [] d.op = "get" -> Get(P, d.k, d.c, d.v, d.s) /\ exp' = <<XDone(P, res'[P])>>
       [] d.op = "del" -> Delete(P, d.k, d.c, d.v, d.s) /\ exp' = <<XDone(P, res'[P])>>
       [] d.op \in {"visit", "handles", "clear"} -> ScanAll(P, d.op, d.k, {}) /\ exp' = <<XDone(P, res'[P])>>
       [] d.op = "retain" -> ScanAll(P, "retain", d.k, SeqSet(d.keep)) /\ exp' = <<XDone(P, res'[P])>>
       [] OTHER -> FALSE
  /\ l' = l + 1

Linearized(d) == "lin" \in DOMAIN d /\ d.lin
\* a call is announced; it takes effect here, or (d.lin) at the last yield point of its get_hash
Begin ==
  IF Linearized(D)
  THEN exp = <<>> /\ pend[P].op = "none" /\ GoP(<<>>, [pend EXCEPT ![P] = D]) /\ UNCHANGED vars
  ELSE BeginWith(D) /\ UNCHANGED pend
\* the last yield of get_hash: the announced call enters the registry's critical section
KeyLast ==
  IF pend[P].op = "none" THEN Obs(exp = <<>>)
  ELSE BeginWith(pend[P]) /\ pend' = [pend EXCEPT ![P] = NoPend]

Triples(q) == {<<q[i][1], q[i][2], q[i][3]>> : i \in DOMAIN q}
CountKC(q, kc) == Cardinality({i \in DOMAIN q : q[i][1] = kc[1] /\ q[i][2] = kc[2]})
OncePerKey(q) == \A i, j \in DOMAIN q : (q[i][1] = q[j][1] /\ q[i][2] = q[j][2]) => i = j
\* real-parallel trial: what holds for every schedule.  cons = storages constructed <<kind, class, id>>,
\* seen = what get_or_create / get operated on, dels = successful deletes <<kind, class>>, rets = entries a retain
\* predicate rejected, visits = concurrent listings, final / finalh = visit / handle listings at quiescence.
FreeOK(r) ==
  LET cons == Triples(r.cons)
      KC == {<<x[1], x[2]>> : x \in cons \cup Triples(r.final)} \cup Pairs(r.dels) \cup {<<x[1], x[2]>> : x \in Triples(r.rets)}
  IN /\ r.mism = 0                                                  \* value returned = storage `op` ran on
     /\ Cardinality({r.cons[i][3] : i \in DOMAIN r.cons}) = Len(r.cons)
     /\ Triples(r.seen) \subseteq cons                              \* only storages constructed for that (kind, key)
     /\ Triples(r.final) \subseteq cons /\ OncePerKey(r.final)
     /\ Triples(r.finalh) = Triples(r.final) /\ Len(r.finalh) = Len(r.final)
     /\ Triples(r.rets) \subseteq cons
     /\ Cardinality({r.rets[i][3] : i \in DOMAIN r.rets}) = Len(r.rets)
     \* every storage constructed was inserted once and left the map at most once:
     /\ \A kc \in KC : CountKC(r.cons, kc) = CountKC(r.dels, kc) + CountKC(r.rets, kc) + CountKC(r.final, kc)
     /\ \A vi \in DOMAIN r.visits : Triples(r.visits[vi]) \subseteq cons /\ OncePerKey(r.visits[vi])

\* real-parallel clone trial: one registering thread uses fresh, lazily hashed shared keys, cloning threads copy each
\* key while it is being hashed for the first time and use their copies; quiescent facts
CloneFreeOK(r) ==
  /\ r.hash_mismatch = 0            \* every copy memoises the hash of the original (the contract the registry rests on)
  /\ r.storages = r.keys /\ r.dup_keys = 0      \* visit: every key exactly once
  /\ r.handles = r.keys
  /\ r.cons = r.keys                \* exactly one storage constructed per key
  /\ r.incr_visible = r.incr_made   \* every increment (through the original or a copy) reached the original's storage
  /\ r.clone_get_mismatch = 0       \* get through a copy = get through the original
  /\ r.clone_delete_false = 0 /\ r.left_after_delete = 0   \* delete through a copy removes the entry

TraceNext ==
  /\ l <= Len(Rec)
  /\ CASE Ev = "reset"        -> D.nshards = NShards /\ D.keys_ok /\ Reset /\ GoP(<<>>, [t \in Threads |-> NoPend])
       [] Ev = "start.pre"    -> Obs(exp = <<>>)
       [] Ev = "op.begin.pre" -> Begin
       [] Ev = "reg.gap.pre"  -> exp = <<>> /\ GocWrite(P) /\ Go(AfterYield(P, res'[P]))
       [] Ev = "op.new.post"  -> Expect("new", <<A[1], A[2], A[3]>>)
       [] Ev = "op.run.post"  -> Expect("run", <<A[1]>>)
       [] Ev = "op.done.post" -> /\ exp # <<>> /\ Head(exp)[1] = "done" /\ Head(exp)[2] = P
                                 /\ DoneMatches(Head(exp)[3], D)
                                 /\ Go(Tail(exp)) /\ UNCHANGED vars
       [] Ev \in {"key.hashed.load.pre", "key.hash.store.pre"} -> Obs(exp = <<>>)
       [] Ev \in {"key.hash.load.pre", "key.hashed.store.pre"} -> KeyLast
       [] Ev = "op.clone.pre"   -> Obs(exp = <<>>)
       [] Ev = "op.cloned.post" -> Obs(exp = <<>> /\ A[1] = 1)   \* the copy returns the hash of the original
       [] Ev = "clonefree"      -> Obs(exp = <<>> /\ CloneFreeOK(D))
       [] Ev = "hold.enter"   -> \* the callback that parks was called on an entry of shard D.s, the last non-empty one
                                 /\ exp = <<>>
                                 /\ D.op \in {"visit", "retain"}
                                 /\ <<D.last[1], D.last[2]>> \in shards[D.k][D.s]
                                 /\ \A s2 \in Shards : s2 > D.s => shards[D.k][s2] = {}
                                 /\ ScanUntilHold(P, D.op, D.k, SeqSet(D.keep), D.s)
                                 /\ Go(<<>>)
       [] Ev = "hold.release" -> exp = <<>> /\ ScanFinishFrom(P) /\ Go(<<XDone(P, res'[P])>>)
       [] Ev = "final"        -> Obs(/\ exp = <<>>
                                     /\ \A t \in Threads : pc[t] = "idle" /\ pend[t].op = "none"
                                     /\ D.constructed = nextId - 1
                                     /\ \A k \in Kinds : ListEq(D.visit[k + 1], Entries(k)) /\ ListEq(D.handles[k + 1], Entries(k)))
       [] Ev = "free"         -> Obs(exp = <<>> /\ FreeOK(D))
       [] OTHER -> FALSE       \* panic / stuck / livelock / hang / unknown site

TraceInit == Init /\ l = 1 /\ exp = <<>> /\ pend = [t \in Threads |-> NoPend]
TraceSpec == TraceInit /\ [][TraceNext]_tvars
TraceAccepted ==
  LET d == TLCGet("stats").diameter IN
  IF d - 1 = Len(Rec) THEN TRUE
  ELSE Print(<<"TRACE REJECTED at line", d, Rec[d]>>, FALSE)
=============================================================================
