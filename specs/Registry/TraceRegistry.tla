--------------------------- MODULE TraceRegistry ---------------------------
(* A recorded run of the real metrics_util::registry::Registry (harness     *)
(* c06, ProbeStorage numbering every storage it constructs) must be a       *)
(* behaviour of Registry.tla.                                               *)
(*                                                                          *)
(* Scheduled runs: exactly one thread runs between two `.pre` lines (grants *)
(* of the deterministic scheduler), so the line order is the real order.    *)
(* A `.pre` line is the specification's action for the critical section the *)
(* granted thread enters next; that step also fixes everything the thread   *)
(* will observe until its next yield (`exp`), and every following `.post`   *)
(* line of the thread must be exactly the next expected observation:        *)
(*   op.new.post  [kind, class, id]  ProbeStorage constructed storage `id`  *)
(*   op.run.post  [id]               the `op` closure ran on storage `id`   *)
(*   op.done.post d                  the call returned d                    *)
(* Held-lock runs: a visit_* callback / retain_* predicate parks inside the  *)
(* last non-empty shard of its kind (`hold.enter`: the walk up to that shard *)
(* happened, its lock is held) while a second thread calls the registry;    *)
(* the calls of the second thread that completed before the driver let the  *)
(* parked thread go (`hold.release`) are logged before that line, the others *)
(* after it (two active threads, the parked one changes nothing any more:   *)
(* both placements are exact).  A call logged before `hold.release` must be *)
(* enabled while the lock is held: clear() / retain / delete / insert on a  *)
(* locked shard cannot have returned.                                       *)
(* Real-parallel trials (`free`) have no total order: schedule-independent  *)
(* facts only (FreeOK).                                                     *)
EXTENDS Registry, Json, IOUtils, TLCExt
VARIABLES l, exp
Rec == ndJsonDeserialize(IOEnv.TRACE)
tvars == <<vars, l, exp>>
Ev == Rec[l].ev
P == Rec[l].p
A == Rec[l].a
D == Rec[l].d
Go(e) == l' = l + 1 /\ exp' = e
Obs(cond) == cond /\ Go(exp) /\ UNCHANGED vars

Reset ==
  /\ shards' = [k \in Kinds |-> [s \in Shards |-> {}]]
  /\ nextId' = 1
  /\ pc' = [t \in Threads |-> "idle"]
  /\ cur' = [t \in Threads |-> NoCur]
  /\ nops' = [t \in Threads |-> 0]
  /\ res' = [t \in Threads |-> NoRes]
  /\ owner' = <<>>
  /\ lastGoc' = [k \in Kinds |-> [c \in Classes |-> 0]]
  /\ bad' = {}
  /\ UNCHANGED shardOf

SeqSet(q) == {q[i] : i \in DOMAIN q}
Pairs(q) == {<<q[i][1], q[i][2]>> : i \in DOMAIN q}
\* a listing reports exactly the entries of `set`, each once
ListEq(q, set) == Len(q) = Cardinality(set) /\ Pairs(q) = set

\* expected observations: <<tag, thread, payload>>
XNew(t, r)  == <<"new", t, <<r.k, r.c, r.id>>>>
XRun(t, r)  == <<"run", t, <<r.id>>>>
XDone(t, r) == <<"done", t, r>>
AfterYield(t, r) == (IF r.new THEN <<XNew(t, r)>> ELSE <<>>) \o <<XRun(t, r), XDone(t, r)>>

DoneMatches(r, d) ==
  /\ d.op = r.op
  /\ CASE r.op \in {"goc", "get"}         -> d.id = r.id
       [] r.op = "del"                     -> d.ex = r.ex
       [] r.op \in {"visit", "handles"}    -> ListEq(d.list, r.list)
       [] r.op = "retain"                  -> Pairs(d.list) = r.list   \* entries the predicate was called on
       [] r.op = "clear"                   -> TRUE
       [] OTHER                            -> FALSE

Expect(tag, payload) ==
  /\ exp # <<>>
  /\ Head(exp)[1] = tag /\ Head(exp)[2] = P
  /\ Head(exp)[3] = payload
  /\ Go(Tail(exp)) /\ UNCHANGED vars

Begin ==
  /\ exp = <<>>
  /\ D.heq                           \* the key hashes like the canonical key of its class (hash contract observed)
  /\ D.s \in Shards
  /\ CASE D.op = "goc" -> /\ GocRead(P, D.k, D.c, D.v, D.s)
                          /\ Go(IF pc'[P] = "gap" THEN <<>> ELSE AfterYield(P, res'[P]))
       [] D.op = "get" -> Get(P, D.k, D.c, D.v, D.s) /\ Go(<<XDone(P, res'[P])>>)
       [] D.op = "del" -> Delete(P, D.k, D.c, D.v, D.s) /\ Go(<<XDone(P, res'[P])>>)
       [] D.op \in {"visit", "handles", "clear"} -> ScanAll(P, D.op, D.k, {}) /\ Go(<<XDone(P, res'[P])>>)
       [] D.op = "retain" -> ScanAll(P, "retain", D.k, SeqSet(D.keep)) /\ Go(<<XDone(P, res'[P])>>)
       [] OTHER -> FALSE

Triples(q) == {<<q[i][1], q[i][2], q[i][3]>> : i \in DOMAIN q}
CountKC(q, kc) == Cardinality({i \in DOMAIN q : q[i][1] = kc[1] /\ q[i][2] = kc[2]})
OncePerKey(q) == \A i, j \in DOMAIN q : (q[i][1] = q[j][1] /\ q[i][2] = q[j][2]) => i = j
\* real-parallel trial: what holds for every schedule.  cons = storages constructed <<kind, class, id>>,
\* seen = what get_or_create / get operated on, dels = successful deletes <<kind, class>>, rets = entries a retain
\* predicate rejected, visits = concurrent listings, final / finalh = visit / handle listings at quiescence.
FreeOK(r) ==
  LET cons == Triples(r.cons)
      KC == {<<x[1], x[2]>> : x \in cons \cup Triples(r.final)} \cup Pairs(r.dels) \cup {<<x[1], x[2]>> : x \in Triples(r.rets)}
  IN /\ r.mism = 0                                                  \* value returned = storage `op` ran on
     /\ Cardinality({r.cons[i][3] : i \in DOMAIN r.cons}) = Len(r.cons)
     /\ Triples(r.seen) \subseteq cons                              \* only storages constructed for that (kind, key)
     /\ Triples(r.final) \subseteq cons /\ OncePerKey(r.final)
     /\ Triples(r.finalh) = Triples(r.final) /\ Len(r.finalh) = Len(r.final)
     /\ Triples(r.rets) \subseteq cons
     /\ Cardinality({r.rets[i][3] : i \in DOMAIN r.rets}) = Len(r.rets)
     \* every storage constructed was inserted once and left the map at most once:
     /\ \A kc \in KC : CountKC(r.cons, kc) = CountKC(r.dels, kc) + CountKC(r.rets, kc) + CountKC(r.final, kc)
     /\ \A vi \in DOMAIN r.visits : Triples(r.visits[vi]) \subseteq cons /\ OncePerKey(r.visits[vi])

TraceNext ==
  /\ l <= Len(Rec)
  /\ CASE Ev = "reset"        -> D.nshards = NShards /\ D.keys_ok /\ Reset /\ Go(<<>>)
       [] Ev = "start.pre"    -> Obs(exp = <<>>)
       [] Ev = "op.begin.pre" -> Begin
       [] Ev = "reg.gap.pre"  -> exp = <<>> /\ GocWrite(P) /\ Go(AfterYield(P, res'[P]))
       [] Ev = "op.new.post"  -> Expect("new", <<A[1], A[2], A[3]>>)
       [] Ev = "op.run.post"  -> Expect("run", <<A[1]>>)
       [] Ev = "op.done.post" -> /\ exp # <<>> /\ Head(exp)[1] = "done" /\ Head(exp)[2] = P
                                 /\ DoneMatches(Head(exp)[3], D)
                                 /\ Go(Tail(exp)) /\ UNCHANGED vars
       [] Ev = "hold.enter"   -> \* the callback that parks was called on an entry of shard D.s, the last non-empty one
                                 /\ exp = <<>>
                                 /\ D.op \in {"visit", "retain"}
                                 /\ <<D.last[1], D.last[2]>> \in shards[D.k][D.s]
                                 /\ \A s2 \in Shards : s2 > D.s => shards[D.k][s2] = {}
                                 /\ ScanUntilHold(P, D.op, D.k, SeqSet(D.keep), D.s)
                                 /\ Go(<<>>)
       [] Ev = "hold.release" -> exp = <<>> /\ ScanFinishFrom(P) /\ Go(<<XDone(P, res'[P])>>)
       [] Ev = "final"        -> Obs(/\ exp = <<>>
                                     /\ \A t \in Threads : pc[t] = "idle"
                                     /\ D.constructed = nextId - 1
                                     /\ \A k \in Kinds : ListEq(D.visit[k + 1], Entries(k)) /\ ListEq(D.handles[k + 1], Entries(k)))
       [] Ev = "free"         -> Obs(exp = <<>> /\ FreeOK(D))
       [] OTHER -> FALSE       \* panic / stuck / livelock / hang / unknown site

TraceInit == Init /\ l = 1 /\ exp = <<>>
TraceSpec == TraceInit /\ [][TraceNext]_tvars
TraceAccepted ==
  LET d == TLCGet("stats").diameter IN
  IF d - 1 = Len(Rec) THEN TRUE
  ELSE Print(<<"TRACE REJECTED at line", d, Rec[d]>>, FALSE)
=============================================================================
