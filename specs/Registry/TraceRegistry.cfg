SPECIFICATION TraceSpec
CONSTANTS
 Threads = {1,2,3,4,5,6,7,8}
 NKinds = 3
 Classes = {1,2,3,4,5,6,7,8,9,10,11,12}
 Variants = {0,1,2,3,4,5,6,7}
 NShards = 16
 ShardFns <- MC_TraceShardFns
 MaxOps = 1000000
 KeepSets <- MC_NoSets
 OpKinds <- MC_NoOps
 Recheck = TRUE
 ClearSkipsBusy = FALSE
INVARIANTS TypeOK AtMostOne SameStorage NoSharing LookupComplete DeleteTruthful ListingExact RemovalExact
POSTCONDITION TraceAccepted
CHECK_DEADLOCK FALSE
