--------------------------- MODULE MCSimRegistry ---------------------------
EXTENDS SimRegistry
Lift(g) == [c \in Classes |-> [v \in Variants |-> g[c]]]
MinClass == CHOOSE c \in Classes : \A d \in Classes : c <= d
MC_ShardFns == {Lift(g) : g \in {h \in [Classes -> Shards] : h[MinClass] = 0}}
MC_KeepAll == SUBSET Classes
MC_OpsAll == {"goc", "get", "del", "visit", "handles", "retain", "clear"}
MC_OpsRace == {"goc", "del"}
\* sequential histories: every kind of call
MC_WSeq == <<"goc", "goc", "goc", "goc", "get", "get", "del", "del", "visit", "handles", "retain", "retain", "clear">>
\* races: mostly creators and deleters
MC_WRace == <<"goc", "goc", "goc", "goc", "goc", "del", "del", "del", "get", "visit", "retain", "clear">>
MC_WNone == <<>>
=============================================================================
