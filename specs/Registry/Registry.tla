------------------------------ MODULE Registry ------------------------------
(***************************************************************************)
(* metrics-util/src/registry/mod.rs -- Registry<K, S>.                     *)
(*                                                                         *)
(* Per metric kind the registry is a vector of NShards shards, each a      *)
(* RwLock<HashMap<K, S::X>>.  A key is looked up in the shard selected by  *)
(* `key.get_hash() & mask` and, inside that hash map, by hash and `==`     *)
(* (raw entry API, from_key_hashed_nocheck).                               *)
(*                                                                         *)
(* A key is a pair (equality class c, construction variant v): keys of one *)
(* class are `==`, keys of different classes are not.  The shard a concrete*)
(* key selects is a parameter `s` of the actions (in the exhaustive runs   *)
(* `s = shardOf[c][v]`, in trace validation the value measured on the real *)
(* key): that equal keys select the same shard is the hash contract the    *)
(* property rests on, and it is visible here as a premise.                 *)
(*                                                                         *)
(* Actions = critical sections of the code:                                *)
(*   GocRead   get_or_create_*: shard.read(): hit -> run `op` on the entry *)
(*             (under the read lock); miss -> drop the guard ("gap")       *)
(*   GocWrite  shard.write(): re-check; hit -> op(existing); miss ->       *)
(*             storage.x(key) constructs a fresh storage, insert, op(new)  *)
(*   Get       get_*:    read lock, clone of the entry or None             *)
(*   Delete    delete_*: write lock, remove, returns whether it existed    *)
(*   ScanStart/ScanStep  visit_* / get_*_handles / retain_* / clear walk   *)
(*             the shards one lock at a time (clear: counters, gauges,     *)
(*             histograms) -- weakly consistent under concurrency, exact   *)
(*             when nobody else modifies the registry meanwhile            *)
(*   ScanAll   the same walk as one step (no other thread can run inside:  *)
(*             used where the walk is not interleaved -- TLC-generated     *)
(*             schedules and validation of recorded runs)                  *)
(*                                                                         *)
(* Storage ids are handed out in construction order (nextId), exactly as   *)
(* the harness' ProbeStorage numbers the storages it constructs.           *)
(***************************************************************************)
EXTENDS Naturals, Sequences, FiniteSets, SequencesExt, TLC

CONSTANTS
  Threads,    \* logical processes
  NKinds,     \* metric kinds 0..NKinds-1 (0 counter, 1 gauge, 2 histogram)
  Classes,    \* key equality classes (positive integers)
  Variants,   \* construction variants of a key
  NShards,    \* shard count (power of two in the code; any number here)
  ShardFns,   \* candidate shard assignments [Classes -> [Variants -> Shards]]
  MaxOps,     \* public calls per thread
  KeepSets,   \* retain predicates: sets of classes to keep
  OpKinds,    \* which public calls the exhaustive Next uses
  Recheck     \* TRUE = the code; FALSE = negative control (no re-check under the write lock)

Kinds  == 0..(NKinds - 1)
Shards == 0..(NShards - 1)

VARIABLES
  shardOf,  \* the shard assignment of this behaviour (chosen once)
  shards,   \* [Kinds -> [Shards -> set of <<class, id>>]]   the hash maps
  nextId,   \* next storage id = 1 + number of storages constructed so far
  pc,       \* [Threads -> "idle" | "gap" | "scan"]
  cur,      \* [Threads -> the call in progress]
  nops,     \* [Threads -> calls completed]
  res,      \* [Threads -> result of the last completed call]  (what the caller observed)
  owner,    \* sequence: owner[id] = <<kind, class>> the storage was constructed for      [history]
  lastGoc,  \* [Kinds -> [Classes -> id the last get_or_create yielded since the last removal, or 0]] [history]
  bad       \* set of violation tags                                                        [history]

vars == <<shardOf, shards, nextId, pc, cur, nops, res, owner, lastGoc, bad>>

NoCur == [op |-> "none", k |-> 0, c |-> 0, s |-> 0, keep |-> {}, i |-> 0, acc |-> {}, dirty |-> FALSE,
          snap |-> {}, base |-> 0]
NoRes == [op |-> "none", k |-> 0, c |-> 0, id |-> 0, new |-> FALSE, ex |-> FALSE, list |-> {}]

Init ==
  /\ shardOf \in ShardFns
  /\ shards = [k \in Kinds |-> [s \in Shards |-> {}]]
  /\ nextId = 1
  /\ pc = [t \in Threads |-> "idle"]
  /\ cur = [t \in Threads |-> NoCur]
  /\ nops = [t \in Threads |-> 0]
  /\ res = [t \in Threads |-> NoRes]
  /\ owner = <<>>
  /\ lastGoc = [k \in Kinds |-> [c \in Classes |-> 0]]
  /\ bad = {}

-----------------------------------------------------------------------------
EntriesOf(sh, k) == UNION {sh[k][s] : s \in Shards}
Entries(k) == EntriesOf(shards, k)
\* raw_entry().from_key_hashed_nocheck(hash, key) in the shard selected by the hash
Lookup(k, s, c) == {e \in shards[k][s] : e[1] = c}
ExistsAnywhere(k, c) == \E e \in Entries(k) : e[1] = c

\* every thread other than u that is walking the shards has been disturbed
Dirty(cu, u) == [t \in Threads |-> IF t # u /\ pc[t] = "scan" THEN [cu[t] EXCEPT !.dirty = TRUE] ELSE cu[t]]

Finish(t, r) ==
  /\ res' = [res EXCEPT ![t] = r]
  /\ nops' = [nops EXCEPT ![t] = @ + 1]
  /\ pc' = [pc EXCEPT ![t] = "idle"]

Idle(t) == pc[t] = "idle" /\ nops[t] < MaxOps

\* get_or_create ran `op` on storage x; ow = owner after this step
GocYield(t, k, c, x, newly, ow) ==
  /\ Finish(t, [NoRes EXCEPT !.op = "goc", !.k = k, !.c = c, !.id = x, !.new = newly])
  /\ lastGoc' = [lastGoc EXCEPT ![k][c] = x]
  /\ bad' = bad \cup (IF lastGoc[k][c] \notin {0, x} THEN {"same"} ELSE {})
                \cup (IF ow[x] # <<k, c>> THEN {"share"} ELSE {})

GocRead(t, k, c, v, s) ==
  /\ Idle(t)
  /\ LET hit == Lookup(k, s, c) IN
     IF hit # {}
     THEN /\ \E e \in hit : GocYield(t, k, c, e[2], FALSE, owner)
          /\ UNCHANGED <<shardOf, shards, nextId, cur, owner>>
     ELSE /\ pc' = [pc EXCEPT ![t] = "gap"]
          /\ cur' = [cur EXCEPT ![t] = [NoCur EXCEPT !.op = "goc", !.k = k, !.c = c, !.s = s]]
          /\ bad' = bad \cup (IF ExistsAnywhere(k, c) THEN {"lost_goc"} ELSE {})
          /\ UNCHANGED <<shardOf, shards, nextId, nops, res, owner, lastGoc>>

GocWrite(t) ==
  /\ pc[t] = "gap"
  /\ LET k == cur[t].k
         c == cur[t].c
         s == cur[t].s
         hit == Lookup(k, s, c)
     IN IF Recheck /\ hit # {}
        THEN /\ \E e \in hit : GocYield(t, k, c, e[2], FALSE, owner)
             /\ cur' = [cur EXCEPT ![t] = NoCur]
             /\ UNCHANGED <<shardOf, shards, nextId, owner>>
        ELSE LET x == nextId
                 ow == Append(owner, <<k, c>>)
             IN /\ shards' = [shards EXCEPT ![k][s] = (@ \ hit) \cup {<<c, x>>}]
                /\ nextId' = x + 1
                /\ owner' = ow
                /\ GocYield(t, k, c, x, TRUE, ow)
                /\ cur' = Dirty([cur EXCEPT ![t] = NoCur], t)
                /\ UNCHANGED shardOf

Get(t, k, c, v, s) ==
  /\ Idle(t)
  /\ LET hit == Lookup(k, s, c) IN
     IF hit # {}
     THEN \E e \in hit :
            /\ Finish(t, [NoRes EXCEPT !.op = "get", !.k = k, !.c = c, !.id = e[2]])
            /\ bad' = bad \cup (IF owner[e[2]] # <<k, c>> THEN {"share"} ELSE {})
     ELSE /\ Finish(t, [NoRes EXCEPT !.op = "get", !.k = k, !.c = c])
          /\ bad' = bad \cup (IF ExistsAnywhere(k, c) THEN {"lost_get"} ELSE {})
  /\ UNCHANGED <<shardOf, shards, nextId, cur, owner, lastGoc>>

Delete(t, k, c, v, s) ==
  /\ Idle(t)
  /\ LET hit == Lookup(k, s, c) IN
     /\ shards' = [shards EXCEPT ![k][s] = @ \ hit]
     /\ Finish(t, [NoRes EXCEPT !.op = "del", !.k = k, !.c = c, !.ex = (hit # {})])
     /\ lastGoc' = IF hit # {} THEN [lastGoc EXCEPT ![k][c] = 0] ELSE lastGoc
     /\ cur' = IF hit # {} THEN Dirty(cur, t) ELSE cur
     /\ bad' = bad \cup (IF hit = {} /\ ExistsAnywhere(k, c) THEN {"del"} ELSE {})
  /\ UNCHANGED <<shardOf, nextId, owner>>

-----------------------------------------------------------------------------
(* visit_* / get_*_handles / retain_* / clear: one shard lock at a time.    *)
ScanSeq(op, k) ==
  IF op = "clear"
  THEN [j \in 1..(NKinds * NShards) |-> <<(j - 1) \div NShards, (j - 1) % NShards>>]
  ELSE [j \in 1..NShards |-> <<k, j - 1>>]

\* what happens to the shards `sh` while shard s of kind kk is locked
ShardScan(sh, op, kk, s, keep) ==
  LET here == sh[kk][s]
      removed == CASE op = "retain" -> {e \in here : e[1] \notin keep}
                   [] op = "clear"  -> here
                   [] OTHER         -> {}
  IN [sh |-> [sh EXCEPT ![kk][s] = here \ removed],
      seen |-> IF op = "clear" THEN {} ELSE here,            \* entries handed to the callback / predicate
      removed |-> {<<kk, e[1]>> : e \in removed}]

ForgetRemoved(removed) ==
  [k \in Kinds |-> [c \in Classes |-> IF <<k, c>> \in removed THEN 0 ELSE lastGoc[k][c]]]

\* verdict at the end of a walk described by cu, having seen `acc`, leaving the shards `sh2`
ScanVerdict(cu, acc, sh2) ==
  CASE cu.op \in {"visit", "handles"} ->
         (IF ~cu.dirty /\ acc # EntriesOf(sh2, cu.k) THEN {"visit"} ELSE {})
         \cup (IF \E e1, e2 \in acc : e1 # e2 /\ e1[1] = e2[1] THEN {"once"} ELSE {})
    [] cu.op = "retain" ->
         (IF ~cu.dirty /\ EntriesOf(sh2, cu.k) # {e \in cu.snap : e[1] \in cu.keep} THEN {"retain"} ELSE {})
         \cup (IF ~cu.dirty /\ acc # cu.snap THEN {"retain_seen"} ELSE {})
         \cup (IF \E e \in EntriesOf(sh2, cu.k) : e[1] \notin cu.keep /\ e[2] < cu.base THEN {"retain_old"} ELSE {})
    [] cu.op = "clear" ->
         (IF ~cu.dirty /\ \E k \in Kinds : EntriesOf(sh2, k) # {} THEN {"clear"} ELSE {})
         \cup (IF \E k \in Kinds : \E e \in EntriesOf(sh2, k) : e[2] < cu.base THEN {"clear_old"} ELSE {})
    [] OTHER -> {}

ScanCur(op, k, keep) ==
  [NoCur EXCEPT !.op = op, !.k = k, !.keep = keep, !.i = 1,
                !.snap = IF op = "clear" THEN {} ELSE Entries(k), !.base = nextId]

\* thread t, whose walk is described by cu, locks and processes the shard cu.i points at
ScanApply(t, cu) ==
  LET sq == ScanSeq(cu.op, cu.k)
      kk == sq[cu.i][1]
      s  == sq[cu.i][2]
      r  == ShardScan(shards, cu.op, kk, s, cu.keep)
      acc2 == cu.acc \cup r.seen
      mark(c0) == IF r.removed # {} THEN Dirty(c0, t) ELSE c0
  IN /\ shards' = r.sh
     /\ lastGoc' = ForgetRemoved(r.removed)
     /\ IF cu.i = Len(sq)
        THEN /\ Finish(t, [NoRes EXCEPT !.op = cu.op, !.k = cu.k, !.list = acc2])
             /\ cur' = mark([cur EXCEPT ![t] = NoCur])
             /\ bad' = bad \cup ScanVerdict(cu, acc2, r.sh)
        ELSE /\ pc' = [pc EXCEPT ![t] = "scan"]
             /\ cur' = mark([cur EXCEPT ![t] = [cu EXCEPT !.i = @ + 1, !.acc = acc2]])
             /\ UNCHANGED <<nops, res, bad>>
     /\ UNCHANGED <<shardOf, nextId, owner>>

ScanStart(t, op, k, keep) == Idle(t) /\ ScanApply(t, ScanCur(op, k, keep))
ScanStep(t) == pc[t] = "scan" /\ ScanApply(t, cur[t])

\* the whole walk in one step: ShardScan folded over the same shard sequence
ScanAll(t, op, k, keep) ==
  /\ Idle(t)
  /\ LET cu == ScanCur(op, k, keep)
         step(st, el) == LET r == ShardScan(st.sh, op, el[1], el[2], keep)
                         IN [sh |-> r.sh, seen |-> st.seen \cup r.seen, removed |-> st.removed \cup r.removed]
         fin == FoldLeft(step, [sh |-> shards, seen |-> {}, removed |-> {}], ScanSeq(op, k))
     IN /\ shards' = fin.sh
        /\ lastGoc' = ForgetRemoved(fin.removed)
        /\ Finish(t, [NoRes EXCEPT !.op = op, !.k = k, !.list = fin.seen])
        /\ cur' = IF fin.removed # {} THEN Dirty(cur, t) ELSE cur
        /\ bad' = bad \cup ScanVerdict(cu, fin.seen, fin.sh)
  /\ UNCHANGED <<shardOf, nextId, owner>>

-----------------------------------------------------------------------------
DoGoc(t)    == "goc" \in OpKinds /\ \E k \in Kinds, c \in Classes, v \in Variants : GocRead(t, k, c, v, shardOf[c][v])
DoGet(t)    == "get" \in OpKinds /\ \E k \in Kinds, c \in Classes, v \in Variants : Get(t, k, c, v, shardOf[c][v])
DoDelete(t) == "del" \in OpKinds /\ \E k \in Kinds, c \in Classes, v \in Variants : Delete(t, k, c, v, shardOf[c][v])
DoVisit(t)  == "visit" \in OpKinds /\ \E k \in Kinds : ScanStart(t, "visit", k, {})
DoRetain(t) == "retain" \in OpKinds /\ \E k \in Kinds, keep \in KeepSets : ScanStart(t, "retain", k, keep)
DoClear(t)  == "clear" \in OpKinds /\ ScanStart(t, "clear", 0, {})

Next == \E t \in Threads :
          \/ DoGoc(t) \/ GocWrite(t) \/ DoGet(t) \/ DoDelete(t)
          \/ DoVisit(t) \/ DoRetain(t) \/ DoClear(t) \/ ScanStep(t)

Spec == Init /\ [][Next]_vars

-----------------------------------------------------------------------------
(* The property.                                                           *)
TypeOK ==
  /\ nextId \in Nat /\ Len(owner) = nextId - 1
  /\ \A t \in Threads : pc[t] \in {"idle", "gap", "scan"} /\ nops[t] \in 0..MaxOps
  /\ \A k \in Kinds : \A e \in Entries(k) : e[1] \in Classes /\ e[2] \in 1..(nextId - 1)

\* at every moment at most one live storage per (kind, key class)
AtMostOne == \A k \in Kinds : \A e1, e2 \in Entries(k) : e1[1] = e2[1] => e1 = e2

\* every get_or_create with an equal key yields the same storage until the key is removed
SameStorage == "same" \notin bad

\* different classes or kinds never share a storage
NoSharing ==
  /\ "share" \notin bad
  /\ \A k \in Kinds : \A e \in Entries(k) : owner[e[2]] = <<k, e[1]>>
  /\ \A k1, k2 \in Kinds : \A e1 \in Entries(k1), e2 \in Entries(k2) : e1[2] = e2[2] => (k1 = k2 /\ e1 = e2)

\* a live key is found by every lookup with an equal key, however that key was built
LookupComplete == bad \cap {"lost_goc", "lost_get"} = {}

\* delete reports existence truthfully
DeleteTruthful == "del" \notin bad

\* undisturbed visits / handle listings report exactly the live keys; any visit reports a key at most once
ListingExact == bad \cap {"visit", "once"} = {}

\* retain / clear remove exactly the matching entries (all of those that existed when the call began; when
\* undisturbed nothing else)
RemovalExact == bad \cap {"retain", "retain_seen", "retain_old", "clear", "clear_old"} = {}

\* an entry sits in the shard every key of its class selects (exhaustive runs only: needs shardOf)
Placement == \A k \in Kinds, s \in Shards : \A e \in shards[k][s] : \A v \in Variants : shardOf[e[1]][v] = s

AllDone == \A t \in Threads : pc[t] = "idle" /\ nops[t] = MaxOps
=============================================================================
