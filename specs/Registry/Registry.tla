------------------------------ MODULE Registry ------------------------------
(***************************************************************************)
(* metrics-util/src/registry/mod.rs -- Registry<K, S>.                     *)
(*                                                                         *)
(* Per metric kind the registry is a vector of NShards shards, each a      *)
(* RwLock<HashMap<K, S::X>>.  A key is looked up in the shard selected by  *)
(* `key.get_hash() & mask` and, inside that hash map, by hash and `==`     *)
(* (raw entry API, from_key_hashed_nocheck).                               *)
(*                                                                         *)
(* A key is a pair (equality class c, construction variant v): keys of one *)
(* class are `==`, keys of different classes are not.  The shard a concrete*)
(* key selects is a parameter `s` of the actions (in the exhaustive runs   *)
(* `s = shardOf[c][v]`, in trace validation the value measured on the real *)
(* key): that equal keys select the same shard is the hash contract the    *)
(* property rests on, and it is visible here as a premise.                 *)
(*                                                                         *)
(* Actions = critical sections of the code:                                *)
(*   GocRead   get_or_create_*: shard.read(): hit -> run `op` on the entry *)
(*             (under the read lock); miss -> drop the guard ("gap")       *)
(*   GocWrite  shard.write(): re-check; hit -> op(existing); miss ->       *)
(*             storage.x(key) constructs a fresh storage, insert, op(new)  *)
(*   Get       get_*:    read lock, clone of the entry or None             *)
(*   Delete    delete_*: write lock, remove, returns whether it existed    *)
(*   ScanStart/ScanStep/ScanRelease  visit_* / get_*_handles / retain_* /  *)
(*             clear walk the shards one lock at a time (clear: counters,  *)
(*             gauges, histograms).  The shard lock is explicit here: it   *)
(*             is HELD from ScanStep (acquire: read lock for visit /       *)
(*             handles, write lock for retain / clear; BLOCKING = enabled  *)
(*             only when compatible) to ScanRelease -- the window in which *)
(*             the caller's callback / predicate runs.  Every other        *)
(*             critical section is enabled only when its lock mode is      *)
(*             compatible with the locks held.  Weakly consistent under    *)
(*             concurrency, exact when nobody else modifies meanwhile.     *)
(*             ClearSkipsBusy = TRUE is a witness-only variant: clear      *)
(*             takes each shard with try_write and skips a busy one.       *)
(*   ScanAll   the same walk as one step (used where the walk is not       *)
(*             interleaved: TLC-generated schedules, recorded runs)        *)
(*   ScanUntilHold / ScanFinishFrom  the walk up to (and holding) a given  *)
(*             shard, and the rest of it: recorded runs in which a         *)
(*             callback parks inside a shard while another thread calls    *)
(*             the registry                                                *)
(*                                                                         *)
(* Storage ids are handed out in construction order (nextId), exactly as   *)
(* the harness' ProbeStorage numbers the storages it constructs.           *)
(***************************************************************************)
EXTENDS Naturals, Sequences, FiniteSets, SequencesExt, TLC

CONSTANTS
  Threads,    \* logical processes
  NKinds,     \* metric kinds 0..NKinds-1 (0 counter, 1 gauge, 2 histogram)
  Classes,    \* key equality classes (positive integers)
  Variants,   \* construction variants of a key
  NShards,    \* shard count (power of two in the code; any number here)
  ShardFns,   \* candidate shard assignments [Classes -> [Variants -> Shards]]
  MaxOps,     \* public calls per thread
  KeepSets,   \* retain predicates: sets of classes to keep
  OpKinds,    \* which public calls the exhaustive Next uses
  Recheck,    \* TRUE = the code; FALSE = negative control (no re-check under the write lock)
  ClearSkipsBusy \* FALSE = the code (clear blocks on every shard lock); TRUE = witness: try_write, skip a busy shard

Kinds  == 0..(NKinds - 1)
Shards == 0..(NShards - 1)

VARIABLES
  shardOf,  \* the shard assignment of this behaviour (chosen once)
  shards,   \* [Kinds -> [Shards -> set of <<class, id>>]]   the hash maps
  nextId,   \* next storage id = 1 + number of storages constructed so far
  pc,       \* [Threads -> "idle" | "gap" | "scan" (walking, no lock held) | "held" (walking, holds the lock of shard cur.i)]
  cur,      \* [Threads -> the call in progress]
  nops,     \* [Threads -> calls completed]
  res,      \* [Threads -> result of the last completed call]  (what the caller observed)
  owner,    \* sequence: owner[id] = <<kind, class>> the storage was constructed for      [history]
  lastGoc,  \* [Kinds -> [Classes -> id the last get_or_create yielded since the last removal, or 0]] [history]
  bad       \* set of violation tags                                                        [history]

vars == <<shardOf, shards, nextId, pc, cur, nops, res, owner, lastGoc, bad>>

NoCur == [op |-> "none", k |-> 0, c |-> 0, s |-> 0, keep |-> {}, i |-> 0, acc |-> {}, dirty |-> FALSE,
          snap |-> {}, base |-> 0]
NoRes == [op |-> "none", k |-> 0, c |-> 0, id |-> 0, new |-> FALSE, ex |-> FALSE, list |-> {}]

Init ==
  /\ shardOf \in ShardFns
  /\ shards = [k \in Kinds |-> [s \in Shards |-> {}]]
  /\ nextId = 1
  /\ pc = [t \in Threads |-> "idle"]
  /\ cur = [t \in Threads |-> NoCur]
  /\ nops = [t \in Threads |-> 0]
  /\ res = [t \in Threads |-> NoRes]
  /\ owner = <<>>
  /\ lastGoc = [k \in Kinds |-> [c \in Classes |-> 0]]
  /\ bad = {}

-----------------------------------------------------------------------------
EntriesOf(sh, k) == UNION {sh[k][s] : s \in Shards}
Entries(k) == EntriesOf(shards, k)
\* raw_entry().from_key_hashed_nocheck(hash, key) in the shard selected by the hash
Lookup(k, s, c) == {e \in shards[k][s] : e[1] = c}
ExistsAnywhere(k, c) == \E e \in Entries(k) : e[1] = c

\* every thread other than u that is walking the shards has been disturbed
Dirty(cu, u) == [t \in Threads |-> IF t # u /\ pc[t] \in {"scan", "held"} THEN [cu[t] EXCEPT !.dirty = TRUE] ELSE cu[t]]

(* shard locks (RwLock): a walking thread in pc "held" holds the lock of the shard its cursor points at, in     *)
(* write mode for retain / clear, in read mode for visit / handles.  A thread holds at most one lock.           *)
ScanSeq(op, k) ==
  IF op = "clear"
  THEN [j \in 1..(NKinds * NShards) |-> <<(j - 1) \div NShards, (j - 1) % NShards>>]
  ELSE [j \in 1..NShards |-> <<k, j - 1>>]
WriteMode(op) == op \in {"retain", "clear"}
Holders(k, s) == {t \in Threads : pc[t] = "held" /\ ScanSeq(cur[t].op, cur[t].k)[cur[t].i] = <<k, s>>}
CanRead(k, s)  == \A t \in Holders(k, s) : ~WriteMode(cur[t].op)
CanWrite(k, s) == Holders(k, s) = {}
CanLock(op, k, s) == IF WriteMode(op) THEN CanWrite(k, s) ELSE CanRead(k, s)

Finish(t, r) ==
  /\ res' = [res EXCEPT ![t] = r]
  /\ nops' = [nops EXCEPT ![t] = @ + 1]
  /\ pc' = [pc EXCEPT ![t] = "idle"]

Idle(t) == pc[t] = "idle" /\ nops[t] < MaxOps

\* get_or_create ran `op` on storage x; ow = owner after this step
GocYield(t, k, c, x, newly, ow) ==
  /\ Finish(t, [NoRes EXCEPT !.op = "goc", !.k = k, !.c = c, !.id = x, !.new = newly])
  /\ lastGoc' = [lastGoc EXCEPT ![k][c] = x]
  /\ bad' = bad \cup (IF lastGoc[k][c] \notin {0, x} THEN {"same"} ELSE {})
                \cup (IF ow[x] # <<k, c>> THEN {"share"} ELSE {})

GocRead(t, k, c, v, s) ==
  /\ Idle(t) /\ CanRead(k, s)
  /\ LET hit == Lookup(k, s, c) IN
     IF hit # {}
     THEN /\ \E e \in hit : GocYield(t, k, c, e[2], FALSE, owner)
          /\ UNCHANGED <<shardOf, shards, nextId, cur, owner>>
     ELSE /\ pc' = [pc EXCEPT ![t] = "gap"]
          /\ cur' = [cur EXCEPT ![t] = [NoCur EXCEPT !.op = "goc", !.k = k, !.c = c, !.s = s]]
          /\ bad' = bad \cup (IF ExistsAnywhere(k, c) THEN {"lost_goc"} ELSE {})
          /\ UNCHANGED <<shardOf, shards, nextId, nops, res, owner, lastGoc>>

GocWrite(t) ==
  /\ pc[t] = "gap" /\ CanWrite(cur[t].k, cur[t].s)
  /\ LET k == cur[t].k
         c == cur[t].c
         s == cur[t].s
         hit == Lookup(k, s, c)
     IN IF Recheck /\ hit # {}
        THEN /\ \E e \in hit : GocYield(t, k, c, e[2], FALSE, owner)
             /\ cur' = [cur EXCEPT ![t] = NoCur]
             /\ UNCHANGED <<shardOf, shards, nextId, owner>>
        ELSE LET x == nextId
                 ow == Append(owner, <<k, c>>)
             IN /\ shards' = [shards EXCEPT ![k][s] = (@ \ hit) \cup {<<c, x>>}]
                /\ nextId' = x + 1
                /\ owner' = ow
                /\ GocYield(t, k, c, x, TRUE, ow)
                /\ cur' = Dirty([cur EXCEPT ![t] = NoCur], t)
                /\ UNCHANGED shardOf

Get(t, k, c, v, s) ==
  /\ Idle(t) /\ CanRead(k, s)
  /\ LET hit == Lookup(k, s, c) IN
     IF hit # {}
     THEN \E e \in hit :
            /\ Finish(t, [NoRes EXCEPT !.op = "get", !.k = k, !.c = c, !.id = e[2]])
            /\ bad' = bad \cup (IF owner[e[2]] # <<k, c>> THEN {"share"} ELSE {})
     ELSE /\ Finish(t, [NoRes EXCEPT !.op = "get", !.k = k, !.c = c])
          /\ bad' = bad \cup (IF ExistsAnywhere(k, c) THEN {"lost_get"} ELSE {})
  /\ UNCHANGED <<shardOf, shards, nextId, cur, owner, lastGoc>>

Delete(t, k, c, v, s) ==
  /\ Idle(t) /\ CanWrite(k, s)
  /\ LET hit == Lookup(k, s, c) IN
     /\ shards' = [shards EXCEPT ![k][s] = @ \ hit]
     /\ Finish(t, [NoRes EXCEPT !.op = "del", !.k = k, !.c = c, !.ex = (hit # {})])
     /\ lastGoc' = IF hit # {} THEN [lastGoc EXCEPT ![k][c] = 0] ELSE lastGoc
     /\ cur' = IF hit # {} THEN Dirty(cur, t) ELSE cur
     /\ bad' = bad \cup (IF hit = {} /\ ExistsAnywhere(k, c) THEN {"del"} ELSE {})
  /\ UNCHANGED <<shardOf, nextId, owner>>

-----------------------------------------------------------------------------
(* visit_* / get_*_handles / retain_* / clear: one shard lock at a time.    *)
\* what happens to the shards `sh` while shard s of kind kk is locked
ShardScan(sh, op, kk, s, keep) ==
  LET here == sh[kk][s]
      removed == CASE op = "retain" -> {e \in here : e[1] \notin keep}
                   [] op = "clear"  -> here
                   [] OTHER         -> {}
  IN [sh |-> [sh EXCEPT ![kk][s] = here \ removed],
      seen |-> IF op = "clear" THEN {} ELSE here,            \* entries handed to the callback / predicate
      removed |-> {<<kk, e[1]>> : e \in removed}]

ForgetRemoved(removed) ==
  [k \in Kinds |-> [c \in Classes |-> IF <<k, c>> \in removed THEN 0 ELSE lastGoc[k][c]]]

\* verdict at the end of a walk described by cu, having seen `acc`, leaving the shards `sh2`
ScanVerdict(cu, acc, sh2) ==
  CASE cu.op \in {"visit", "handles"} ->
         (IF ~cu.dirty /\ acc # EntriesOf(sh2, cu.k) THEN {"visit"} ELSE {})
         \cup (IF \E e1, e2 \in acc : e1 # e2 /\ e1[1] = e2[1] THEN {"once"} ELSE {})
    [] cu.op = "retain" ->
         (IF ~cu.dirty /\ EntriesOf(sh2, cu.k) # {e \in cu.snap : e[1] \in cu.keep} THEN {"retain"} ELSE {})
         \cup (IF ~cu.dirty /\ acc # cu.snap THEN {"retain_seen"} ELSE {})
         \cup (IF \E e \in EntriesOf(sh2, cu.k) : e[1] \notin cu.keep /\ e[2] < cu.base THEN {"retain_old"} ELSE {})
    [] cu.op = "clear" ->
         (IF ~cu.dirty /\ \E k \in Kinds : EntriesOf(sh2, k) # {} THEN {"clear"} ELSE {})
         \cup (IF \E k \in Kinds : \E e \in EntriesOf(sh2, k) : e[2] < cu.base THEN {"clear_old"} ELSE {})
    [] OTHER -> {}

ScanCur(op, k, keep) ==
  [NoCur EXCEPT !.op = op, !.k = k, !.keep = keep, !.i = 1,
                !.snap = IF op = "clear" THEN {} ELSE Entries(k), !.base = nextId]

\* the walk of thread t (described by cu) is over: result and verdict
ScanEnd(t, cu, acc, c0) ==
  /\ Finish(t, [NoRes EXCEPT !.op = cu.op, !.k = cu.k, !.list = acc])
  /\ cur' = [c0 EXCEPT ![t] = NoCur]
  /\ bad' = bad \cup ScanVerdict(cu, acc, shards')

\* thread t, whose walk is described by cu, reaches the shard cu.i points at and takes its lock (blocking), the
\* shard's entries are handed to the callback / filtered by the predicate / dropped while the lock is held
ScanAcquire(t, cu) ==
  LET sq == ScanSeq(cu.op, cu.k)
      kk == sq[cu.i][1]
      s  == sq[cu.i][2]
      r  == ShardScan(shards, cu.op, kk, s, cu.keep)
      mark(c0) == IF r.removed # {} THEN Dirty(c0, t) ELSE c0
  IN IF CanLock(cu.op, kk, s)
     THEN /\ shards' = r.sh
          /\ lastGoc' = ForgetRemoved(r.removed)
          /\ pc' = [pc EXCEPT ![t] = "held"]
          /\ cur' = mark([cur EXCEPT ![t] = [cu EXCEPT !.acc = @ \cup r.seen]])
          /\ UNCHANGED <<shardOf, nextId, owner, nops, res, bad>>
     ELSE \* witness variant only: try_write failed, the shard is skipped and never revisited
          /\ ClearSkipsBusy /\ cu.op = "clear"
          /\ UNCHANGED <<shardOf, shards, nextId, owner, lastGoc>>
          /\ IF cu.i = Len(sq)
             THEN ScanEnd(t, cu, cu.acc, cur)
             ELSE /\ pc' = [pc EXCEPT ![t] = "scan"]
                  /\ cur' = [cur EXCEPT ![t] = [cu EXCEPT !.i = @ + 1]]
                  /\ UNCHANGED <<nops, res, bad>>

ScanStart(t, op, k, keep) == Idle(t) /\ ScanAcquire(t, ScanCur(op, k, keep))
ScanStep(t) == pc[t] = "scan" /\ ScanAcquire(t, cur[t])

\* the guard of the shard is dropped; the walk goes on to the next shard or ends
ScanRelease(t) ==
  /\ pc[t] = "held"
  /\ UNCHANGED <<shardOf, shards, nextId, owner, lastGoc>>
  /\ LET cu == cur[t] IN
     IF cu.i = Len(ScanSeq(cu.op, cu.k))
     THEN ScanEnd(t, cu, cu.acc, cur)
     ELSE /\ pc' = [pc EXCEPT ![t] = "scan"]
          /\ cur' = [cur EXCEPT ![t] = [cu EXCEPT !.i = @ + 1]]
          /\ UNCHANGED <<nops, res, bad>>

\* ShardScan folded over a stretch of the shard sequence
FoldScan(sh0, op, keep, stretch) ==
  LET step(st, el) == LET r == ShardScan(st.sh, op, el[1], el[2], keep)
                      IN [sh |-> r.sh, seen |-> st.seen \cup r.seen, removed |-> st.removed \cup r.removed]
  IN FoldLeft(step, [sh |-> sh0, seen |-> {}, removed |-> {}], stretch)
AllFree(op, stretch) == \A j \in DOMAIN stretch : CanLock(op, stretch[j][1], stretch[j][2])

\* the whole walk in one step
ScanAll(t, op, k, keep) ==
  /\ Idle(t) /\ AllFree(op, ScanSeq(op, k))
  /\ LET cu == ScanCur(op, k, keep)
         fin == FoldScan(shards, op, keep, ScanSeq(op, k))
     IN /\ shards' = fin.sh
        /\ lastGoc' = ForgetRemoved(fin.removed)
        /\ Finish(t, [NoRes EXCEPT !.op = op, !.k = k, !.list = fin.seen])
        /\ cur' = IF fin.removed # {} THEN Dirty(cur, t) ELSE cur
        /\ bad' = bad \cup ScanVerdict(cu, fin.seen, fin.sh)
  /\ UNCHANGED <<shardOf, nextId, owner>>

\* the walk up to shard s of kind k in one step, ending with the lock of that shard held
ScanUntilHold(t, op, k, keep, s) ==
  /\ Idle(t) /\ op # "clear" /\ s \in Shards
  /\ LET sq == ScanSeq(op, k)
         upto == SubSeq(sq, 1, s + 1)
         fin == FoldScan(shards, op, keep, upto)
         cu == [ScanCur(op, k, keep) EXCEPT !.i = s + 1, !.acc = fin.seen]
     IN /\ AllFree(op, upto)
        /\ shards' = fin.sh
        /\ lastGoc' = ForgetRemoved(fin.removed)
        /\ pc' = [pc EXCEPT ![t] = "held"]
        /\ cur' = (IF fin.removed # {} THEN Dirty([cur EXCEPT ![t] = cu], t) ELSE [cur EXCEPT ![t] = cu])
  /\ UNCHANGED <<shardOf, nextId, owner, nops, res, bad>>

\* the held lock is dropped and the rest of the walk happens in one step
ScanFinishFrom(t) ==
  /\ pc[t] = "held"
  /\ LET cu == cur[t]
         sq == ScanSeq(cu.op, cu.k)
         rest == SubSeq(sq, cu.i + 1, Len(sq))
         fin == FoldScan(shards, cu.op, cu.keep, rest)
         acc2 == cu.acc \cup fin.seen
     IN /\ AllFree(cu.op, rest)
        /\ shards' = fin.sh
        /\ lastGoc' = ForgetRemoved(fin.removed)
        /\ ScanEnd(t, cu, acc2, IF fin.removed # {} THEN Dirty(cur, t) ELSE cur)
  /\ UNCHANGED <<shardOf, nextId, owner>>

-----------------------------------------------------------------------------
DoGoc(t)    == "goc" \in OpKinds /\ \E k \in Kinds, c \in Classes, v \in Variants : GocRead(t, k, c, v, shardOf[c][v])
DoGet(t)    == "get" \in OpKinds /\ \E k \in Kinds, c \in Classes, v \in Variants : Get(t, k, c, v, shardOf[c][v])
DoDelete(t) == "del" \in OpKinds /\ \E k \in Kinds, c \in Classes, v \in Variants : Delete(t, k, c, v, shardOf[c][v])
DoVisit(t)  == "visit" \in OpKinds /\ \E k \in Kinds : ScanStart(t, "visit", k, {})
DoRetain(t) == "retain" \in OpKinds /\ \E k \in Kinds, keep \in KeepSets : ScanStart(t, "retain", k, keep)
DoClear(t)  == "clear" \in OpKinds /\ ScanStart(t, "clear", 0, {})

Next == \E t \in Threads :
          \/ DoGoc(t) \/ GocWrite(t) \/ DoGet(t) \/ DoDelete(t)
          \/ DoVisit(t) \/ DoRetain(t) \/ DoClear(t) \/ ScanStep(t) \/ ScanRelease(t)

Spec == Init /\ [][Next]_vars

-----------------------------------------------------------------------------
(* The property.                                                           *)
TypeOK ==
  /\ nextId \in Nat /\ Len(owner) = nextId - 1
  /\ \A t \in Threads : pc[t] \in {"idle", "gap", "scan", "held"} /\ nops[t] \in 0..MaxOps
  /\ \A k \in Kinds : \A e \in Entries(k) : e[1] \in Classes /\ e[2] \in 1..(nextId - 1)

\* at every moment at most one live storage per (kind, key class)
AtMostOne == \A k \in Kinds : \A e1, e2 \in Entries(k) : e1[1] = e2[1] => e1 = e2

\* every get_or_create with an equal key yields the same storage until the key is removed
SameStorage == "same" \notin bad

\* different classes or kinds never share a storage
NoSharing ==
  /\ "share" \notin bad
  /\ \A k \in Kinds : \A e \in Entries(k) : owner[e[2]] = <<k, e[1]>>
  /\ \A k1, k2 \in Kinds : \A e1 \in Entries(k1), e2 \in Entries(k2) : e1[2] = e2[2] => (k1 = k2 /\ e1 = e2)

\* a live key is found by every lookup with an equal key, however that key was built
LookupComplete == bad \cap {"lost_goc", "lost_get"} = {}

\* delete reports existence truthfully
DeleteTruthful == "del" \notin bad

\* undisturbed visits / handle listings report exactly the live keys; any visit reports a key at most once
ListingExact == bad \cap {"visit", "once"} = {}

\* retain / clear remove exactly the matching entries (all of those that existed when the call began; when
\* undisturbed nothing else)
RemovalExact == bad \cap {"retain", "retain_seen", "retain_old", "clear", "clear_old"} = {}

\* an entry sits in the shard every key of its class selects (exhaustive runs only: needs shardOf)
Placement == \A k \in Kinds, s \in Shards : \A e \in shards[k][s] : \A v \in Variants : shardOf[e[1]][v] = s

AllDone == \A t \in Threads : pc[t] = "idle" /\ nops[t] = MaxOps
=============================================================================
