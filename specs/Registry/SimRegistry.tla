---------------------------- MODULE SimRegistry ----------------------------
(* Spec -> implementation: complete behaviours of Registry.tla (the calls   *)
(* of every thread and the order in which the scheduler has to grant the    *)
(* two yield points -- start of a call, the read->write gap of              *)
(* get_or_create) printed as one REPLAY line each.  The harness reproduces  *)
(* the schedule on the real registry and the recorded run is validated by   *)
(* TraceRegistry.  Used with -simulate (Enumerate = FALSE: the kind of call *)
(* is drawn first, from Weighted) and breadth-first (Enumerate = TRUE:      *)
(* every behaviour of the scope).  Shard walks are one step (ScanAll): the  *)
(* code has no yield point inside them.                                     *)
EXTENDS Registry, Json
CONSTANTS Weighted, Enumerate
VARIABLE sched
svars == <<vars, sched>>

E(t, st, op, k, c, v, keep) == [t |-> t, st |-> st, op |-> op, k |-> k, c |-> c, v |-> v, keep |-> SetToSeq(keep)]
Log(e) == sched' = Append(sched, e)
Pick(n) == IF Enumerate THEN OpKinds
           ELSE {Weighted[RandomElement(1..(Len(Weighted) + 0 * n))]}   \* state dependent: drawn at every step

SimNext ==
  \E t \in Threads :
    \/ GocWrite(t) /\ Log(E(t, "gap", "goc", cur[t].k, cur[t].c, 0, {}))
    \/ \E o \in Pick(Len(sched)) :
         \/ o = "goc" /\ \E k \in Kinds, c \in Classes, v \in Variants :
                           GocRead(t, k, c, v, shardOf[c][v]) /\ Log(E(t, "begin", "goc", k, c, v, {}))
         \/ o = "get" /\ \E k \in Kinds, c \in Classes, v \in Variants :
                           Get(t, k, c, v, shardOf[c][v]) /\ Log(E(t, "begin", "get", k, c, v, {}))
         \/ o = "del" /\ \E k \in Kinds, c \in Classes, v \in Variants :
                           Delete(t, k, c, v, shardOf[c][v]) /\ Log(E(t, "begin", "del", k, c, v, {}))
         \/ o \in {"visit", "handles"} /\ \E k \in Kinds : ScanAll(t, o, k, {}) /\ Log(E(t, "begin", o, k, 0, 0, {}))
         \/ o = "retain" /\ \E k \in Kinds, keep \in KeepSets :
                           ScanAll(t, "retain", k, keep) /\ Log(E(t, "begin", "retain", k, 0, 0, keep))
         \/ o = "clear" /\ ScanAll(t, "clear", 0, {}) /\ Log(E(t, "begin", "clear", 0, 0, 0, {}))

SimInit == Init /\ sched = <<>>
SimSpec == SimInit /\ [][SimNext]_svars

MinV == CHOOSE v \in Variants : TRUE
Emit == AllDone =>
          PrintT(<<"REPLAY", ToJson([nthreads |-> Cardinality(Threads), nshards |-> NShards,
                                     shard |-> [c \in Classes |-> shardOf[c][MinV]], sched |-> sched])>>)
=============================================================================
