---------------------------- MODULE MCRegistry ----------------------------
(* Constant definitions for the exhaustive configurations of Registry.tla *)
(* (functions and sets of sets cannot be written in a .cfg file).          *)
EXTENDS Registry

Lift(g) == [c \in Classes |-> [v \in Variants |-> g[c]]]
MinClass == CHOOSE c \in Classes : \A d \in Classes : c <= d
\* every assignment of classes to shards that respects the hash contract (equal keys: equal hash),
\* up to renaming of shards (the smallest class sits in shard 0)
MC_ShardFns == {Lift(g) : g \in {h \in [Classes -> Shards] : h[MinClass] = 0}}
\* negative control: one construction variant of every key hashes differently from the others
MaxVariant == CHOOSE v \in Variants : \A w \in Variants : w <= v
MC_ShardFnsBroken == {[c \in Classes |-> [v \in Variants |-> IF v = MaxVariant THEN NShards - 1 ELSE 0]]}

MC_KeepAll == SUBSET Classes
MC_KeepSome == {{}, {MinClass}, Classes \ {MinClass}}
MC_OpsAll == {"goc", "get", "del", "visit", "retain", "clear"}
MC_OpsRace == {"goc", "del"}
MC_OpsGoc == {"goc"}
\* res (what the caller saw) and owner (construction history) do not influence enabledness or the
\* invariants of later states beyond what the other variables already fix: hidden from the fingerprint
MC_View == <<shardOf, shards, nextId, pc, cur, nops, lastGoc, bad>>
MC_Sym == Permutations(Threads)
\* witness for the try_write variant of clear: a creator, a visitor holding a shard, a clearer
MC_OpsWitness == {"goc", "visit", "clear"}
MC_OpsScan == {"goc", "del", "visit", "retain", "clear"}
=============================================================================
