\* static copy of a quick exhaustive configuration (checks/c07.py generates gen_*.cfg of the same shape):
\*   tlc -workers 8 -config MC_scalar.cfg MCPromRecorder.tla
SPECIFICATION MCSpec
CONSTANTS
 Recorders = {}
 Drainers = {}
 LockedDrain = TRUE
 BS = 64
 DrainWaitsFirstBlockOnly = FALSE
 CF07aFixed = FALSE
 Scope = "scalar"
 MaxOps = 5
 RecLimit = 0
 DrainLimit = 0
 UpLimit = 0
INVARIANTS TypeOK Conservation StrictConservation RenderFaithful RenderBounds NoSkippedSample NoLossSequential CounterMeaning HelpFirst RenderTwice LabelsOK
CHECK_DEADLOCK FALSE
