SPECIFICATION TraceSpec
CONSTANTS
 Recorders = {1, 2, 3}
 Drainers = {4, 5}
 LockedDrain = TRUE
INVARIANTS TypeOK Conservation RenderFaithful RenderBounds CounterMeaning HelpFirst RenderTwice LabelsOK
POSTCONDITION TraceAccepted
CHECK_DEADLOCK FALSE
