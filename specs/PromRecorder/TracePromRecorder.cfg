SPECIFICATION TraceSpec
CONSTANTS
 Recorders = {1, 2, 3}
 Drainers = {4, 5}
INVARIANTS TypeOK Conservation RenderFaithful CounterMeaning HelpFirst RenderTwice LabelsOK
POSTCONDITION TraceAccepted
CHECK_DEADLOCK FALSE
