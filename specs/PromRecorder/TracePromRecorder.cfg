SPECIFICATION TraceSpec
CONSTANTS
 Recorders = {1, 2, 3}
 Drainers = {4, 5}
 LockedDrain = TRUE
 BS = 64
 DrainWaitsFirstBlockOnly = FALSE
 CF07aFixed = FALSE
INVARIANTS TypeOK Conservation RenderFaithful RenderBounds NoSkippedSample CounterMeaning HelpFirst RenderTwice LabelsOK
POSTCONDITION TraceAccepted
CHECK_DEADLOCK FALSE
