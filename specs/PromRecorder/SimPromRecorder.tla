-------------------------- MODULE SimPromRecorder --------------------------
(* Spec -> implementation: sequential histories of PromRecorder.tla (scope and *)
(* configuration matrix of MCPromRecorder), each printed as one REPLAY line    *)
(* {cfg, ops}.  The harness makes exactly these calls on a real                *)
(* PrometheusRecorder, logs every render()'s parsed exposition, and            *)
(* TracePromRecorder validates the recorded run.                               *)
(* Run with `-simulate num=N -depth MaxOps+1` (random histories) -- or         *)
(* exhaustively with a small MaxOps (every history of that length).            *)
EXTENDS MCPromRecorder, Json
VARIABLE ops
svars == <<mvars, ops>>

Lab(k) == k[2]
Op1(o, k)    == [op |-> o, name |-> k[1], labels |-> Lab(k)]
OpN(o, k, n) == [op |-> o, name |-> k[1], labels |-> Lab(k), n |-> n]
Did(o) == ops' = Append(ops, o)

SimInit == MCInit /\ ops = <<>>
SimNext ==
  \/ \E k \in CK : SeqStep(RegisterC(k)) /\ Did([op |-> "reg", kind |-> "c", name |-> k[1], labels |-> Lab(k)])
  \/ \E k \in GK : SeqStep(RegisterG(k)) /\ Did([op |-> "reg", kind |-> "g", name |-> k[1], labels |-> Lab(k)])
  \/ \E k \in HK : SeqStep(RegisterH(k)) /\ Did([op |-> "reg", kind |-> "h", name |-> k[1], labels |-> Lab(k)])
  \/ \E k \in CK, n \in IncVals : SeqStep(IncA(k, n)) /\ Did(OpN("inc", k, n))
  \/ \E k \in CK, n \in AbsVals : SeqStep(AbsA(k, n)) /\ Did(OpN("abs", k, n))
  \/ \E k \in GK, n \in GVals : SeqStep(SetA(k, n)) /\ Did(OpN("set", k, n))
  \/ \E k \in GK : SeqStep(Get(gau, k, 0) < 1000 /\ IncGA(k, 2)) /\ Did(OpN("incg", k, 2))
  \/ \E k \in GK : SeqStep(Get(gau, k, 0) < 1000 /\ DecGA(k, 3)) /\ Did(OpN("decg", k, 3))
  \/ \E k \in HK, v \in HVals : SeqStep(RecordA(k, v)) /\ Did([op |-> "rec", name |-> k[1], labels |-> Lab(k), v |-> v])
  \/ \E n \in DescNames, d \in Descs : SeqStep(DescribeA(n, d[1], d[2])) /\ Did([op |-> "desc", name |-> n, d |-> d[1], unit |-> d[2]])
  \/ SeqStep(UpkeepA) /\ Did([op |-> "upkeep"])
  \/ SeqStep(RenderA) /\ Did([op |-> "render"])
SimSpec == SimInit /\ [][SimNext]_svars

Emit == (steps = MaxOps) => PrintT(<<"REPLAY", ToJson([cfg |-> cfg, ops |-> ops])>>)
=============================================================================
