--------------------------- MODULE MCPromRecorder ---------------------------
(* Exhaustive scopes of PromRecorder.tla.                                    *)
(*  sequential scopes ("scalar", "hist", "mixed"): every history of at most  *)
(*    MaxOps calls over the scope's keys / values, for every configuration   *)
(*    of the scope's matrix;                                                 *)
(*  concurrent scopes ("conc", "conc2r", "concinc"): recorders (RecLimit     *)
(*    calls each) against a rendering and an upkeep thread (DrainLimit calls *)
(*    each) at the granularity RFix / RClaim / RAck / DDetach / DQok /      *)
(*    DDeliver; "concblk": blocks of BS = 2 slots, a recorder with one     *)
(*    record and one with RecLimit records, one histogram key, a renderer: *)
(*    blocks fill up, chains of blocks are drained, a recorder can be      *)
(*    between its claim and its acknowledge in a block behind the tail.    *)
EXTENDS PromRecorder
CONSTANTS Scope, MaxOps, RecLimit, DrainLimit, UpLimit
VARIABLES steps,   \* calls made so far (sequential scopes)
          cnt      \* process -> calls begun (concurrent scopes)
mvars == <<vars, steps, cnt>>

\* ---- keys: <<name, {<<label name, label value>>}>>
G1 == {<<1, 1>>, <<2, 1>>}                   \* global labels
C1 == <<1, {}>>          C2 == <<1, {<<1, 2>>}>>               \* same family; C2 overrides global label 1
GA == <<3, {}>>          GB == <<4, {<<3, 1>>}>>
H1 == <<5, {}>>          H2 == <<6, {<<1, 2>>, <<3, 1>>}>>     \* 5: summary unless global buckets; 6: per-metric buckets
OV6 == << [names |-> {6}, b |-> <<1, 3>>] >>
Cfg(g, gb, ov, nq, u, w) == [globals |-> g, gb |-> gb, ov |-> ov, nq |-> nq, unit |-> u, W |-> w]

Sequential == Scope \in {"scalar", "hist", "mixed"}
CK == CASE Scope = "scalar" -> {C1, C2} [] Scope = "mixed" -> {C2} [] Scope = "concinc" -> {C1} [] OTHER -> {}
GK == CASE Scope = "scalar" -> {GA, GB} [] Scope = "mixed" -> {GB} [] OTHER -> {}
HK == CASE Scope = "scalar" -> {} [] Scope = "mixed" -> {H2} [] Scope \in {"concinc", "concblk"} -> {H2} [] OTHER -> {H1, H2}
IncVals == {1, 15}      \* with W = 16: 15 + 1 wraps
AbsVals == {2, 7}
GVals   == {2, 1003}    \* 1003: id of a special f64 (only ever set)
HVals   == {1, 3}       \* against bounds <<1, 3>> and <<2>>
DescNames == CASE Scope = "scalar" -> {1, 3} [] Scope = "hist" -> {5, 6} [] OTHER -> {1, 6}
Descs == {<<1, 0>>, <<2, 3>>}               \* <<description, unit>>: none / seconds

Cfgs ==
  CASE Scope = "scalar" -> {Cfg({}, <<>>, <<>>, 2, FALSE, 0), Cfg(G1, <<>>, <<>>, 2, FALSE, 16), Cfg(G1, <<>>, <<>>, 2, TRUE, 16)}
    [] Scope = "hist"   -> {Cfg({}, <<>>, <<>>, 2, FALSE, 0), Cfg(G1, <<2>>, OV6, 2, FALSE, 0), Cfg(G1, <<>>, OV6, 3, TRUE, 0)}
    [] Scope = "mixed"  -> {Cfg(G1, <<>>, OV6, 2, TRUE, 16), Cfg({<<1, 1>>}, <<2>>, <<>>, 2, FALSE, 0)}
    [] OTHER            -> {Cfg(G1, <<>>, OV6, 2, FALSE, 0)}

\* concurrent scopes start with the handles registered; one variant with a sample already in H2's bucket
MCInit ==
  /\ steps = 0 /\ cnt = [p \in Recorders \cup Drainers |-> 0]
  /\ \E c \in Cfgs :
       IF Sequential THEN InitWith(c)
       ELSE \E pre \in BOOLEAN :
         /\ cfg = c
         /\ ctr = [k \in CK |-> 0] /\ gau = EF /\ cinc = EF /\ cabs = EF
         /\ hreg = HK
         /\ pend = IF pre THEN (H2 :> (3 :> 1)) ELSE EF
         /\ crec = IF pre THEN (H2 :> (3 :> 1)) ELSE EF
         /\ att = IF pre THEN (H2 :> TRUE) ELSE EF
         /\ ep = IF pre THEN (H2 :> 1) ELSE EF
         /\ fill = (IF pre THEN (H2 :> 1) ELSE EF)
         /\ lo = (IF pre THEN (H2 :> 1) ELSE EF)
         /\ dist = EF /\ lost = EF /\ skipped = EF /\ cfail = FALSE
         /\ lock = 0 /\ dkey = NoKey /\ dst = "none" /\ det = EF /\ dep = 0 /\ dlo = 0 /\ dcur = 0
         /\ rpc = [p \in Recorders |-> "idle"] /\ rk = [p \in Recorders |-> NoKey]
         /\ rv = [p \in Recorders |-> 0] /\ rep = [p \in Recorders |-> 0] /\ after = [p \in Recorders |-> EF]
         /\ dpc = [d \in Drainers |-> "idle"] /\ dop = [d \in Drainers |-> "none"]
         /\ todo = [d \in Drainers |-> {}] /\ csnap = [d \in Drainers |-> EF] /\ gsnap = [d \in Drainers |-> EF]
         /\ buf = [d \in Drainers |-> EF] /\ nbeg = [d \in Drainers |-> EF] /\ bounded = TRUE
         /\ desc = EF /\ dfirst = EF /\ out = {}
         /\ upd = [d \in Drainers |-> FALSE] /\ pclean = FALSE /\ twiceOK = TRUE /\ faithful = TRUE

\* ---- sequential histories
SeqStep(A) == Sequential /\ steps < MaxOps /\ A /\ steps' = steps + 1 /\ UNCHANGED cnt
MRegisterC == \E k \in CK : SeqStep(RegisterC(k))
MRegisterG == \E k \in GK : SeqStep(RegisterG(k))
MRegisterH == \E k \in HK : SeqStep(RegisterH(k))
MInc      == \E k \in CK, n \in IncVals : SeqStep(IncA(k, n))
MAbs      == \E k \in CK, n \in AbsVals : SeqStep(AbsA(k, n))
MSet      == \E k \in GK, n \in GVals : SeqStep(SetA(k, n))
MIncG     == \E k \in GK : SeqStep(Get(gau, k, 0) < 1000 /\ IncGA(k, 2))
MDecG     == \E k \in GK : SeqStep(Get(gau, k, 0) < 1000 /\ DecGA(k, 3))
MRecord   == \E k \in HK, v \in HVals : SeqStep(RecordA(k, v))
MDescribe == \E n \in DescNames, d \in Descs : SeqStep(DescribeA(n, d[1], d[2]))
MUpkeep   == SeqStep(UpkeepA)
MRender   == SeqStep(RenderA)

\* ---- concurrent part
DrOp(d) == IF Scope = "conc2r" THEN "render" ELSE IF d = MinOf(Drainers) THEN "render" ELSE "upkeep"
Began(p) == cnt' = [cnt EXCEPT ![p] = @ + 1] /\ UNCHANGED steps
Same == UNCHANGED <<steps, cnt>>
\* (the sample value is a function of the recorder: fewer symmetric duplicates, bags still tell who recorded)
VOf(p) == IF p = MinOf(Recorders) THEN 1 ELSE 3
Lim(d) == IF DrOp(d) = "render" THEN DrainLimit ELSE UpLimit
\* block scope: the first recorder makes one record (it is the one that can stall), the others RecLimit
RLim(p) == IF Scope = "concblk" /\ p = MinOf(Recorders) THEN 1 ELSE RecLimit
MRFix       == ~Sequential /\ \E p \in Recorders, k \in HK : rpc[p] = "idle" /\ cnt[p] < RLim(p) /\ RFix(p, k, VOf(p)) /\ Began(p)
MRRefix     == ~Sequential /\ \E p \in Recorders : rpc[p] = "retry" /\ RFix(p, rk[p], rv[p]) /\ Same
MRClaimIn   == ~Sequential /\ \E p \in Recorders : RClaimIn(p) /\ Same
MRClaimLost == ~Sequential /\ \E p \in Recorders : RClaimLost(p) /\ Same
\* (outside the block scope a failed claim in an unreachable block is left out: it only adds a retry)
MRFull      == ~Sequential /\ \E p \in Recorders : (Scope = "concblk" \/ InChain(p)) /\ RFull(p) /\ Same
MRCasFull   == ~Sequential /\ \E p \in Recorders : RCasFull(p) /\ Same
MRAck       == ~Sequential /\ \E p \in Recorders : RAck(p) /\ Same
MIncC       == ~Sequential /\ \E p \in Recorders, k \in CK : cnt[p] < RecLimit /\ rpc[p] = "idle" /\ IncA(k, 1) /\ Began(p)
MDBegin     == ~Sequential /\ \E d \in Drainers : cnt[d] < Lim(d) /\ DBegin(d, DrOp(d)) /\ Began(d)
MDNull      == ~Sequential /\ \E d \in Drainers : DNull(d) /\ Same
MDLoad      == ~Sequential /\ \E d \in Drainers, k \in HK : DLoad(d, k) /\ Same
MDDetach    == ~Sequential /\ \E d \in Drainers : DDetach(d) /\ Same
MDCasFail   == ~Sequential /\ \E d \in Drainers : DCasFail(d) /\ Same
MDReload    == ~Sequential /\ \E d \in Drainers : DReload(d) /\ Same
MDQok       == ~Sequential /\ \E d \in Drainers : DQok(d) /\ Same
MDDeliver   == ~Sequential /\ \E d \in Drainers : DDeliver(d) /\ Same
MDFold      == ~Sequential /\ \E d \in Drainers : DFold(d) /\ Same
MDEnd       == ~Sequential /\ \E d \in Drainers : DEnd(d) /\ Same

MCNext == \/ MRegisterC \/ MRegisterG \/ MRegisterH \/ MInc \/ MAbs \/ MSet \/ MIncG \/ MDecG \/ MRecord \/ MDescribe \/ MUpkeep \/ MRender
          \/ MRFix \/ MRRefix \/ MRClaimIn \/ MRClaimLost \/ MRFull \/ MRCasFull \/ MRAck \/ MIncC \/ MDBegin \/ MDNull \/ MDLoad \/ MDDetach \/ MDCasFail \/ MDReload \/ MDQok \/ MDDeliver \/ MDFold \/ MDEnd
MCSpec == MCInit /\ [][MCNext]_mvars

\* at the end of a concurrent run (everything finished) a last render is complete
AllDone == ~Sequential /\ Quiet /\ \A p \in Recorders \cup Drainers : cnt[p] = (IF p \in Recorders THEN RLim(p) ELSE Lim(p))
=============================================================================
