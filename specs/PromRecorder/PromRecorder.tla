---------------------------- MODULE PromRecorder ----------------------------
(***************************************************************************)
(* metrics-exporter-prometheus: what PrometheusHandle::render() reports,   *)
(* as a function of the history of register / update / describe / render / *)
(* run_upkeep calls (recorder.rs, registry.rs, distribution.rs,            *)
(* formatting.rs, exporter/builder.rs; histogram.rs and bucket.rs of       *)
(* metrics-util underneath).                                               *)
(*                                                                         *)
(* Values.  A metric name, label name, label value, description and unit   *)
(* is a small integer id (the harness owns the tables id <-> string; the   *)
(* raw strings need sanitising / escaping, C08 decides that part).  A key  *)
(* is <<name, set of <<label name, label value>> >>.  Counter values are   *)
(* naturals modulo cfg.W (W = 16 <-> multiples of 2^60 in u64; W = 0: no   *)
(* wrap in range), gauges integers (ids >= 1000 name special f64 values    *)
(* that are only ever `set`), histogram samples small integers (sums are   *)
(* exact and order independent).                                           *)
(*                                                                         *)
(* Histograms.  Per key: `pend` = samples sitting in the bucket (the       *)
(* attached block), `dist` = the persistent distribution that drains fold  *)
(* samples into (Inner.distributions).  The bucket is the ABSTRACT bucket: *)
(* record() = RFix (the pusher fixes the block it will claim a slot in:    *)
(* tail load / CAS of a first block) ; RClaim (fetch_add on that block's   *)
(* write index; write + acknowledge are folded into it).  A drain of one   *)
(* key under the distributions write lock = DDetach (clear_with's CAS) ;   *)
(* DQok (the last, successful is_quiesced() of the detached block) ;       *)
(* DDeliver (Block::data() length read + callback record_samples).         *)
(* `ep[k]` numbers the blocks of key k, `att[k]` = tail is non-null.       *)
(*                                                                         *)
(* Named deviation CF05a (inherited from the bucket, C05): a claim in a    *)
(* block that was detached and whose quiescence check already passed is    *)
(* not delivered (RClaimLost).  Between DQok and DDeliver the claim may    *)
(* still make it (if it is acknowledged before the length read): both      *)
(* outcomes are behaviours.  `lost` collects exactly these samples.        *)
(* Blocks: BS slots each (64 in the code).  `fill[k]` = write index of the  *)
(* attached tail block, a full block gets a successor (RFull ; RCasFull),   *)
(* the attached chain is the blocks lo[k]..ep[k]; a drain detaches the     *)
(* whole chain and goes through it block by block, newest first (dcur),    *)
(* WAITING for each block until every claimed slot of it is acknowledged   *)
(* (DQok's guard; RAck is the acknowledge of the claimed slot).            *)
(* DrainWaitsFirstBlockOnly = TRUE is a named variant (not the code): the  *)
(* wait is skipped for the blocks behind the detached tail; a block with a *)
(* claimed, unacknowledged slot is then delivered only up to that slot and *)
(* the samples behind it are `skipped` (NoSkippedSample fails).            *)
(***************************************************************************)
EXTENDS Naturals, Integers, Sequences, FiniteSets, TLC

CONSTANTS Recorders,   \* ids of recording threads (concurrent part)
          Drainers,    \* ids of threads calling render() / run_upkeep() concurrently
          LockedDrain  \* TRUE: as coded -- drain_histograms_to_distributions holds the distributions write lock
                       \*   from before clear_with until record_samples returned, key by key.
                       \* FALSE: two-phase variant (kept to show that the model tells the difference): every bucket
                       \*   is first emptied into a private buffer with no lock held, the buffers are folded into
                       \*   the distributions afterwards under one lock (DFold); a render of ANOTHER thread in
                       \*   between reports less than was recorded (RenderFaithful / RenderBounds fail).
CONSTANTS BS,          \* slots per bucket block (64; 2 in the exhaustive block scope)
          DrainWaitsFirstBlockOnly,  \* FALSE: as coded. TRUE: witness variant, see above
          CF07aFixed   \* FALSE: the code as it is -- a failed clear_with CAS ends the drain of that key (finding CF07a).
                       \* TRUE: the repaired code (notes/c07_fix_CF07a.diff): the drain loads the tail again and retries.
                       \* (ONE switch: checks/c07.py reads VERIF_C07_CF07A_FIXED and writes it into every configuration.)

LE  == 100      \* label-name id of `le`
QU  == 101      \* label-name id of `quantile`
INF == 999      \* value id of le="+Inf"
NoKey == <<0, {}>>

VARIABLES
  cfg,        \* builder configuration: [globals, gb, ov, nq, unit, W]
  ctr, gau,   \* registered counters / gauges: key -> value
  hreg,       \* registered histogram keys
  pend,       \* key -> bag of samples in the attached block            (sparse: default empty)
  dist,       \* key -> bag folded into the distribution; DOMAIN = distributions that exist
  att, ep,    \* key -> tail non-null (default FALSE) ; key -> blocks created so far (default 0)
  fill, lo,   \* key -> slots claimed in the attached tail block ; first block of the attached chain (defaults 0)
  lock,       \* holder of the distributions write lock inside a per-key drain (0: free)
  dkey, dst, det, dep,  \* the per-key drain in progress: key, "none"|"load"|"retry"|"det"|"qok" (of block dcur), detached bag, number of the tail block loaded / detached
  dlo, dcur,            \*   oldest block of the detached chain ; block being waited for / delivered
  rpc, rk, rv, rep,     \* recorders: "idle"|"fixed"|"claimed"|"full"|"retry", key, sample, block number fixed
  after,                \*   (variant only) recorder -> samples claimed behind its unacknowledged slot in the same block
  dpc, dop, todo, csnap, gsnap,  \* drainers: "idle"|"drain"|"folded", "render"|"upkeep", keys still to drain, counter/gauge snapshot
  buf,        \* drainer -> key -> bag: private buffer of the two-phase variant (always empty when LockedDrain)
  nbeg,       \* (history) drainer -> key -> samples counted for the key when its render began
  desc,       \* name -> <<description id, unit id>> (first wins)
  out,        \* exposition produced by the last finished render
  \* ---- history (never read by a guard)
  upd,        \* drainer -> some update happened since its current call began
  pclean,     \* no update since the last finished render began
  twiceOK,    \* verdict: render; render without update in between gave equal expositions
  faithful,   \* verdict: a render with no update since it began reported exactly what was recorded
  bounded,    \* verdict: EVERY render reported, per histogram series, at least the samples recorded before it
              \*          began and at most those recorded when it ended
  crec,       \* key -> bag of every sample ever claimed
  lost,       \* key -> bag of samples lost to CF05a
  skipped,    \* key -> bag of samples a drain passed over (only the DrainWaitsFirstBlockOnly variant can)
  cfail,      \* some drain skipped a bucket because its clear_with CAS failed (candidate finding CF07a)
  cinc, cabs, \* counter key -> sum of increments ; highest absolute value (sparse, defaults 0 / -1)
  dfirst      \* name -> first <<description, unit>> ever given

vScal  == <<ctr, gau, cinc, cabs>>
hBkt   == <<att, ep, fill, lo>>
hAcc   == <<crec, lost, skipped, cfail>>
vHist  == <<hreg, pend, dist, hBkt, hAcc>>
vDrain == <<lock, dkey, dst, det, dep, dlo, dcur>>
vRec   == <<rpc, rk, rv, rep, after>>
vDr    == <<dpc, dop, todo, csnap, gsnap, buf, nbeg>>
vDirty == <<upd, pclean>>
vOut   == <<out, twiceOK, faithful, bounded>>
vDesc  == <<desc, dfirst>>
vars   == <<cfg, vScal, vHist, vDrain, vRec, vDr, vDirty, vOut, vDesc>>

-----------------------------------------------------------------------------
(* sparse maps and bags                                                    *)
EF == [x \in {} |-> 0]                               \* the empty map / empty bag
Get(f, k, d) == IF k \in DOMAIN f THEN f[k] ELSE d
Put(f, k, v) == [x \in DOMAIN f \cup {k} |-> IF x = k THEN v ELSE f[x]]
\* canonical sparse update: the default value is never stored
Upd(f, k, v, d) == [x \in (DOMAIN f \cup {k}) \ (IF v = d THEN {k} ELSE {}) |-> IF x = k THEN v ELSE f[x]]

RECURSIVE SumF(_, _)
SumF(f, S) == IF S = {} THEN 0 ELSE LET x == CHOOSE y \in S : TRUE IN f[x] + SumF(f, S \ {x})
BAdd(b, v)  == [x \in DOMAIN b \cup {v} |-> Get(b, x, 0) + (IF x = v THEN 1 ELSE 0)]
BPlus(a, b) == [x \in DOMAIN a \cup DOMAIN b |-> Get(a, x, 0) + Get(b, x, 0)]
BMinus(a, b) == [x \in {y \in DOMAIN a : a[y] > Get(b, y, 0)} |-> a[x] - Get(b, x, 0)]
BCount(b)   == SumF(b, DOMAIN b)
BSum(b)     == SumF([x \in DOMAIN b |-> x * b[x]], DOMAIN b)
BLe(b, u)   == SumF(b, {x \in DOMAIN b : x <= u})    \* Histogram: samples <= bound (cumulative)
Max(a, b) == IF a >= b THEN a ELSE b
MinOf(S) == CHOOSE x \in S : \A y \in S : x <= y

Wrap(x) == IF cfg.W = 0 THEN x ELSE x % cfg.W        \* AtomicU64::fetch_add wraps

-----------------------------------------------------------------------------
(* the exposition                                                          *)

\* key_to_parts: global labels, overridden by the key's own label of the same name
Merged(k) == {g \in cfg.globals : \A l \in k[2] : l[1] # g[1]} \cup k[2]
Help(n)   == IF n \in DOMAIN desc THEN desc[n][1] ELSE 0
\* unit suffix of the sample names: only if enabled; Unit::Count (id 1) has none
UnitOf(n) == IF cfg.unit /\ n \in DOMAIN desc /\ desc[n][2] # 1 THEN desc[n][2] ELSE 0

\* DistributionBuilder::get_distribution: first matching override (matchers sorted), else the
\* global buckets, else a summary (<<>>)
OvIdx(n)  == {i \in DOMAIN cfg.ov : n \in cfg.ov[i].names}
Bounds(n) == IF OvIdx(n) # {} THEN cfg.ov[MinOf(OvIdx(n))].b ELSE cfg.gb
IsHist(n) == Bounds(n) # <<>>

Smp(sfx, u, labels, val) == [sfx |-> sfx, unit |-> u, labels |-> labels, val |-> val]
NamesOf(S) == {k[1] : k \in S}
Of(S, n)   == {k \in S : k[1] = n}

ScalarFam(f, n, ty) ==
  [name |-> n, type |-> ty, help |-> Help(n),
   samples |-> {Smp("", UnitOf(n), Merged(k), f[k]) : k \in Of(DOMAIN f, n)}]

DistSamples(n, k, bag) ==
  LET L == Merged(k)  u == UnitOf(n)  B == Bounds(n) IN
  (IF IsHist(n)
     THEN {Smp("bucket", u, L \cup {<<LE, B[i]>>}, BLe(bag, B[i])) : i \in DOMAIN B}
          \cup {Smp("bucket", u, L \cup {<<LE, INF>>}, BCount(bag))}
     ELSE {Smp("", u, L \cup {<<QU, i>>}, 0) : i \in 1..cfg.nq})       \* quantile VALUES are not compared
  \cup {Smp("sum", u, L, BSum(bag)), Smp("count", u, L, BCount(bag))}

DistFam(d, n) ==
  [name |-> n, type |-> IF IsHist(n) THEN "histogram" ELSE "summary", help |-> Help(n),
   samples |-> UNION {DistSamples(n, k, d[k]) : k \in Of(DOMAIN d, n)}]

\* Inner::render over a snapshot (counters, gauges, distributions)
Expo(c, g, d) ==
  {ScalarFam(c, n, "counter") : n \in NamesOf(DOMAIN c)}
  \cup {ScalarFam(g, n, "gauge") : n \in NamesOf(DOMAIN g)}
  \cup {DistFam(d, n) : n \in NamesOf(DOMAIN d)}

\* ---- the property, read off an exposition `o` (independent of how Expo builds it)
ValsOf(o, n, sfx, labels) ==
  {s.val : s \in {t \in UNION {f.samples : f \in {g \in o : g.name = n}} : t.sfx = sfx /\ t.labels = labels}}
\* (H: the histogram keys the call really drained -- all of them unless a clear_with CAS failed, CF07a)
CompleteOn(o, H) ==
  /\ \A k \in DOMAIN ctr : ValsOf(o, k[1], "", Merged(k)) = {ctr[k]}
  /\ \A k \in DOMAIN gau : ValsOf(o, k[1], "", Merged(k)) = {gau[k]}
  /\ \A k \in hreg \cap H :
       /\ ValsOf(o, k[1], "count", Merged(k)) = {BCount(Get(crec, k, EF)) - BCount(Get(lost, k, EF))}
       /\ ValsOf(o, k[1], "sum", Merged(k))   = {BSum(Get(crec, k, EF)) - BSum(Get(lost, k, EF))}

-----------------------------------------------------------------------------
InitWith(c) ==
  /\ cfg = c
  /\ ctr = EF /\ gau = EF /\ cinc = EF /\ cabs = EF
  /\ hreg = {} /\ pend = EF /\ dist = EF /\ att = EF /\ ep = EF /\ fill = EF /\ lo = EF
  /\ crec = EF /\ lost = EF /\ skipped = EF /\ cfail = FALSE
  /\ lock = 0 /\ dkey = NoKey /\ dst = "none" /\ det = EF /\ dep = 0 /\ dlo = 0 /\ dcur = 0
  /\ rpc = [p \in Recorders |-> "idle"] /\ rk = [p \in Recorders |-> NoKey]
  /\ rv = [p \in Recorders |-> 0] /\ rep = [p \in Recorders |-> 0] /\ after = [p \in Recorders |-> EF]
  /\ dpc = [d \in Drainers |-> "idle"] /\ dop = [d \in Drainers |-> "none"]
  /\ todo = [d \in Drainers |-> {}] /\ csnap = [d \in Drainers |-> EF] /\ gsnap = [d \in Drainers |-> EF]
  /\ buf = [d \in Drainers |-> EF] /\ nbeg = [d \in Drainers |-> EF]
  /\ desc = EF /\ dfirst = EF
  /\ out = {}
  /\ upd = [d \in Drainers |-> FALSE] /\ pclean = FALSE /\ twiceOK = TRUE /\ faithful = TRUE /\ bounded = TRUE

\* an update: the output of a later render may differ
Dirty == upd' = [d \in Drainers |-> TRUE] /\ pclean' = FALSE

\* nothing is in flight
Quiet == lock = 0 /\ (\A p \in Recorders : rpc[p] = "idle") /\ (\A d \in Drainers : dpc[d] = "idle")

-----------------------------------------------------------------------------
(* register_* : get_or_create in the registry; an existing handle is returned as is *)
RegisterC(k) ==
  /\ ctr' = IF k \in DOMAIN ctr THEN ctr ELSE Put(ctr, k, 0)
  /\ Dirty /\ UNCHANGED <<cfg, gau, cinc, cabs, vHist, vDrain, vRec, vDr, vOut, vDesc>>
RegisterG(k) ==
  /\ gau' = IF k \in DOMAIN gau THEN gau ELSE Put(gau, k, 0)
  /\ Dirty /\ UNCHANGED <<cfg, ctr, cinc, cabs, vHist, vDrain, vRec, vDr, vOut, vDesc>>
RegisterH(k) ==
  /\ hreg' = hreg \cup {k}
  /\ Dirty /\ UNCHANGED <<cfg, vScal, pend, dist, hBkt, hAcc, vDrain, vRec, vDr, vOut, vDesc>>

(* counters: increment = fetch_add (wrapping), absolute = fetch_max *)
IncA(k, n) ==
  /\ ctr' = Put(ctr, k, Wrap(Get(ctr, k, 0) + n))
  /\ cinc' = Upd(cinc, k, Get(cinc, k, 0) + n, 0)
  /\ Dirty /\ UNCHANGED <<cfg, gau, cabs, vHist, vDrain, vRec, vDr, vOut, vDesc>>
AbsA(k, n) ==
  /\ ctr' = Put(ctr, k, Max(Get(ctr, k, 0), n))
  /\ cabs' = Upd(cabs, k, Max(Get(cabs, k, -1), n), -1)
  /\ Dirty /\ UNCHANGED <<cfg, gau, cinc, vHist, vDrain, vRec, vDr, vOut, vDesc>>

(* gauges *)
SetA(k, n) ==
  /\ gau' = Put(gau, k, n)
  /\ Dirty /\ UNCHANGED <<cfg, ctr, cinc, cabs, vHist, vDrain, vRec, vDr, vOut, vDesc>>
IncGA(k, n) == SetA(k, Get(gau, k, 0) + n)
DecGA(k, n) == SetA(k, Get(gau, k, 0) - n)

(* describe_*: add_description_if_missing, keyed by the (sanitised) name, whatever the kind *)
DescribeA(n, d, u) ==
  /\ desc' = IF n \in DOMAIN desc THEN desc ELSE Put(desc, n, <<d, u>>)
  /\ dfirst' = IF n \in DOMAIN dfirst THEN dfirst ELSE Put(dfirst, n, <<d, u>>)
  /\ Dirty /\ UNCHANGED <<cfg, vScal, vHist, vDrain, vRec, vDr, vOut>>

-----------------------------------------------------------------------------
(* Histogram::record() = AtomicBucket::push, at the granularity            *)
(*   RFix (tail load / first-block CAS) ; RClaim* (write.fetch_add) ;      *)
(*   RAck (slot written, read.fetch_or) -- or RFull ; RCasFull ; retry     *)

KAtt(k) == Get(att, k, FALSE)
\* the pusher fixes its block: tail.load() saw a block, or its CAS of a first block ran
RFix(p, k, v) ==
  /\ k \in hreg
  /\ rpc[p] = "idle" \/ (rpc[p] = "retry" /\ rk[p] = k /\ rv[p] = v)
  /\ rpc' = [rpc EXCEPT ![p] = "fixed"] /\ rk' = [rk EXCEPT ![p] = k] /\ rv' = [rv EXCEPT ![p] = v]
  /\ IF KAtt(k)
       THEN rep' = [rep EXCEPT ![p] = Get(ep, k, 0)] /\ UNCHANGED hBkt
       ELSE /\ att' = Upd(att, k, TRUE, FALSE)
            /\ ep' = Upd(ep, k, Get(ep, k, 0) + 1, 0)
            /\ lo' = Upd(lo, k, Get(ep, k, 0) + 1, 0)
            /\ fill' = Upd(fill, k, 0, 0)
            /\ rep' = [rep EXCEPT ![p] = Get(ep, k, 0) + 1]
  /\ UNCHANGED <<cfg, vScal, hreg, pend, dist, hAcc, vDrain, after, vDr, vDirty, vOut, vDesc>>

Attached(p) == KAtt(rk[p]) /\ rep[p] = Get(ep, rk[p], 0)                               \* its block is the tail
InChain(p)  == KAtt(rk[p]) /\ Get(lo, rk[p], 0) <= rep[p] /\ rep[p] <= Get(ep, rk[p], 0)  \* ... is reachable from the tail
\* its block is the tail block of the chain being drained, and the drain is still at that block
TailOpen(p) == dst \in {"det", "qok"} /\ dkey = rk[p] /\ rep[p] = dep /\ dcur = dep
Claimed(p)  == /\ crec' = Upd(crec, rk[p], BAdd(Get(crec, rk[p], EF), rv[p]), EF)
               /\ rpc' = [rpc EXCEPT ![p] = "claimed"]

\* a slot is claimed in the attached tail block (room left), or in the detached tail block before it is delivered
RClaimIn(p) ==
  /\ rpc[p] = "fixed"
  /\ \/ /\ Attached(p) /\ Get(fill, rk[p], 0) < BS
        /\ pend' = Upd(pend, rk[p], BAdd(Get(pend, rk[p], EF), rv[p]), EF)
        /\ fill' = Upd(fill, rk[p], Get(fill, rk[p], 0) + 1, 0)
        /\ after' = IF DrainWaitsFirstBlockOnly
                      THEN [q \in Recorders |-> IF q # p /\ rpc[q] = "claimed" /\ rk[q] = rk[p] /\ rep[q] = rep[p]
                                                  THEN BAdd(after[q], rv[p]) ELSE after[q]]
                      ELSE after
        /\ UNCHANGED det
     \/ /\ ~InChain(p) /\ TailOpen(p)
        /\ det' = BAdd(det, rv[p])
        /\ UNCHANGED <<pend, fill, after>>
  /\ Claimed(p) /\ Dirty
  /\ UNCHANGED <<cfg, vScal, hreg, dist, att, ep, lo, lost, skipped, cfail, lock, dkey, dst, dep, dlo, dcur, rk, rv, rep, vDr, vOut, vDesc>>

\* CF05a: the slot is claimed in a detached block after the drain's quiescence check of it
RClaimLost(p) ==
  /\ rpc[p] = "fixed" /\ ~InChain(p)
  /\ TailOpen(p) => dst = "qok"
  /\ lost' = Upd(lost, rk[p], BAdd(Get(lost, rk[p], EF), rv[p]), EF)
  /\ Claimed(p)
  /\ UNCHANGED <<cfg, vScal, hreg, pend, dist, hBkt, skipped, cfail, vDrain, rk, rv, rep, after, vDr, vDirty, vOut, vDesc>>

\* the claim fails: the block is full (always so for a block behind the tail; for a block that is no
\* longer reachable the model does not keep its fill level: either outcome is a behaviour)
RFull(p) ==
  /\ rpc[p] = "fixed"
  /\ \/ Attached(p) /\ Get(fill, rk[p], 0) >= BS
     \/ InChain(p) /\ ~Attached(p)
     \/ ~InChain(p)
  /\ rpc' = [rpc EXCEPT ![p] = "full"]
  /\ UNCHANGED <<cfg, vScal, vHist, vDrain, rk, rv, rep, after, vDr, vDirty, vOut, vDesc>>

\* tail.compare_exchange(full block, new block linked to it): on success the pusher claims in the new block
RCasFull(p) ==
  /\ rpc[p] = "full"
  /\ IF Attached(p)
       THEN /\ ep' = Upd(ep, rk[p], rep[p] + 1, 0) /\ fill' = Upd(fill, rk[p], 0, 0)
            /\ rep' = [rep EXCEPT ![p] = @ + 1] /\ rpc' = [rpc EXCEPT ![p] = "fixed"]
            /\ UNCHANGED <<att, lo>>
       ELSE /\ rpc' = [rpc EXCEPT ![p] = "retry"] /\ rep' = [rep EXCEPT ![p] = 0]
            /\ UNCHANGED hBkt
  /\ UNCHANGED <<cfg, vScal, hreg, pend, dist, hAcc, vDrain, rk, rv, after, vDr, vDirty, vOut, vDesc>>

\* the claimed slot is written and acknowledged; record() returns
RAck(p) ==
  /\ rpc[p] = "claimed"
  /\ rpc' = [rpc EXCEPT ![p] = "idle"] /\ rk' = [rk EXCEPT ![p] = NoKey]
  /\ rv' = [rv EXCEPT ![p] = 0] /\ rep' = [rep EXCEPT ![p] = 0] /\ after' = [after EXCEPT ![p] = EF]
  /\ UNCHANGED <<cfg, vScal, vHist, vDrain, vDr, vDirty, vOut, vDesc>>

\* record() run to completion while nothing else runs (sequential histories)
RecordA(k, v) ==
  /\ Quiet
  /\ hreg' = hreg \cup {k}
  /\ att' = Upd(att, k, TRUE, FALSE)
  /\ IF KAtt(k) /\ Get(fill, k, 0) < BS
       THEN fill' = Upd(fill, k, Get(fill, k, 0) + 1, 0) /\ UNCHANGED <<ep, lo>>
       ELSE /\ ep' = Upd(ep, k, Get(ep, k, 0) + 1, 0) /\ fill' = Upd(fill, k, 1, 0)
            /\ lo' = IF KAtt(k) THEN lo ELSE Upd(lo, k, Get(ep, k, 0) + 1, 0)
  /\ pend' = Upd(pend, k, BAdd(Get(pend, k, EF), v), EF)
  /\ crec' = Upd(crec, k, BAdd(Get(crec, k, EF), v), EF)
  /\ Dirty /\ UNCHANGED <<cfg, vScal, dist, lost, skipped, cfail, vDrain, vRec, vDr, vOut, vDesc>>

-----------------------------------------------------------------------------
(* render() / run_upkeep()                                                 *)

\* bookkeeping of a finished render producing `o`; cleanSince: no update since it began
\* samples accounted for per histogram key right now (everything claimed, minus the CF05a losses)
NowCounts == [k \in hreg |-> BCount(Get(crec, k, EF)) - BCount(Get(lost, k, EF))]
\* every series that existed when the render began shows a count between `low` and what is recorded now
Within(o, low) ==
  \A k \in DOMAIN low :
    /\ ValsOf(o, k[1], "count", Merged(k)) # {}
    /\ \A c \in ValsOf(o, k[1], "count", Merged(k)) : low[k] <= c /\ c <= NowCounts[k]
\* `low` = what was counted per key when the render began, restricted to the keys it really drained:
\* a key whose clear_with CAS failed (DCasFail, candidate finding CF07a) is not asserted for this render,
\* and this render is not compared with the next one.
Finish(o, cleanSince, low) ==
  /\ out' = o
  /\ twiceOK' = (twiceOK /\ (pclean => o = out))
  /\ faithful' = (faithful /\ (cleanSince => CompleteOn(o, DOMAIN low)))
  /\ bounded' = (bounded /\ Within(o, low))
  /\ pclean' = (cleanSince /\ hreg \subseteq DOMAIN low)

\* drain_histograms_to_distributions run to completion: every registered histogram gets its
\* distribution, every bucket is emptied into it (clear_with)
DrainedDist == [k \in hreg |-> BPlus(Get(dist, k, EF), Get(pend, k, EF))]
DrainAll == dist' = DrainedDist /\ pend' = EF /\ att' = EF /\ fill' = EF /\ lo' = EF

UpkeepA ==
  /\ Quiet /\ DrainAll
  /\ UNCHANGED <<cfg, vScal, hreg, ep, hAcc, vDrain, vRec, vDr, vDirty, vOut, vDesc>>

RenderA ==
  /\ Quiet /\ DrainAll
  /\ Finish(Expo(ctr, gau, DrainedDist), TRUE, NowCounts)
  /\ UNCHANGED <<cfg, vScal, hreg, ep, hAcc, vDrain, vRec, vDr, upd, vDesc>>

\* ---- the same calls at the granularity of the per-key drains (concurrent part)

\* the call begins: render() loads every counter and gauge, then lists the histogram handles
DBegin(d, op) ==
  /\ dpc[d] = "idle" /\ op \in {"render", "upkeep"}
  /\ dpc' = [dpc EXCEPT ![d] = "drain"] /\ dop' = [dop EXCEPT ![d] = op]
  /\ todo' = [todo EXCEPT ![d] = hreg]
  /\ csnap' = [csnap EXCEPT ![d] = IF op = "render" THEN ctr ELSE EF]
  /\ gsnap' = [gsnap EXCEPT ![d] = IF op = "render" THEN gau ELSE EF]
  /\ nbeg' = [nbeg EXCEPT ![d] = IF op = "render" THEN NowCounts ELSE EF]
  /\ upd' = [upd EXCEPT ![d] = FALSE]
  /\ UNCHANGED buf
  /\ UNCHANGED <<cfg, vScal, vHist, vDrain, vRec, pclean, vOut, vDesc>>

\* a key whose bucket is empty (tail null): clear_with does nothing; the distribution is created
DNull(d) ==
  /\ dpc[d] = "drain" /\ lock = 0
  /\ \E k \in todo[d] :
       /\ ~Get(att, k, FALSE)
       /\ dist' = IF k \in DOMAIN dist \/ ~LockedDrain THEN dist ELSE Put(dist, k, EF)
       /\ todo' = [todo EXCEPT ![d] = @ \ {k}]
  /\ UNCHANGED <<cfg, vScal, hreg, pend, hBkt, hAcc, vDrain, vRec, dpc, dop, csnap, gsnap, buf, nbeg, vDirty, vOut, vDesc>>

\* write lock taken, distribution created if missing, clear_with: tail.load() sees a block
DLoad(d, k) ==
  /\ dpc[d] = "drain" /\ lock = 0 /\ k \in todo[d] /\ KAtt(k)
  /\ lock' = d /\ dkey' = k /\ dst' = "load" /\ dep' = Get(ep, k, 0)
  /\ dist' = IF k \in DOMAIN dist \/ ~LockedDrain THEN dist ELSE Put(dist, k, EF)
  /\ UNCHANGED <<cfg, vScal, hreg, pend, hBkt, hAcc, det, dlo, dcur, vRec, vDr, vDirty, vOut, vDesc>>

\* clear_with: tail.compare_exchange(loaded block, null) succeeds: the whole chain is detached
DDetach(d) ==
  /\ lock = d /\ dst = "load" /\ Get(ep, dkey, 0) = dep
  /\ dst' = "det" /\ det' = Get(pend, dkey, EF)
  /\ dcur' = dep /\ dlo' = Get(lo, dkey, 0)
  /\ pend' = Upd(pend, dkey, EF, EF) /\ att' = Upd(att, dkey, FALSE, FALSE)
  /\ fill' = Upd(fill, dkey, 0, 0) /\ lo' = Upd(lo, dkey, 0, 0)
  /\ UNCHANGED <<cfg, vScal, hreg, dist, ep, hAcc, lock, dkey, dep, vRec, vDr, vDirty, vOut, vDesc>>

\* ... fails: a pusher replaced the (full) tail block since the load.  clear_with returns without
\* delivering anything: this call does not drain the key at all (candidate finding CF07a: the render
\* reports none of the key's pending samples; `nbeg` no longer bounds the key from below).
DCasFail(d) ==
  /\ lock = d /\ dst = "load" /\ Get(ep, dkey, 0) # dep
  /\ IF CF07aFixed
       THEN /\ dst' = "retry"          \* repaired: still inside clear_with, lock held
            /\ UNCHANGED <<lock, dkey, dep, todo, nbeg, cfail>>
       ELSE /\ lock' = 0 /\ dkey' = NoKey /\ dst' = "none" /\ dep' = 0
            /\ todo' = [todo EXCEPT ![d] = @ \ {dkey}]
            /\ nbeg' = [nbeg EXCEPT ![d] = [k \in DOMAIN @ \ {dkey} |-> @[k]]]
            /\ cfail' = TRUE
  /\ UNCHANGED <<cfg, vScal, hreg, pend, dist, hBkt, crec, lost, skipped, det, dlo, dcur, vRec, dpc, dop, csnap, gsnap, buf, vDirty, vOut, vDesc>>

\* (repaired code only) the tail is loaded again (it cannot be null: only pushers moved it)
DReload(d) ==
  /\ CF07aFixed /\ lock = d /\ dst = "retry"
  /\ dst' = "load" /\ dep' = Get(ep, dkey, 0)
  /\ UNCHANGED <<cfg, vScal, vHist, lock, dkey, det, dlo, dcur, vRec, vDr, vDirty, vOut, vDesc>>

\* recorders with a claimed, unacknowledged slot in block b of the chain being drained
Stalled(b) == {p \in Recorders : rpc[p] = "claimed" /\ rk[p] = dkey /\ rep[p] = b}
\* the is_quiesced() of block dcur that succeeds: every claimed slot of the block is acknowledged.
\* (While it does not hold the drain spins: no step.)  The variant does not wait behind the tail.
DQok(d) ==
  /\ lock = d /\ dst = "det"
  /\ Stalled(dcur) = {} \/ (DrainWaitsFirstBlockOnly /\ dcur < dep)
  /\ dst' = "qok"
  /\ UNCHANGED <<cfg, vScal, vHist, lock, dkey, det, dep, dlo, dcur, vRec, vDr, vDirty, vOut, vDesc>>

\* (variant) what a block with an unacknowledged slot does not deliver: that slot and everything behind it
Behind(b) == IF Stalled(b) = {} \/ ~DrainWaitsFirstBlockOnly \/ b = dep THEN EF
             ELSE LET p == CHOOSE q \in Stalled(b) : \A r \in Stalled(b) : BCount(after[q]) >= BCount(after[r])
                  IN BAdd(after[p], rv[p])
\* data() of block dcur: length read; record_samples(); then the next (older) block, or lock released
DDeliver(d) ==
  /\ lock = d /\ dst = "qok"
  /\ skipped' = IF Behind(dcur) = EF THEN skipped ELSE Upd(skipped, dkey, BPlus(Get(skipped, dkey, EF), Behind(dcur)), EF)
  /\ IF dcur > dlo
       THEN /\ dcur' = dcur - 1 /\ dst' = "det" /\ det' = BMinus(det, Behind(dcur))
            /\ UNCHANGED <<dist, buf, todo, lock, dkey, dep, dlo>>
       ELSE /\ IF LockedDrain
                 THEN dist' = Put(dist, dkey, BPlus(dist[dkey], BMinus(det, Behind(dcur)))) /\ UNCHANGED buf
                 ELSE buf' = [buf EXCEPT ![d] = Upd(@, dkey, BPlus(Get(@, dkey, EF), BMinus(det, Behind(dcur))), EF)] /\ UNCHANGED dist
            /\ todo' = [todo EXCEPT ![d] = @ \ {dkey}]
            /\ lock' = 0 /\ dkey' = NoKey /\ dst' = "none" /\ det' = EF /\ dep' = 0 /\ dlo' = 0 /\ dcur' = 0
  /\ UNCHANGED <<cfg, vScal, hreg, pend, hBkt, crec, lost, cfail, vRec, dpc, dop, csnap, gsnap, nbeg, vDirty, vOut, vDesc>>

\* (two-phase variant only) every bucket emptied: write lock taken once, every handle's distribution created
\* if missing, the private buffer folded in.  (`lock` serialises the bucket drains in this variant too: a
\* simplification, the variant only serves as the witness that the locked drain matters.)
DFold(d) ==
  /\ ~LockedDrain /\ dpc[d] = "drain" /\ todo[d] = {} /\ lock = 0
  /\ dist' = [k \in DOMAIN dist \cup hreg |-> BPlus(Get(dist, k, EF), Get(buf[d], k, EF))]
  /\ buf' = [buf EXCEPT ![d] = EF]
  /\ dpc' = [dpc EXCEPT ![d] = "folded"]
  /\ UNCHANGED <<cfg, vScal, hreg, pend, hBkt, hAcc, vDrain, vRec, dop, todo, csnap, gsnap, nbeg, vDirty, vOut, vDesc>>

\* every key drained; render(): distributions.read().clone() and formatting
DEnd(d) ==
  /\ dpc[d] = (IF LockedDrain THEN "drain" ELSE "folded") /\ todo[d] = {} /\ lock = 0
  /\ dpc' = [dpc EXCEPT ![d] = "idle"] /\ dop' = [dop EXCEPT ![d] = "none"]
  /\ csnap' = [csnap EXCEPT ![d] = EF] /\ gsnap' = [gsnap EXCEPT ![d] = EF] /\ nbeg' = [nbeg EXCEPT ![d] = EF]
  /\ IF dop[d] = "render"
       THEN Finish(Expo(csnap[d], gsnap[d], dist), ~upd[d], nbeg[d])
       ELSE UNCHANGED <<out, twiceOK, faithful, bounded, pclean>>
  /\ UNCHANGED <<cfg, vScal, vHist, vDrain, vRec, todo, buf, upd, vDesc>>

-----------------------------------------------------------------------------
(* Properties                                                              *)

\* every sample ever recorded under a key is in exactly one place: the bucket, the drain in
\* progress, the distribution -- or it is a CF05a loss
InDet(k) == IF dkey = k THEN det ELSE EF
RECURSIVE InBufs(_, _)
InBufs(k, D) == IF D = {} THEN EF ELSE LET d == CHOOSE x \in D : TRUE IN BPlus(Get(buf[d], k, EF), InBufs(k, D \ {d}))
Conservation ==
  \A k \in hreg :
    Get(crec, k, EF) = BPlus(BPlus(BPlus(Get(pend, k, EF), InDet(k)), InBufs(k, Drainers)), BPlus(BPlus(Get(dist, k, EF), Get(lost, k, EF)), Get(skipped, k, EF)))
\* a drain never passes over a sample (it waits for every block of the detached chain)
NoSkippedSample == skipped = EF
\* (strict; fails in the block scope: CF07a) no drain ever skips a bucket
NoSkippedDrain == ~cfail
\* the strict property (no allowance for CF05a)
StrictConservation == Conservation /\ lost = EF
\* a render with no update since it began reported count / sum / counter / gauge values exactly
RenderFaithful == faithful
\* EVERY render (also one racing updates, an upkeep or another render) shows for every histogram series a count
\* that is at least what had been recorded when it began and at most what is recorded when it ends
RenderBounds == bounded
\* with no recorder racing a drain nothing is ever lost (sequential histories: always)
NoLossSequential == (Recorders = {}) => lost = EF
\* counters: total of the increments (mod 2^64), or the highest absolute value
CounterMeaning ==
  \A k \in DOMAIN ctr :
    /\ Get(cabs, k, -1) = -1 => ctr[k] = Wrap(Get(cinc, k, 0))
    /\ Get(cinc, k, 0) = 0   => ctr[k] = Max(Get(cabs, k, -1), 0)
\* HELP: the first description given for the name
HelpFirst == desc = dfirst
RenderTwice == twiceOK
\* labels of every rendered sample: no label name twice; every global label present unless a
\* label of the same name overrides it; reserved names only where they belong
LabelsOK ==
  \A f \in out : \A s \in f.samples :
    /\ \A a, b \in s.labels : a[1] = b[1] => a = b
    /\ \A g \in cfg.globals : g \in s.labels \/ \E l \in s.labels : l[1] = g[1] /\ l # g
    /\ \A l \in s.labels : l[1] = LE => (f.type = "histogram" /\ s.sfx = "bucket")
    /\ \A l \in s.labels : l[1] = QU => (f.type = "summary" /\ s.sfx = "")
TypeOK ==
  /\ lock \in Drainers \cup {0}
  /\ dst \in {"none", "load", "retry", "det", "qok"}
  /\ (dst = "none") <=> (lock = 0)
  /\ DOMAIN dist \subseteq hreg /\ DOMAIN pend \subseteq hreg
  /\ \A p \in Recorders : rpc[p] \in {"idle", "fixed", "claimed", "full", "retry"}
  /\ (dst \in {"det", "qok"}) => (dlo <= dcur /\ dcur <= dep)
  /\ \A d \in Drainers : dpc[d] \in {"idle", "drain", "folded"} /\ todo[d] \subseteq hreg
=============================================================================
