------------------------- MODULE TracePromRecorder -------------------------
(* Trace validation: runs recorded from the real PrometheusRecorder (one ndjson *)
(* line per call, per abstract bucket step in scheduled runs) must be           *)
(* behaviours of PromRecorder.tla; every render()'s output, parsed by the       *)
(* independent parser, must be the exposition the model computes; every         *)
(* invariant of PromRecorder.tla must hold in every state.                      *)
(*                                                                              *)
(* Events (field `ev`):                                                         *)
(*   reset {cfg}                     a new recorder                             *)
(*   reg {kind,name,labels}  inc/abs {name,labels,n}  set/incg/decg {..,n}      *)
(*   rec {name,labels,v}  desc {name,d,unit}  upkeep  render {fams}             *)
(*                                   calls made while nothing else runs         *)
(*   c.begin {p,op}  c.end {p,op,fams}   a render/run_upkeep of thread p        *)
(*   d.null {p}  d.load {p,name,labels,b}  d.detach {..}  d.casfail  d.qok {b}  d.deliver {b} *)
(*   h.fix {p,name,labels,v,b}  h.claim {..}  h.ack  h.full {b}  h.casfull {ok,b}  c.inc *)
(*                                   scheduled runs: steps of the abstract bucket *)
(*   free {hk,ck,gk,conc,mono}  frender {fams}   real-parallel runs             *)
EXTENDS PromRecorder, Json, IOUtils, TLCExt
VARIABLE l
Rec == ndJsonDeserialize(IOEnv.TRACE)
tvars == <<vars, l>>

E == Rec[l]
Ev == Rec[l].ev
Step == l' = l + 1
Known(tag, what) == PrintT(<<"KNOWN", tag, what>>)

ToSet(s) == {s[i] : i \in DOMAIN s}
K(e) == <<e.name, ToSet(e.labels)>>
CfgOf(c) == [globals |-> ToSet(c.globals), gb |-> c.gb,
             ov |-> [i \in DOMAIN c.ov |-> [names |-> ToSet(c.ov[i].names), b |-> c.ov[i].b]],
             nq |-> c.nq, unit |-> c.unit, W |-> c.W]
FamOf(f) == [name |-> f.name, type |-> f.type, help |-> f.help,
             samples |-> {[sfx |-> s.sfx, unit |-> s.unit, labels |-> ToSet(s.labels), val |-> s.val] : s \in ToSet(f.samples)}]
Fams(e) == {FamOf(f) : f \in ToSet(e.fams)}
\* nothing collapsed when the logged lists became sets (a duplicated family or line would)
NoDupObs(e) == /\ Cardinality(Fams(e)) = Len(e.fams)
               /\ \A i \in DOMAIN e.fams : Cardinality(FamOf(e.fams[i]).samples) = Len(e.fams[i].samples)

ResetTo(c) ==
  /\ cfg' = c
  /\ ctr' = EF /\ gau' = EF /\ cinc' = EF /\ cabs' = EF
  /\ hreg' = {} /\ pend' = EF /\ dist' = EF /\ att' = EF /\ ep' = EF /\ fill' = EF /\ lo' = EF
  /\ crec' = EF /\ lost' = EF /\ skipped' = EF /\ cfail' = FALSE
  /\ lock' = 0 /\ dkey' = NoKey /\ dst' = "none" /\ det' = EF /\ dep' = 0 /\ dlo' = 0 /\ dcur' = 0
  /\ rpc' = [p \in Recorders |-> "idle"] /\ rk' = [p \in Recorders |-> NoKey]
  /\ rv' = [p \in Recorders |-> 0] /\ rep' = [p \in Recorders |-> 0] /\ after' = [p \in Recorders |-> EF]
  /\ dpc' = [d \in Drainers |-> "idle"] /\ dop' = [d \in Drainers |-> "none"]
  /\ todo' = [d \in Drainers |-> {}] /\ csnap' = [d \in Drainers |-> EF] /\ gsnap' = [d \in Drainers |-> EF]
  /\ buf' = [d \in Drainers |-> EF] /\ nbeg' = [d \in Drainers |-> EF]
  /\ desc' = EF /\ dfirst' = EF /\ out' = {}
  /\ upd' = [d \in Drainers |-> FALSE] /\ pclean' = FALSE /\ twiceOK' = TRUE /\ faithful' = TRUE /\ bounded' = TRUE

\* CF05a is reported where a render of the real code confirms it: the exposition equals the model's
\* in a state where the model has a sample in `lost` (i.e. the count really is short by exactly those)
LostNow == {k \in DOMAIN lost : lost[k] # EF}
ReportLost == IF LostNow = {} THEN TRUE ELSE Known("CF05a", SumF([k \in LostNow |-> BCount(lost[k])], LostNow))

\* CF07a is reported where a render of the real code confirms it: the render whose clear_with CAS failed for a key with
\* pending samples ended with exactly the model's exposition (which lacks them)
SkippedBy(d) == {k \in hreg \ DOMAIN nbeg[d] : Get(pend, k, EF) # EF}
ReportSkipped(d) == IF dop[d] = "render" /\ ~CF07aFixed /\ SkippedBy(d) # {}
                      THEN Known("CF07a", SumF([k \in SkippedBy(d) |-> BCount(pend[k])], SkippedBy(d))) ELSE TRUE

\* ---- real-parallel runs: only what holds for every schedule
SeqBag(s) == [v \in {s[i][1] : i \in DOMAIN s} |-> SumF([i \in DOMAIN s |-> IF s[i][1] = v THEN s[i][2] ELSE 0], DOMAIN s)]
RECURSIVE ApplyH(_, _, _)   \* fold the per-key bags of a `free` event into a map
ApplyH(m, hk, i) == IF i > Len(hk) THEN m
                    ELSE ApplyH(Upd(m, K(hk[i]), BPlus(Get(m, K(hk[i]), EF), SeqBag(hk[i].vals)), EF), hk, i + 1)
RECURSIVE ApplyC(_, _, _)
ApplyC(m, ck, i) == IF i > Len(ck) THEN m ELSE ApplyC(Put(m, K(ck[i]), Wrap(Get(m, K(ck[i]), 0) + ck[i].n)), ck, i + 1)
RECURSIVE ApplyI(_, _, _)
ApplyI(m, ck, i) == IF i > Len(ck) THEN m ELSE ApplyI(Upd(m, K(ck[i]), Get(m, K(ck[i]), 0) + ck[i].n, 0), ck, i + 1)
RECURSIVE ApplyG(_, _, _)
ApplyG(m, gk, i) == IF i > Len(gk) THEN m ELSE ApplyG(Put(m, K(gk[i]), Get(m, K(gk[i]), 0) + gk[i].n), gk, i + 1)
\* everything the threads did, applied at once (the order does not matter: sums, bags)
FreeA(e) ==
  /\ Quiet /\ e.mono
  /\ hreg' = hreg \cup {K(e.hk[i]) : i \in DOMAIN e.hk}
  /\ pend' = ApplyH(pend, e.hk, 1) /\ crec' = ApplyH(crec, e.hk, 1)
  /\ att' = [k \in DOMAIN att \cup {K(e.hk[i]) : i \in DOMAIN e.hk} |-> TRUE]
  /\ ep' = [k \in DOMAIN ep \cup {K(e.hk[i]) : i \in DOMAIN e.hk} |-> Get(ep, k, 0) + 1]
  /\ fill' = EF /\ lo' = [k \in DOMAIN ep \cup {K(e.hk[i]) : i \in DOMAIN e.hk} |-> Get(ep, k, 0) + 1]
  /\ ctr' = ApplyC(ctr, e.ck, 1) /\ cinc' = ApplyI(cinc, e.ck, 1) /\ gau' = ApplyG(gau, e.gk, 1)
  /\ Dirty /\ UNCHANGED <<cfg, cabs, dist, lost, skipped, cfail, vDrain, vRec, vDr, vOut, vDesc>>
\* the final render of a real-parallel run.  If drains ran concurrently with the recording threads
\* (e.conc) samples may be missing (CF05a): then every histogram count/bucket/sum may only be LOWER
\* than the model's, everything else equal; with no concurrent drain the exposition is exact.
SameBut(m, o) ==
  /\ {[name |-> f.name, type |-> f.type, help |-> f.help] : f \in m} = {[name |-> f.name, type |-> f.type, help |-> f.help] : f \in o}
  /\ \A f \in m : \A g \in o : f.name = g.name =>
       /\ {[sfx |-> s.sfx, unit |-> s.unit, labels |-> s.labels] : s \in f.samples}
            = {[sfx |-> s.sfx, unit |-> s.unit, labels |-> s.labels] : s \in g.samples}
       /\ \A s \in f.samples : \A t \in g.samples :
            (s.sfx = t.sfx /\ s.unit = t.unit /\ s.labels = t.labels) =>
              IF f.type \in {"histogram", "summary"} THEN t.val <= s.val ELSE t.val = s.val
\* CF05a loses whole samples, at most one per (recording thread, detach of the bucket) pair: per series the
\* missing count dc is within the bound, the missing sum is that of dc samples (each in 0..maxv), no bucket
\* misses more than dc and the +Inf bucket misses exactly dc
ValIn(x, n, sfx, L) == CHOOSE v \in {s.val : s \in {t \in UNION {f.samples : f \in {g \in x : g.name = n}} : t.sfx = sfx /\ t.labels = L}} : TRUE
LossConsistent(m, o, bound, maxv) ==
  \A f \in {g \in m : g.type \in {"histogram", "summary"}} :
    \A L \in {s.labels : s \in {t \in f.samples : t.sfx = "count"}} :
      LET dc == ValIn(m, f.name, "count", L) - ValIn(o, f.name, "count", L)
          ds == ValIn(m, f.name, "sum", L) - ValIn(o, f.name, "sum", L)
      IN /\ 0 <= dc /\ dc <= bound
         /\ 0 <= ds /\ ds <= maxv * dc
         /\ \A s \in {t \in f.samples : t.sfx = "bucket" /\ {lb \in t.labels : lb[1] # LE} = L} :
              LET db == s.val - ValIn(o, f.name, "bucket", s.labels) IN
                /\ 0 <= db /\ db <= dc
                /\ (<<LE, INF>> \in s.labels) => db = dc
\* number of histogram series whose final _count is below the number recorded
ShortSeries(m, o) ==
  LET Counts(x) == UNION {{<<f.name, s.labels, s.val>> : s \in {y \in f.samples : y.sfx = "count"}} : f \in x}
  IN Cardinality(Counts(m) \ Counts(o))
FRender(e) ==
  /\ RenderA /\ NoDupObs(e)
  /\ IF out' = Fams(e) THEN TRUE
     ELSE e.conc /\ SameBut(out', Fams(e)) /\ LossConsistent(out', Fams(e), e.bound, e.maxv) /\ Known("CF05a-free", ShortSeries(out', Fams(e)))

P == Rec[l].p
TraceNext ==
  /\ l <= Len(Rec)
  /\ CASE Ev = "reset"   -> ResetTo(CfgOf(E.cfg)) /\ Step
       [] Ev = "reg"     -> (CASE E.kind = "c" -> RegisterC(K(E)) [] E.kind = "g" -> RegisterG(K(E)) [] E.kind = "h" -> RegisterH(K(E))) /\ Step
       [] Ev = "inc"     -> Quiet /\ IncA(K(E), E.n) /\ Step
       [] Ev = "abs"     -> Quiet /\ AbsA(K(E), E.n) /\ Step
       [] Ev = "set"     -> Quiet /\ SetA(K(E), E.n) /\ Step
       [] Ev = "incg"    -> Quiet /\ IncGA(K(E), E.n) /\ Step
       [] Ev = "decg"    -> Quiet /\ DecGA(K(E), E.n) /\ Step
       [] Ev = "rec"     -> RecordA(K(E), E.v) /\ Step
       [] Ev = "desc"    -> DescribeA(E.name, E.d, E.unit) /\ Step
       [] Ev = "upkeep"  -> UpkeepA /\ Step
       [] Ev = "render"  -> RenderA /\ out' = Fams(E) /\ NoDupObs(E) /\ Step /\ ReportLost
       \* scheduled runs
       [] Ev = "c.begin" -> DBegin(P, E.op) /\ Step
       [] Ev = "c.end"   -> dop[P] = E.op /\ DEnd(P) /\ (E.op = "render" => (out' = Fams(E) /\ NoDupObs(E))) /\ Step
                            /\ ReportSkipped(P)
       [] Ev = "d.null"  -> DNull(P) /\ Step
       [] Ev = "d.load"  -> Get(ep, K(E), 0) = E.b /\ Step
                            /\ (IF lock = P /\ dst = "retry" THEN dkey = K(E) /\ DReload(P) ELSE DLoad(P, K(E)))
       [] Ev = "d.detach"-> dkey = K(E) /\ dep = E.b /\ DDetach(P) /\ Step
       [] Ev = "d.casfail" -> DCasFail(P) /\ Step
       [] Ev = "d.qok"   -> dcur = E.b /\ DQok(P) /\ Step
       [] Ev = "d.deliver" -> dcur = E.b /\ DDeliver(P) /\ Step
       [] Ev = "h.fix"   -> RFix(P, K(E), E.v) /\ rep'[P] = E.b /\ Step
       [] Ev = "h.claim" -> rk[P] = K(E) /\ rv[P] = E.v /\ rep[P] = E.b /\ (RClaimIn(P) \/ RClaimLost(P)) /\ Step
       [] Ev = "h.full"  -> rep[P] = E.b /\ RFull(P) /\ Step
       [] Ev = "h.casfull" -> RCasFull(P) /\ (IF E.ok THEN rpc'[P] = "fixed" /\ rep'[P] = E.b ELSE rpc'[P] = "retry") /\ Step
       [] Ev = "h.ack"   -> RAck(P) /\ Step
       [] Ev = "c.inc"   -> rpc[P] = "idle" /\ IncA(K(E), E.n) /\ Step
       \* real-parallel runs
       [] Ev = "free"    -> FreeA(E) /\ Step
       [] Ev = "frender" -> FRender(E) /\ Step
       [] OTHER -> FALSE     \* panic / parse error / hang / stuck / block full / unknown: not a behaviour

TraceInit == InitWith([globals |-> {}, gb |-> <<>>, ov |-> <<>>, nq |-> 0, unit |-> FALSE, W |-> 0]) /\ l = 1
TraceSpec == TraceInit /\ [][TraceNext]_tvars
TraceAccepted ==
  LET d == TLCGet("stats").diameter IN
  IF d - 1 = Len(Rec) THEN TRUE
  ELSE Print(<<"TRACE REJECTED at line", d, Rec[d]>>, FALSE)
=============================================================================
