\* static copy of the quick concurrent configuration (checks/c07.py generates gen_conc.cfg with the same content):
\*   tlc -workers 8 -config MC_conc.cfg MCPromRecorder.tla
SPECIFICATION MCSpec
CONSTANTS
 Recorders = {1,2}
 Drainers = {4,5}
 LockedDrain = TRUE
 BS = 64
 DrainWaitsFirstBlockOnly = FALSE
 CF07aFixed = FALSE
 Scope = "conc"
 MaxOps = 0
 RecLimit = 1
 DrainLimit = 2
 UpLimit = 1
INVARIANTS TypeOK Conservation RenderFaithful RenderBounds NoSkippedSample NoLossSequential CounterMeaning HelpFirst RenderTwice LabelsOK
CHECK_DEADLOCK FALSE
