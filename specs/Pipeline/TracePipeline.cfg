SPECIFICATION TraceSpec
CONSTANTS
 Threads = {1, 2, 3, 4}
 LocalThr = {1, 2, 3, 4}
 MaxEmit = 100000000
 MaxObs = 0
 Configs <- NoConfigs
 OpsOf <- NoOps
INVARIANTS TypeOK Conservation Bounds SnapshotOnce NamesOK FanoutAgree HandleStable DescRoute
POSTCONDITION TraceAccepted
CHECK_DEADLOCK FALSE
