--------------------------- MODULE TracePipeline ---------------------------
(* Trace validation for X02.  harness/src/bin/x02.rs drives the real crates   *)
(* (metrics macros, with_local_recorder, Stack/Prefix/Filter/Router/Fanout,   *)
(* PrometheusRecorder + handle.render(), DebuggingRecorder + snapshot()) and  *)
(* writes one ndjson line per event:                                          *)
(*   reset {cf}                a new run: global tree, local tree, modulus    *)
(*   op  {t, o,k,n,l,u,v,d}    a call-site operation that RETURNED before the *)
(*                             next line (lock-step runs)                     *)
(*   obs {s, view}             render()/snapshot() of sink s with nothing else*)
(*                             running: the view must be EXACTLY the model's  *)
(*   b {t, ..op} / e {t}       begin / end of a call of a free-running thread *)
(*   ob {o, s} / oe {o,s,view} begin / end of an observation racing with such *)
(*                             calls: checked as bounds (lo <= seen <= hi)    *)
(* Lines are written under one mutex, a `b`/`ob` line before the call, an     *)
(* `e`/`oe` line after it returned, so the file order respects real time.     *)
(* In a free-running round a call takes effect in the model at its `e` line   *)
(* (CallF); what is asserted about a racing observation is only what holds    *)
(* for every linearisation: completed-before-it-began <= seen <= begun-       *)
(* before-it-ended, per key.  Histogram samples are never recorded while an   *)
(* observation (= a drain) runs: that is the pattern of the bucket finding    *)
(* CF05a, which belongs to C05/C07.                                           *)
EXTENDS Pipeline, Json, IOUtils, TLCExt
VARIABLES l,    \* next line
          oo    \* racing observations in progress: id -> [s, lo, dlo, ops]
Rec == ndJsonDeserialize(IOEnv.TRACE)
tvars == <<vars, l, oo>>
Ev == Rec[l]
Step == l' = l + 1

NoConfigs == {}
NoOps(c) == {}

OpOf(e) == [o |-> e.o, k |-> e.k, n |-> e.n, l |-> e.l, u |-> e.u, v |-> e.v, d |-> e.d]
ViewSet(v) == {v[i] : i \in DOMAIN v}

Same(expected, got, what) ==
  IF expected = got THEN TRUE
  ELSE Print(<<"MISMATCH at line", l, what, "expected", expected, "got", got>>, FALSE)

(* ---------- racing observations: bounds ---------- *)
NameAt(s, c) == IF IsProm(s) THEN San(c[3]) ELSE c[3]
Matches(s, c, e) == c[1] = s /\ c[2] = e.k /\ NameAt(s, c) = e.n /\ c[4] = e.l
(* calls begun before the observation ended and not completed before it began: prepared thread records *)
UpdOps(o, c) == SelectSeq(o.ops, LAMBDA r : r.op.o \in {"emit", "use"} /\ \E j \in DOMAIN r.tg : r.tg[j] = c)
PendCells(o) == UNION {{r.tg[j] : j \in DOMAIN r.tg} : r \in {o.ops[i] : i \in {j \in DOMAIN o.ops : o.ops[j].op.o \in {"emit", "grab", "use"}}}}
PendDesc(o, key) == {<<r.op.v, r.op.d>> : r \in {o.ops[i] : i \in {j \in DOMAIN o.ops :
                         o.ops[j].op.o = "describe" /\ \E q \in DOMAIN o.ops[j].tg : DescKey(o.ops[j].tg[q], o.ops[j].op.k) = key}}}
SumOf(ops, u) == FoldLeft(LAMBDA acc, r : IF r.op.u = u THEN acc + r.op.v ELSE acc, 0, ops)
Chain(v0, ops) ==     \* the values a single writer takes the storage through
  LET vals == [i \in 0..Len(ops) |-> FoldLeft(LAMBDA acc, r : ApplyU(acc, r.op.u, r.op.v, 0), v0, SubSeq(ops, 1, i))]
  IN {vals[i] : i \in 0..Len(ops)}
EntryOK(o, c, e) ==
  LET known == c \in DOMAIN o.lo
      ups == UpdOps(o, c)
      us == {ups[i].op.u : i \in DOMAIN ups}
      writers == {ups[i].t : i \in DOMAIN ups}
      key == DescKey(<<c[1], c[3]>>, c[2])
      dlo == Get(o.dlo, key, <<0, 0>>)
      pd == PendDesc(o, key)
  IN /\ CASE c[2] = "c" ->
              LET lo == IF known THEN o.lo[c] ELSE 0 IN
              "abs" \in us \/ (lo <= e.v[1] /\ e.v[1] <= lo + SumOf(ups, "inc"))
           [] c[2] = "g" ->
              LET lo == IF known THEN o.lo[c] ELSE 0 IN
              IF Cardinality(writers) <= 1 THEN e.v[1] \in Chain(lo, ups)
              ELSE IF us \subseteq {"ginc", "gdec"} THEN lo - SumOf(ups, "gdec") <= e.v[1] /\ e.v[1] <= lo + SumOf(ups, "ginc")
              ELSE TRUE
           [] c[2] = "h" /\ IsProm(c[1]) ->
              LET lo == IF known THEN ReadVal(c, o.lo[c]) ELSE <<0, 0>> IN
              /\ lo[1] <= e.v[1] /\ e.v[1] <= lo[1] + Len(ups)
              /\ lo[2] <= e.v[2] /\ e.v[2] <= lo[2] + SumOf(ups, "rec")
           [] OTHER ->
              LET lo == IF known THEN o.lo[c].p ELSE <<>> IN
              /\ BagSub(lo, e.v) \/ ups # <<>>
              /\ BagSub(e.v, FoldLeft(LAMBDA acc, r : Ins(acc, r.op.v), lo, ups))
     /\ e.d \in {dlo[2]} \cup {g[2] : g \in pd}
     /\ (IsProm(c[1]) /\ dlo[2] # 0) => e.d = dlo[2]
     /\ e.u \in (IF IsProm(c[1]) THEN {0} ELSE {dlo[1]} \cup {g[1] : g \in pd})
RacingOK(o, view) ==
  LET V == ViewSet(view)
      cand == DOMAIN o.lo \cup {c \in PendCells(o) : c[1] = o.s}
  IN /\ Cardinality({<<e.k, e.n, e.l>> : e \in V}) = Len(view)                       \* no series twice
     /\ \A c \in DOMAIN o.lo : \E e \in V : Matches(o.s, c, e)                       \* nothing registered is missing
     /\ \A e \in V : \E c \in cand : Matches(o.s, c, e) /\ EntryOK(o, c, e)           \* nothing foreign, values in bounds
RacingCheck(o, view) ==
  IF RacingOK(o, view) THEN TRUE
  ELSE Print(<<"OUT OF BOUNDS at line", l, "lo", o.lo, "ops", [i \in DOMAIN o.ops |-> <<o.ops[i].t, o.ops[i].op>>], "view", view>>, FALSE)

InFlightRecs == LET T == {t \in Threads : S.th[t].ph # "idle"} IN
                SetToSeq({[t |-> t, op |-> S.th[t].op, tg |-> S.th[t].tg] : t \in T})

TraceNext ==
  /\ l <= Len(Rec)
  /\ CASE Ev.ev = "reset" ->
            /\ cf' = Ev.cf /\ S' = NewS /\ shown' = <<>> /\ oo' = <<>> /\ Step
            /\ UNCHANGED <<ob, last, nobs>>
       [] Ev.ev = "op" ->           \* a call that ran to completion with nothing else running
            /\ oo = <<>> /\ Ev.t \in Threads /\ S.th[Ev.t].ph = "idle" /\ CanStart(cf, Ev.t, S.th[Ev.t], OpOf(Ev))
            /\ S' = CallF(cf, S, Ev.t, OpOf(Ev)) /\ Step
            /\ UNCHANGED <<cf, ob, shown, last, nobs, oo>>
       [] Ev.ev = "obs" ->          \* an observation at quiescence: exact
            /\ oo = <<>> /\ AllIdle(S) /\ Ev.s \in AllSinks(cf)
            /\ Same(ObsView(S, Ev.s), ViewSet(Ev.view), Ev.s) /\ Cardinality(ViewSet(Ev.view)) = Len(Ev.view)
            /\ S' = [S EXCEPT !.st = ObsStore(S, Ev.s)]
            /\ shown' = ObsShown(S, shown, Ev.s) /\ Step
            /\ UNCHANGED <<cf, ob, last, nobs, oo>>
       [] Ev.ev = "b" ->            \* a free-running call begins: dispatch + route, no effect yet
            /\ Ev.t \in Threads /\ S.th[Ev.t].ph = "idle" /\ CanStart(cf, Ev.t, S.th[Ev.t], OpOf(Ev))
            /\ LET r == Prepare(cf, S.th[Ev.t], OpOf(Ev)) IN
                 /\ S' = [S EXCEPT !.th[Ev.t] = r]
                 /\ oo' = [o \in DOMAIN oo |-> [oo[o] EXCEPT !.ops = Append(@, [t |-> Ev.t, op |-> r.op, tg |-> r.tg])]]
            /\ Step /\ UNCHANGED <<cf, ob, shown, last, nobs>>
       [] Ev.ev = "e" ->            \* ... and has returned: its whole effect
            /\ Ev.t \in Threads
            /\ S' = RunF(cf, S, Ev.t) /\ Step
            /\ UNCHANGED <<cf, ob, shown, last, nobs, oo>>
       [] Ev.ev = "ob" ->
            /\ Ev.o \notin DOMAIN oo /\ Ev.s \in AllSinks(cf) /\ \A o \in DOMAIN oo : oo[o].s # Ev.s
            /\ oo' = Put(oo, Ev.o, [s |-> Ev.s, lo |-> [c \in CellsAt(S.st, Ev.s) |-> S.st[c]], dlo |-> S.ds, ops |-> InFlightRecs])
            /\ Step /\ UNCHANGED <<vars>>
       [] Ev.ev = "oe" ->
            /\ Ev.o \in DOMAIN oo /\ oo[Ev.o].s = Ev.s
            /\ RacingCheck(oo[Ev.o], Ev.view)
            /\ S' = [S EXCEPT !.st = ObsStore(S, Ev.s)]
            /\ shown' = ObsShown(S, shown, Ev.s)
            /\ oo' = [o \in DOMAIN oo \ {Ev.o} |-> oo[o]]
            /\ Step /\ UNCHANGED <<cf, ob, last, nobs>>
       [] OTHER -> FALSE            \* panic / harness-error / unknown event: not a behaviour

TraceInit == cf = NoCf /\ S = NewS /\ Init0 /\ l = 1 /\ oo = <<>>
TraceSpec == TraceInit /\ [][TraceNext]_tvars
TraceAccepted ==
  LET d == TLCGet("stats").diameter IN
  IF d - 1 = Len(Rec) THEN TRUE
  ELSE Print(<<"TRACE REJECTED at line", d, Rec[d]>>, FALSE)
=============================================================================
