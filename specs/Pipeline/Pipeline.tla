------------------------------ MODULE Pipeline ------------------------------
(***************************************************************************)
(* X02 -- specification growth: the END-TO-END pipeline                     *)
(*   call site (counter!/gauge!/histogram!/describe_*!)                     *)
(*     -> dispatch (innermost with_local_recorder of the thread, else the   *)
(*        global recorder, else nothing)                                    *)
(*     -> layer stack (Stack / PrefixLayer / FilterLayer / Router / Fanout) *)
(*     -> recorder (PrometheusRecorder | DebuggingRecorder: registry +      *)
(*        storage handles)                                                  *)
(*     -> observation (PrometheusHandle::render() | Snapshotter::snapshot())*)
(* "what I emit through the macros is what the exporter shows".             *)
(*                                                                         *)
(* The stages are NOT copied from the detailed modules; each stage appears  *)
(* as the CONTRACT its own check establishes, and this module composes the  *)
(* contracts:                                                               *)
(*  C01 LocalRecorder : an emission of thread t reaches the recorder of the *)
(*      innermost with_local_recorder scope of t, else the global one, else *)
(*      nothing (TreeOf).  Handles keep the storage they were resolved to.  *)
(*  C13 Layers : a describe/register entering a recorder tree reaches the   *)
(*      sinks given by Deliver (prefix = "<p>.<name>", filter = dropped iff *)
(*      the name contains a pattern, router = longest matching route of the *)
(*      kind else default, fanout = every branch, in order; stack = last    *)
(*      pushed layer first), labels / unit / description untouched.         *)
(*  C06 Registry : one storage per (recorder, kind, key): get-or-create     *)
(*      (Reg1).   C04 Handles : an update is applied exactly once,          *)
(*      atomically, to each storage of the handle (Upd1) -- a fanout handle *)
(*      updates its storages ONE AFTER THE OTHER (separate atomic steps).   *)
(*  C05 Bucket (outside finding CF05a): a recorded sample is in the bucket  *)
(*      until exactly one drain takes it (hist value .p, Drain).            *)
(*  C07/C08 Prometheus : render() = per series counter / gauge value, per   *)
(*      histogram series cumulative count and sum of everything drained so  *)
(*      far (render drains first), family name sanitised, HELP = the first  *)
(*      description given for the sanitised name.                           *)
(*  C19 Debugging : snapshot() = every registered metric with its current   *)
(*      value, histogram = the samples since the previous snapshot, unit =  *)
(*      last unit given, description = last description for (kind, name).   *)
(*                                                                         *)
(* Names are sequences of code points, label sets / units / descriptions    *)
(* small ids, counter values naturals modulo cf.w (0 = no wrap in range),   *)
(* gauges integers, histogram samples small naturals.                       *)
(***************************************************************************)
EXTENDS Naturals, Integers, Sequences, FiniteSets, SequencesExt, FiniteSetsExt, TLC

CONSTANTS Threads,      \* emitting threads
          LocalThr,     \* threads that may run inside with_local_recorder(&L, ..)
          Configs,      \* set of [g |-> tree, l |-> tree, w |-> modulus]: global tree, local tree
          OpsOf(_),     \* configuration -> alphabet of call-site operations
          MaxEmit,      \* call-site operations per thread
          MaxObs        \* observations (render / snapshot) made by the observer

VARIABLES cf,     \* the configuration (chosen once)
          S,      \* what the emitting threads act on:
                  \*   st   storages: cell <<sink, kind, name, labels>> -> value
                  \*   ds   description tables of the sinks
                  \*   th   per thread: phase of the call in progress, scope, held handle
                  \*   exp, mix, absd, dset, raced : history (what completed calls amount to)
          ob,     \* the observation in progress
          shown,  \* history: debugging cell -> bag of samples already handed out by snapshots
          last,   \* the last completed observation and its verdicts
          nobs
vars == <<cf, S, ob, shown, last, nobs>>

Dot == 46
Us == 95
NoCf == [g |-> [t |-> "none"], l |-> [t |-> "none"], w |-> 0]

-----------------------------------------------------------------------------
(* ---------- small helpers ---------- *)
Put(f, k, v) == [x \in DOMAIN f \cup {k} |-> IF x = k THEN v ELSE f[x]]
Get(f, k, d) == IF k \in DOMAIN f THEN f[k] ELSE d
IsPre(p, s) == Len(p) <= Len(s) /\ SubSeq(s, 1, Len(p)) = p
HasSub(name, pat) == \E i \in 0..(Len(name) - Len(pat)) : SubSeq(name, i + 1, i + Len(pat)) = pat
(* bags of samples as ascending sequences *)
Ins(s, v) == LET k == Cardinality({i \in DOMAIN s : s[i] <= v}) IN SubSeq(s, 1, k) \o <<v>> \o SubSeq(s, k + 1, Len(s))
BagPlus(a, b) == FoldLeft(Ins, a, b)
Cnt(s, v) == Cardinality({i \in DOMAIN s : s[i] = v})
BagSub(a, b) == \A i \in DOMAIN a : Cnt(a, a[i]) <= Cnt(b, a[i])          \* a is a sub-bag of b
BagMinus(a, b) == SelectSeq([i \in DOMAIN a |-> <<a[i], Cardinality({j \in 1..i : a[j] = a[i]})>>],
                            LAMBDA x : x[2] > Cnt(b, x[1]))             \* pairs <<value, rank>> left over
BagDiff(a, b) == LET m == BagMinus(a, b) IN [i \in DOMAIN m |-> m[i][1]]
Sum(s) == FoldLeft(LAMBDA x, y : x + y, 0, s)
Wrap(x, w) == IF w = 0 THEN x ELSE x % w

(* Prometheus name sanitising (formatting.rs sanitize_metric_name), the contract of C08 *)
ValidCh(c) == (c >= 97 /\ c <= 122) \/ (c >= 65 /\ c <= 90) \/ (c >= 48 /\ c <= 57) \/ c = Us \/ c = 58
San(n) == [i \in DOMAIN n |-> IF ValidCh(n[i]) /\ ~(i = 1 /\ n[i] >= 48 /\ n[i] <= 57) THEN n[i] ELSE Us]

-----------------------------------------------------------------------------
(* ---------- recorder trees and the layer contract (C13) ---------- *)
(* [t |-> "none"] | [t |-> "sink", id |-> <<inst, x>>]  x \in P,Q: PrometheusRecorder, D,E: DebuggingRecorder
   | [t |-> "stack", base, layers]  layer = [t |-> "prefix", p] | [t |-> "filter", pats]
   | [t |-> "router", def, routes]  route = [mask, pat, to] | [t |-> "fanout", outs]                       *)
IsProm(s) == s[2] \in {"P", "Q"}
KindsOfMask(m) == IF m = "all" THEN {"c", "g", "h"} ELSE {m}

RECURSIVE Sinks(_)
Sinks(n) == CASE n.t = "none"   -> {}
              [] n.t = "sink"   -> {n.id}
              [] n.t = "stack"  -> Sinks(n.base)
              [] n.t = "router" -> Sinks(n.def) \cup UNION {Sinks(n.routes[i].to) : i \in DOMAIN n.routes}
              [] n.t = "fanout" -> UNION {Sinks(n.outs[i]) : i \in DOMAIN n.outs}
AllSinks(c) == Sinks(c.g) \cup Sinks(c.l)

(* the route a router takes: the longest pattern that is a prefix of the name among the routes whose
   mask includes the kind; a later add_route of the same pattern replaces the earlier; 0 = default *)
Chosen(routes, kind, name) ==
  LET M == {i \in DOMAIN routes : kind \in KindsOfMask(routes[i].mask) /\ IsPre(routes[i].pat, name)} IN
  IF M = {} THEN 0
  ELSE CHOOSE i \in M : \A j \in M : \/ Len(routes[j].pat) < Len(routes[i].pat)
                                      \/ (Len(routes[j].pat) = Len(routes[i].pat) /\ j <= i)

(* Deliver(tree, kind, name): the sinks a describe_<kind> / register_<kind> of `name` reaches, with the
   name it has there, in call order.  Nothing else of the call changes on the way. *)
RECURSIVE Deliver(_, _, _)
RECURSIVE DeliverLayers(_, _, _, _, _)
Deliver(n, kind, name) ==
  CASE n.t = "none"   -> <<>>
    [] n.t = "sink"   -> << <<n.id, name>> >>
    [] n.t = "stack"  -> DeliverLayers(n.base, n.layers, Len(n.layers), kind, name)
    [] n.t = "router" -> LET c == Chosen(n.routes, kind, name)
                         IN Deliver(IF c = 0 THEN n.def ELSE n.routes[c].to, kind, name)
    [] n.t = "fanout" -> FlattenSeq([i \in DOMAIN n.outs |-> Deliver(n.outs[i], kind, name)])
DeliverLayers(base, layers, k, kind, name) ==
  IF k = 0 THEN Deliver(base, kind, name)
  ELSE LET L == layers[k] IN
       CASE L.t = "prefix" -> DeliverLayers(base, layers, k - 1, kind, L.p \o <<Dot>> \o name)
         [] L.t = "filter" -> IF \E i \in DOMAIN L.pats : HasSub(name, L.pats[i]) THEN <<>>
                              ELSE DeliverLayers(base, layers, k - 1, kind, name)

(* what lies between the root of a tree and one of its sinks, outermost first (for the name laws) *)
RECURSIVE Path(_, _)
Path(n, s) ==
  CASE n.t = "sink"   -> <<>>
    [] n.t = "stack"  -> Reverse(n.layers) \o Path(n.base, s)
    [] n.t = "router" -> IF s \in Sinks(n.def) THEN << [t |-> "at", routes |-> n.routes, b |-> 0] >> \o Path(n.def, s)
                         ELSE LET i == CHOOSE i \in DOMAIN n.routes : s \in Sinks(n.routes[i].to)
                              IN << [t |-> "at", routes |-> n.routes, b |-> i] >> \o Path(n.routes[i].to, s)
    [] n.t = "fanout" -> LET i == CHOOSE i \in DOMAIN n.outs : s \in Sinks(n.outs[i]) IN Path(n.outs[i], s)
PathOf(c, s) == IF s \in Sinks(c.g) THEN Path(c.g, s) ELSE Path(c.l, s)

(* pure fanouts: fanout nodes all of whose branches are recorders (the "same stack feeds both" shape) *)
RECURSIVE FanGroups(_)
FanGroups(n) ==
  CASE n.t \in {"none", "sink"} -> {}
    [] n.t = "stack"  -> FanGroups(n.base)
    [] n.t = "router" -> FanGroups(n.def) \cup UNION {FanGroups(n.routes[i].to) : i \in DOMAIN n.routes}
    [] n.t = "fanout" -> IF \A i \in DOMAIN n.outs : n.outs[i].t = "sink" THEN {{n.outs[i].id : i \in DOMAIN n.outs}}
                         ELSE UNION {FanGroups(n.outs[i]) : i \in DOMAIN n.outs}

-----------------------------------------------------------------------------
(* ---------- call-site operations ---------- *)
(* [o, k, n, l, u, v, d]:
     emit      counter!/gauge!/histogram!(n, labels l).<u>(v)        (register, then update)
     grab      let h = counter!/gauge!/histogram!(n, labels l)       (handle kept by the thread)
     use       h.<u>(v) through the kept handle
     describe  describe_<k>!(n, unit v, description d)
     enter / exit   beginning / end of the thread's with_local_recorder(&L, || ..) closure        *)
NoOp == [o |-> "none", k |-> "-", n |-> <<>>, l |-> 0, u |-> "-", v |-> 0, d |-> 0]
NoHeld == [k |-> "-", cells |-> <<>>, sc |-> FALSE]
IdleThread == [ph |-> "idle", i |-> 0, tg |-> <<>>, op |-> NoOp, sc |-> FALSE, held |-> NoHeld, n |-> 0]
KindOfU(u) == CASE u \in {"inc", "abs"} -> "c" [] u \in {"ginc", "gdec", "gset"} -> "g" [] OTHER -> "h"
(* two updates of one storage commute (their order cannot be told from the result) *)
Comm(u1, u2) == (u1 = u2 /\ u1 \in {"inc", "abs", "rec"}) \/ ({u1, u2} \subseteq {"ginc", "gdec"})
NonComm(us) == \E u1 \in us, u2 \in us : ~Comm(u1, u2)

(* C01: the recorder an emission of a thread is dispatched to *)
TreeOf(c, r) == IF r.sc THEN c.l ELSE c.g

Cell(tg, kind, lab) == <<tg[1], kind, tg[2], lab>>
KeyOf(c) == <<c[2], c[3], c[4]>>
InitVal(c) == IF c[2] = "h" THEN (IF IsProm(c[1]) THEN [p |-> <<>>, n |-> 0, s |-> 0] ELSE [p |-> <<>>]) ELSE 0

(* C06: get-or-create of the storage; C04: one atomic application of an update to one storage *)
Reg1(st, c) == IF c \in DOMAIN st THEN st ELSE Put(st, c, InitVal(c))
ApplyU(x, u, v, w) ==
  CASE u = "inc"  -> Wrap(x + v, w)
    [] u = "abs"  -> IF v > x THEN v ELSE x
    [] u = "ginc" -> x + v
    [] u = "gdec" -> x - v
    [] u = "gset" -> v
    [] u = "rec"  -> [x EXCEPT !.p = Ins(@, v)]
Upd1(st, c, u, v, w) == [st EXCEPT ![c] = ApplyU(@, u, v, w)]
(* descriptions.  Prometheus: keyed by the sanitised name (all kinds share it), first one wins.
   Debugging: keyed by (kind, name), description replaced, unit replaced only by a given unit. *)
DescKey(tg, kind) == IF IsProm(tg[1]) THEN <<tg[1], "*", San(tg[2])>> ELSE <<tg[1], kind, tg[2]>>
Desc1(ds, tg, op) ==
  LET key == DescKey(tg, op.k) IN
  IF IsProm(tg[1]) THEN (IF key \in DOMAIN ds THEN ds ELSE Put(ds, key, <<op.v, op.d>>))
  ELSE Put(ds, key, <<IF op.v # 0 \/ key \notin DOMAIN ds THEN op.v ELSE ds[key][1], op.d>>)

(* history: what a completed update amounts to for the storages it was routed to *)
ExpInit(c) == IF c[2] = "h" THEN <<>> ELSE 0
ExpApply(x, u, v, w) == IF u = "rec" THEN Ins(x, v) ELSE ApplyU(x, u, v, w)

-----------------------------------------------------------------------------
(* ---------- one call, step by step ---------- *)
CanStart(c, t, r, op) ==
  CASE op.o = "enter" -> t \in LocalThr /\ ~r.sc /\ c.l.t # "none"
    [] op.o = "exit"  -> r.sc
    [] op.o = "use"   -> r.held.k = KindOfU(op.u)
    [] OTHER -> TRUE

(* the call site: dispatch (C01) + the way through the layers (C13); nothing shared is touched yet *)
Prepare(c, r, op) ==
  LET r1 == [r EXCEPT !.n = @ + 1] IN
  CASE op.o = "enter" -> [r1 EXCEPT !.sc = TRUE]
    [] op.o = "exit"  -> [r1 EXCEPT !.sc = FALSE]
    [] op.o = "describe" ->
         LET tg == Deliver(TreeOf(c, r), op.k, op.n)
         IN IF tg = <<>> THEN r1 ELSE [r1 EXCEPT !.ph = "dsc", !.tg = tg, !.op = op]
    [] op.o \in {"emit", "grab"} ->
         LET dl == Deliver(TreeOf(c, r), op.k, op.n)
             tg == [i \in DOMAIN dl |-> Cell(dl[i], op.k, op.l)]
         IN IF tg = <<>> THEN (IF op.o = "grab" THEN [r1 EXCEPT !.held = [k |-> op.k, cells |-> <<>>, sc |-> r.sc]] ELSE r1)
            ELSE [r1 EXCEPT !.ph = "reg", !.tg = tg, !.op = op]
    [] op.o = "use" -> IF r.held.cells = <<>> THEN r1 ELSE [r1 EXCEPT !.ph = "upd", !.tg = r.held.cells, !.op = op]

(* an update of storage x by t crosses an update of another thread that has reached some but not all
   storages of the same key, and the two do not commute: the storages may end up in different orders *)
RaceOf(Z, t, x, u) ==
  IF \E t2 \in DOMAIN Z.th \ {t} :
        LET r2 == Z.th[t2] IN /\ r2.ph = "upd" /\ r2.i > 0
                              /\ \E j \in DOMAIN r2.tg : KeyOf(r2.tg[j]) = KeyOf(x)
                              /\ ~Comm(u, r2.op.u)
  THEN {KeyOf(x)} ELSE {}
(* history bookkeeping: storage x is updated by t while a call of another thread on x that does not
   commute with it is in flight -- the order of the two at x cannot be told from the order in which
   the calls return, so `exp` (applied when a call returns) is not asserted for x any more *)
MixOf(Z, t, x, u) ==
  IF x[2] # "h" /\ \E t2 \in DOMAIN Z.th \ {t} :
        LET r2 == Z.th[t2] IN /\ r2.ph \in {"reg", "upd"}
                              /\ \E j \in DOMAIN r2.tg : r2.tg[j] = x
                              /\ ~Comm(u, r2.op.u)
  THEN {x} ELSE {}

(* StepF: the next atomic step of thread t's call in progress, as a function on S.
   reg: get-or-create in every sink the call is routed to (idempotent, so taken as one step);
   upd: ONE storage per step, in fanout order; dsc: one sink per step. *)
StepF(c, Z, t) ==
  LET r == Z.th[t]
      x == r.tg[r.i + 1]
      fin == (r.ph = "reg") \/ (r.i + 1 = Len(r.tg))
      Z1 == CASE r.ph = "reg" -> [Z EXCEPT !.st = FoldLeft(Reg1, @, r.tg)]
              [] r.ph = "upd" -> [Z EXCEPT !.st = Upd1(@, x, r.op.u, r.op.v, c.w),
                                           !.raced = @ \cup RaceOf(Z, t, x, r.op.u),
                                           !.mix = @ \cup MixOf(Z, t, x, r.op.u),
                                           !.absd = IF r.op.u = "abs" THEN @ \cup {x} ELSE @]
              [] r.ph = "dsc" -> [Z EXCEPT !.ds = Desc1(@, x, r.op)]
      idle == [r EXCEPT !.ph = "idle", !.i = 0, !.tg = <<>>, !.op = NoOp]
  IN IF ~fin THEN [Z1 EXCEPT !.th[t].i = @ + 1]
     ELSE CASE r.ph = "reg" /\ r.op.o = "emit" -> [Z1 EXCEPT !.th[t].ph = "upd", !.th[t].i = 0]
            [] r.ph = "reg" -> [Z1 EXCEPT !.th[t] = [idle EXCEPT !.held = [k |-> r.op.k, cells |-> r.tg, sc |-> r.sc]]]
            [] r.ph = "upd" ->
                 LET cells == {r.tg[j] : j \in DOMAIN r.tg} IN
                 [Z1 EXCEPT !.th[t] = idle,
                            !.exp = [y \in DOMAIN @ \cup cells |-> IF y \in cells
                                        THEN ExpApply(Get(@, y, ExpInit(y)), r.op.u, r.op.v, c.w) ELSE @[y]]]
            [] r.ph = "dsc" ->
                 LET keys == {DescKey(r.tg[j], r.op.k) : j \in DOMAIN r.tg} IN
                 [Z1 EXCEPT !.th[t] = idle,
                            !.dset = [y \in DOMAIN @ \cup keys |-> IF y \in keys THEN Get(@, y, {}) \cup {<<r.op.v, r.op.d>>} ELSE @[y]]]

StartF(c, Z, t, op) ==
  LET r0 == Prepare(c, Z.th[t], op)
      Z0 == [Z EXCEPT !.th[t] = r0]
  IN IF r0.ph = "idle" THEN Z0 ELSE StepF(c, Z0, t)
(* the whole call run to completion (sequential use; the trace and simulation specs) *)
RECURSIVE RunF(_, _, _)
RunF(c, Z, t) == IF Z.th[t].ph = "idle" THEN Z ELSE RunF(c, StepF(c, Z, t), t)
CallF(c, Z, t, op) == RunF(c, StartF(c, Z, t, op), t)

AllIdle(Z) == \A t \in DOMAIN Z.th : Z.th[t].ph = "idle"
Unquiet(o) == IF o.ph = "idle" THEN o ELSE [o EXCEPT !.quiet = FALSE]

Start(t, op) ==
  /\ S.th[t].ph = "idle" /\ S.th[t].n < MaxEmit /\ CanStart(cf, t, S.th[t], op)
  /\ S' = StartF(cf, S, t, op)
  /\ ob' = Unquiet(ob)
  /\ UNCHANGED <<cf, shown, last, nobs>>
Cont(t) ==
  /\ S.th[t].ph # "idle"
  /\ S' = StepF(cf, S, t)
  /\ ob' = Unquiet(ob)
  /\ UNCHANGED <<cf, shown, last, nobs>>

-----------------------------------------------------------------------------
(* ---------- observation: render() of a Prometheus sink / snapshot() of a debugging sink ---------- *)
NoOb == [ph |-> "idle", s |-> <<>>, lo |-> <<>>, loc |-> {}, dsb |-> <<>>, part |-> {}, quiet |-> TRUE, hadset |-> {}]
NoLast == [okBounds |-> TRUE, okExact |-> TRUE, okDesc |-> TRUE]
CellsAt(st, s) == {c \in DOMAIN st : c[1] = s}
(* what an observation reads from one storage, and what it leaves behind (histograms are drained) *)
ReadVal(c, x) == IF c[2] # "h" THEN <<x>>
                 ELSE IF IsProm(c[1]) THEN <<x.n + Len(x.p), x.s + Sum(x.p)>> ELSE x.p
Drain(c, x) == IF c[2] # "h" THEN x
               ELSE IF IsProm(c[1]) THEN [p |-> <<>>, n |-> x.n + Len(x.p), s |-> x.s + Sum(x.p)] ELSE [p |-> <<>>]
Entry(c, val, ud) == [k |-> c[2], n |-> IF IsProm(c[1]) THEN San(c[3]) ELSE c[3], l |-> c[4], v |-> val,
                      u |-> IF IsProm(c[1]) THEN 0 ELSE ud[1], d |-> ud[2]]
DescOf(ds, c) == Get(ds, DescKey(<<c[1], c[3]>>, c[2]), <<0, 0>>)
(* the description table an observation uses: render() reads it when it formats (at the end);
   snapshot() clones it before it reads the values (at the beginning) *)
ViewOf(part, ds) == {Entry(p.c, p.v, DescOf(ds, p.c)) : p \in part}

(* the whole observation at once (sequential use) *)
ObsView(Z, s) == ViewOf({[c |-> c, v |-> ReadVal(c, Z.st[c])] : c \in CellsAt(Z.st, s)}, Z.ds)
ObsStore(Z, s) == [c \in DOMAIN Z.st |-> IF c[1] = s THEN Drain(c, Z.st[c]) ELSE Z.st[c]]
ObsShown(Z, sh, s) ==
  LET hs == {c \in CellsAt(Z.st, s) : c[2] = "h" /\ ~IsProm(s)} IN
  [c \in DOMAIN sh \cup hs |-> IF c \in hs THEN BagPlus(Get(sh, c, <<>>), Z.st[c].p) ELSE sh[c]]

(* in-flight calls (begun, not finished) that will update / have been updating storage c *)
InFlight(Z, c) == {t \in DOMAIN Z.th : Z.th[t].ph \in {"reg", "upd"} /\ Z.th[t].op.o \in {"emit", "use"}
                                       /\ \E j \in DOMAIN Z.th[t].tg : Z.th[t].tg[j] = c}
FlightSum(Z, c, u) == LET T == {t \in InFlight(Z, c) : Z.th[t].op.u = u}
                      IN FoldSet(LAMBDA t, acc : acc + Z.th[t].op.v, 0, T)
AbsTouch(Z, c) == c \in Z.absd \/ \E t \in InFlight(Z, c) : Z.th[t].op.u = "abs"
ExpOf(Z, c) == Get(Z.exp, c, ExpInit(c))

ObsBegin(s) ==
  /\ ob.ph = "idle" /\ nobs < MaxObs /\ s \in AllSinks(cf)
  /\ ob' = [ph |-> "read", s |-> s,
            lo |-> [c \in {x \in DOMAIN S.exp : x[1] = s} |-> S.exp[c]],
            loc |-> CellsAt(S.st, s),
            dsb |-> S.ds,
            part |-> {}, quiet |-> AllIdle(S),
            hadset |-> {k \in DOMAIN S.dset : k[1] = s}]
  /\ UNCHANGED <<cf, S, shown, last, nobs>>
ObsRead(c) ==
  /\ ob.ph = "read" /\ c \in CellsAt(S.st, ob.s) /\ c \notin {p.c : p \in ob.part}
  /\ ob' = [ob EXCEPT !.part = @ \cup {[c |-> c, v |-> ReadVal(c, S.st[c])]}]
  /\ S' = [S EXCEPT !.st[c] = Drain(c, @)]
  /\ shown' = IF c[2] = "h" /\ ~IsProm(c[1]) THEN Put(shown, c, BagPlus(Get(shown, c, <<>>), S.st[c].p)) ELSE shown
  /\ UNCHANGED <<cf, last, nobs>>

(* verdicts on a finished observation (view = set of entries, part = what was read) *)
(* racing updates: a counter that is only ever incremented and a cumulative histogram count lie between
   what had completed when the observation began and what had begun when it ended *)
BoundsOK(c0, Z, o) ==
  \A p \in o.part :
    LET c == p.c
        lo == Get(o.lo, c, ExpInit(c))
    IN CASE c[2] = "c" -> (c0.w = 0 /\ ~AbsTouch(Z, c)) =>
                             (lo <= p.v[1] /\ p.v[1] <= ExpOf(Z, c) + FlightSum(Z, c, "inc"))
         [] c[2] = "h" /\ IsProm(c[1]) ->
                             /\ Len(lo) <= p.v[1] /\ p.v[1] <= Len(ExpOf(Z, c)) + Cardinality(InFlight(Z, c))
                             /\ Sum(lo) <= p.v[2] /\ p.v[2] <= Sum(ExpOf(Z, c)) + FlightSum(Z, c, "rec")
         [] OTHER -> TRUE
(* nothing ran while the observation was made: it shows exactly what the completed calls amount to *)
LawApplies(Z, c) == c \notin Z.mix
ExactOK(Z, o, shownBefore) ==
  o.quiet =>
    /\ {p.c : p \in o.part} = CellsAt(Z.st, o.s)
    /\ \A p \in o.part :
         LET c == p.c  e == ExpOf(Z, c) IN
         CASE c[2] = "h" /\ IsProm(c[1]) -> p.v = <<Len(e), Sum(e)>>
           [] c[2] = "h" -> p.v = BagDiff(e, Get(shownBefore, c, <<>>))
           [] OTHER -> LawApplies(Z, c) => p.v = <<e>>
(* descriptions take the route of the metrics they describe: an entry carries a description given
   (through the same tree) for a name that ends up as the entry's name in that sink, and it carries
   one if such a describe had completed before the observation began *)
DescOK(Z, o, view) ==
  \A p \in o.part :
    LET key == DescKey(<<p.c[1], p.c[3]>>, p.c[2])
        e == Entry(p.c, p.v, DescOf(IF IsProm(o.s) THEN Z.ds ELSE o.dsb, p.c))
        given == Get(Z.dset, key, {}) \cup
                 {<<Z.th[t].op.v, Z.th[t].op.d>> : t \in {t2 \in DOMAIN Z.th : Z.th[t2].ph = "dsc" /\
                                                          \E j \in DOMAIN Z.th[t2].tg : DescKey(Z.th[t2].tg[j], Z.th[t2].op.k) = key}}
    IN /\ e.d # 0 => \E g \in given : g[2] = e.d
       /\ e.u # 0 => \E g \in given : g[1] = e.u
       /\ key \in o.hadset => e.d # 0

ObsEnd ==
  /\ ob.ph = "read" /\ ob.loc \subseteq {p.c : p \in ob.part}
  /\ LET view == ViewOf(ob.part, IF IsProm(ob.s) THEN S.ds ELSE ob.dsb)
         before == [c \in DOMAIN shown |-> BagDiff(shown[c], IF \E p \in ob.part : p.c = c
                                                               THEN (CHOOSE p \in ob.part : p.c = c).v ELSE <<>>)]
     IN last' = [okBounds |-> BoundsOK(cf, S, ob), okExact |-> ExactOK(S, ob, before), okDesc |-> DescOK(S, ob, view)]
  /\ ob' = NoOb /\ nobs' = nobs + 1
  /\ UNCHANGED <<cf, S, shown>>

-----------------------------------------------------------------------------
Init0 == /\ ob = NoOb /\ shown = <<>> /\ last = NoLast /\ nobs = 0
NewS == [st |-> <<>>, ds |-> <<>>, th |-> [t \in Threads |-> IdleThread],
         exp |-> <<>>, mix |-> {}, absd |-> {}, dset |-> <<>>, raced |-> {}]
Init == cf \in Configs /\ S = NewS /\ Init0

DoStart == \E t \in Threads : S.th[t].ph = "idle" /\ S.th[t].n < MaxEmit /\ \E op \in OpsOf(cf) : Start(t, op)
DoCont == \E t \in Threads : Cont(t)
DoObsBegin == ob.ph = "idle" /\ nobs < MaxObs /\ \E s \in AllSinks(cf) : ObsBegin(s)
DoObsRead == ob.ph = "read" /\ \E c \in CellsAt(S.st, ob.s) : ObsRead(c)
DoObsEnd == ObsEnd
Next == DoStart \/ DoCont \/ DoObsBegin \/ DoObsRead \/ DoObsEnd
Spec == Init /\ [][Next]_vars

-----------------------------------------------------------------------------
(* ======================= the properties ======================= *)
Quiescent == AllIdle(S) /\ ob.ph = "idle"
CellQuiet(c) == InFlight(S, c) = {}
HTotal(c) ==      \* <<count, sum>> of everything a histogram storage has ever received
  LET x == S.st[c] IN
  IF IsProm(c[1]) THEN <<x.n + Len(x.p), x.s + Sum(x.p)>>
  ELSE LET b == BagPlus(Get(shown, c, <<>>), x.p) IN <<Len(b), Sum(b)>>

(* end-to-end conservation per final key.  counter = sum of the increments routed to it (mod 2^64),
   gauge = the result of the set / increment / decrement routed to it, histogram: every routed
   sample is in the bucket or was drained exactly once (Prometheus: into the cumulative count/sum;
   debugging: into exactly one snapshot) -- whenever no call on that storage is in flight. *)
Conservation ==
  \A c \in DOMAIN S.st : CellQuiet(c) =>
     CASE c[2] = "h" /\ IsProm(c[1]) -> HTotal(c) = <<Len(ExpOf(S, c)), Sum(ExpOf(S, c))>>
       [] c[2] = "h" -> BagPlus(Get(shown, c, <<>>), S.st[c].p) = ExpOf(S, c)
       [] OTHER -> LawApplies(S, c) => S.st[c] = ExpOf(S, c)
(* ... and while calls are in flight: between what has completed and what has begun *)
Bounds ==
  \A c \in DOMAIN S.st :
     CASE c[2] = "c" -> (cf.w = 0 /\ ~AbsTouch(S, c)) =>
                           (ExpOf(S, c) <= S.st[c] /\ S.st[c] <= ExpOf(S, c) + FlightSum(S, c, "inc"))
       [] c[2] = "h" -> /\ Len(ExpOf(S, c)) <= HTotal(c)[1]
                        /\ HTotal(c)[1] <= Len(ExpOf(S, c)) + Cardinality(InFlight(S, c))
       [] OTHER -> TRUE
(* a sample is handed out by at most one snapshot, and only a sample that was recorded *)
SnapshotOnce ==
  \A c \in DOMAIN shown :
     BagSub(shown[c], FoldSet(LAMBDA t, acc : Ins(acc, S.th[t].op.v), ExpOf(S, c), {t \in InFlight(S, c) : S.th[t].op.u = "rec"}))

(* names: what a sink holds went through every layer above it, outermost first: it starts with the
   prefixes (innermost prefix first), the name each filter saw contains none of its patterns, and
   each router on the way chose the branch the sink is in.  So: filtered keys never appear anywhere,
   prefixed names are what appears, routed names are where they belong. *)
RECURSIVE PeelOK(_, _, _)
PeelOK(path, kind, name) ==
  IF path = <<>> THEN TRUE
  ELSE LET L == path[Len(path)]  rest == SubSeq(path, 1, Len(path) - 1) IN
       CASE L.t = "prefix" -> IsPre(L.p \o <<Dot>>, name) /\ PeelOK(rest, kind, SubSeq(name, Len(L.p) + 2, Len(name)))
         [] L.t = "filter" -> (\A i \in DOMAIN L.pats : ~HasSub(name, L.pats[i])) /\ PeelOK(rest, kind, name)
         [] L.t = "at"     -> Chosen(L.routes, kind, name) = L.b /\ PeelOK(rest, kind, name)
NamesOK ==
  /\ \A c \in DOMAIN S.st : PeelOK(PathOf(cf, c[1]), c[2], c[3])
  /\ \A k \in DOMAIN S.ds : ~IsProm(k[1]) => PeelOK(PathOf(cf, k[1]), k[2], k[3])

(* both targets of a fanout agree at quiescence: the same keys, the same values (histograms: the same
   totals) -- unless two threads raced non-commuting updates (set vs. anything, absolute vs.
   increment) through the fanout handle, which reaches its storages one after the other *)
AgreeOn(s1, s2) ==
  /\ {KeyOf(c) : c \in CellsAt(S.st, s1)} = {KeyOf(c) : c \in CellsAt(S.st, s2)}
  /\ \A c \in CellsAt(S.st, s1) :
       LET c2 == <<s2, c[2], c[3], c[4]>> IN
       \/ KeyOf(c) \in S.raced
       \/ IF c[2] = "h" THEN HTotal(c) = HTotal(c2) ELSE S.st[c] = S.st[c2]
  /\ \A k \in DOMAIN S.dset : k[1] = s1 => \E k2 \in DOMAIN S.dset : k2[1] = s2 /\
        (IF IsProm(s1) = IsProm(s2) THEN k2[2] = k[2] /\ k2[3] = k[3] ELSE San(k2[3]) = San(k[3]))
FanoutAgree ==
  Quiescent => \A G \in FanGroups(cf.g) \cup FanGroups(cf.l) : \A s1 \in G, s2 \in G : AgreeOn(s1, s2)
StrictAgreeOn(s1, s2) ==
  \A c \in CellsAt(S.st, s1) : c[2] # "h" => S.st[c] = S.st[<<s2, c[2], c[3], c[4]>>]
StrictFanoutAgree ==      \* witness: without the exception the model violates it
  Quiescent => \A G \in FanGroups(cf.g) \cup FanGroups(cf.l) : \A s1 \in G, s2 \in G : StrictAgreeOn(s1, s2)

(* a kept handle is the storages it was resolved to, whatever the thread's scope is now *)
HandleStable ==
  \A t \in Threads : LET h == S.th[t].held IN
     h.cells # <<>> => /\ \A i \in DOMAIN h.cells : h.cells[i] \in DOMAIN S.st /\ h.cells[i][2] = h.k
                       /\ {h.cells[i][1] : i \in DOMAIN h.cells} \subseteq Sinks(IF h.sc THEN cf.l ELSE cf.g)

(* descriptions reach the sinks their metrics reach (same Deliver), at quiescence every completed
   describe is in the table of each sink it was routed to *)
DescRoute ==
  /\ \A k \in DOMAIN S.ds : k \in DOMAIN S.dset \/ \E t \in Threads : S.th[t].ph = "dsc"
  /\ AllIdle(S) => \A k \in DOMAIN S.dset : k \in DOMAIN S.ds /\ \E g \in S.dset[k] : g[2] = S.ds[k][2]

ObsBounds == last.okBounds
ObsExact == last.okExact
ObsDesc == last.okDesc

TypeOK ==
  /\ \A t \in Threads : /\ S.th[t].ph \in {"idle", "reg", "upd", "dsc"}
                        /\ S.th[t].n \in 0..MaxEmit
                        /\ S.th[t].ph # "idle" => S.th[t].i < Len(S.th[t].tg) /\ S.th[t].tg # <<>>
                        /\ S.th[t].sc => t \in LocalThr
  /\ \A c \in DOMAIN S.st : c[1] \in AllSinks(cf) /\ c[2] \in {"c", "g", "h"}
  /\ nobs \in 0..MaxObs
=============================================================================
