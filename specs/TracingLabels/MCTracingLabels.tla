-------------------------- MODULE MCTracingLabels --------------------------
(* Exhaustive configuration of TracingLabels: every sequence of at most MaxOps *)
(* span!/record/enter/exit calls over a small alphabet, and in EVERY reachable  *)
(* state EVERY emission (thread x metric x own-label sequence x filter) is      *)
(* checked against the property (AllEmitsOK).                                   *)
EXTENDS TracingLabels

CONSTANTS Names,      \* field / label names: 1..k
          Vals,       \* values: 1..j
          Metrics,    \* metric names: 1..i
          AllOrders   \* TRUE: fields / metric labels in every declaration order; FALSE: ascending names only

LabelSeqsAnyOrder ==
  {s \in UNION {[1..k -> Names \X Vals] : k \in 0..Cardinality(Names)} : Distinct(s)}
Ascending(s) == \A i \in 1..(Len(s) - 1) : s[i][1] < s[i + 1][1]
LabelSeqs == IF AllOrders THEN LabelSeqsAnyOrder ELSE {s \in LabelSeqsAnyOrder : Ascending(s)}

\* filters: include-all, allow-lists (some names, no name, one name), custom (metric-, name- and value-dependent)
MCFilters ==
  { AllFilter,
    [kind |-> "allow", names |-> {1, 2}, deny |-> {}],
    [kind |-> "allow", names |-> {}, deny |-> {}],
    [kind |-> "allow", names |-> {MaxOf(Names)}, deny |-> {}],
    [kind |-> "custom", names |-> {}, deny |-> {<<1, 1, 1>>, <<MaxOf(Metrics), 2, 2>>, <<1, 2, 1>>, <<1, MaxOf(Names), 2>>}] }

\* Emit only rewrites `out` (hidden by MCView), so as an action it needs no more than a few label sequences;
\* AllEmitsOK quantifies over all of LabelSeqs in every state.
EmitSeqs == {<<>>, <<<<1, 1>>>>, <<<<2, 2>>, <<1, 1>>>>}

MCNext ==
  \/ \E t \in Threads, pm \in {CtxParent, RootParent} \cup Spans, fs \in LabelSeqs : NewSpan(t, pm, fs)
  \/ \E s \in Spans, n \in Names, v \in Vals : Record(s, n, v)
  \/ \E t \in Threads, s \in Spans : Enter(t, s)
  \/ \E t \in Threads, s \in Spans : Exit(t, s)
  \/ \E t \in Threads, m \in Metrics, ml \in EmitSeqs : Emit(t, m, ml)

MCSpec == Init /\ [][MCNext]_vars

\* `out` only remembers the last delivery; every delivery possible in a state is checked by AllEmitsOK,
\* so hiding `out` loses nothing and keeps Emit from multiplying the state space.
MCView == <<par, labels, stack, filter, own, psnap, nops>>

AllEmitsOK ==
  \A t \in Threads :
    LET c == Cur(t)
        V == Vis(c)
    IN \A f \in MCFilters, m \in Metrics, ml \in LabelSeqs : EmitOKV(f, V, m, ml, DeliverC(f, c, m, ml))

\* Decomposition used by the larger configurations (AllEmitsOK = PreMergeOK + EnhanceOK):
\*  - PreMergeOK (state invariant): the stored map of every span is its visible-field map;
\*  - EnhanceOK (no state involved): for EVERY stored map L, filter, metric and own-label sequence, what
\*    enhance_key builds from L satisfies the property with respect to MapOf(L).
EnhanceOK ==
  \A f \in MCFilters, m \in Metrics, ml \in LabelSeqsAnyOrder :
     /\ EmitOKV(f, EmptyMap, m, ml, DeliverOn(f, <<>>, FALSE, m, ml))
     /\ \A L \in LabelSeqsAnyOrder : EmitOKV(f, MapOf(L), m, ml, DeliverOn(f, L, TRUE, m, ml))
ASSUME EnhanceOK

\* independence of other threads, stated directly: the delivery of thread t is a function of t's current
\* span's visible fields only
ThreadIndep ==
  \A t, u \in Threads, m \in Metrics, ml \in LabelSeqs :
     (Cur(t) # 0 /\ Cur(u) # 0 /\ Vis(Cur(t)) = Vis(Cur(u))) =>
        SameBag(Deliver(t, m, ml), Deliver(u, m, ml))
=============================================================================
