--------------------------- MODULE TracingLabels ---------------------------
(***************************************************************************)
(* metrics-tracing-context: span fields become metric labels.              *)
(*                                                                         *)
(* Mirrors                                                                 *)
(*   tracing_integration.rs  MetricsLayer::on_new_span / on_record and the *)
(*                           `Labels` span extension (an IndexMap: insertion*)
(*                           ordered, `insert` overwrites in place,        *)
(*                           `entry().or_insert_with()` keeps the old one) *)
(*   lib.rs                  TracingContext::enhance_key                   *)
(*   label_filter.rs         IncludeAll / Allowlist / any LabelFilter      *)
(* and, of tracing-subscriber's Registry, exactly what the code relies on: *)
(* the per-thread stack of entered spans (push marks a re-entered id as    *)
(* duplicate, pop removes the LAST occurrence of the id, the current span  *)
(* is the last non-duplicate entry) and the parent of a new span (explicit,*)
(* none, or the creating thread's current span).                           *)
(*                                                                         *)
(* One action = one public call: span!(..) / Span::record / enter / exit / *)
(* counter!|gauge!|histogram!(name, labels).                               *)
(*                                                                         *)
(* Mechanism state (what the code stores):                                 *)
(*   par[s]     parent span id (0 = none)                                  *)
(*   labels[s]  the Labels extension: sequence of <<name, value>>, distinct *)
(*              names, PRE-MERGED with the parent's at creation            *)
(*   stack[t]   entered spans of thread t: sequence of [id, dup]           *)
(*   filter     the LabelFilter of the TracingContextLayer                 *)
(* Reference state (what the property talks about, never read by Deliver): *)
(*   own[s]     the span's OWN fields: name -> latest value (creation      *)
(*              fields, then record() calls)                               *)
(*   psnap[s]   own[par[s]] as it was when s was created                   *)
(* The property is stated against Vis(s) = own[s] over psnap[s] over       *)
(* psnap[par[s]] over ... (walk up the ancestors at emit time), i.e. NOT   *)
(* against the pre-merged map; TLC decides that the pre-merging algorithm  *)
(* (or_insert at creation, insert at record, retain + extend at emit)      *)
(* delivers exactly that.                                                  *)
(***************************************************************************)
EXTENDS Naturals, Integers, Sequences, FiniteSets, SequencesExt, TLC

CONSTANTS Threads,    \* thread ids (positive integers)
          MaxSpans,   \* bound on spans created
          MaxDepth,   \* bound on entered spans per thread
          MaxOps      \* bound on state-changing calls (Emit is not counted)

VARIABLES par, labels, stack, filter, own, psnap, out, nops

mech  == <<par, labels, stack, filter>>
ghost == <<own, psnap>>
vars  == <<par, labels, stack, filter, own, psnap, out, nops>>

CtxParent == -1     \* span!(..)                 : parent = creating thread's current span
RootParent == 0     \* span!(parent: None, ..)   : no parent
                    \* span!(parent: &p, ..)     : parent = p  (a span id >= 1)

NSpans == Len(par)
Spans == 1..NSpans

\* ------------------------------------------------------------------ IndexMap
HasName(seq, n) == \E i \in DOMAIN seq : seq[i][1] = n
IdxOf(seq, n) == CHOOSE i \in DOMAIN seq : seq[i][1] = n
NamesOf(seq) == {seq[i][1] : i \in DOMAIN seq}
Distinct(seq) == \A i, j \in DOMAIN seq : i # j => seq[i][1] # seq[j][1]
\* IndexMap::insert — overwrite the value in place, else append
Insert(seq, e) == IF HasName(seq, e[1]) THEN [seq EXCEPT ![IdxOf(seq, e[1])] = e] ELSE Append(seq, e)
\* IndexMap::entry(k).or_insert_with(v) — keep the existing value, else append
OrInsert(seq, e) == IF HasName(seq, e[1]) THEN seq ELSE Append(seq, e)
\* Labels::from_record: the visitor inserts every field that has a value, in declaration order
RECURSIVE InsertAll(_, _), OrInsertAll(_, _)
InsertAll(seq, es) == IF es = <<>> THEN seq ELSE InsertAll(Insert(seq, Head(es)), Tail(es))
OrInsertAll(seq, es) == IF es = <<>> THEN seq ELSE OrInsertAll(OrInsert(seq, Head(es)), Tail(es))
FromRecord(fs) == InsertAll(<<>>, fs)
\* Labels::extend_from_labels / extend_from_labels_overwrite
ExtendKeep(seq, other) == OrInsertAll(seq, other)
ExtendOverwrite(seq, other) == InsertAll(seq, other)

\* ------------------------------------------------------------------ filter
\* [kind |-> "all"] | [kind |-> "allow", names |-> set] | [kind |-> "custom", deny |-> set of <<metric, name, value>>]
AllFilter == [kind |-> "all", names |-> {}, deny |-> {}]
Allowed(f, m, e) ==
  CASE f.kind = "all"    -> TRUE
    [] f.kind = "allow"  -> e[1] \in f.names
    [] f.kind = "custom" -> <<m, e[1], e[2]>> \notin f.deny

\* ------------------------------------------------------------------ Registry: current span
MaxOf(S) == CHOOSE x \in S : \A y \in S : y <= x
NonDup(t) == {i \in DOMAIN stack[t] : ~stack[t][i].dup}
Cur(t) == IF NonDup(t) = {} THEN 0 ELSE stack[t][MaxOf(NonDup(t))].id

\* ------------------------------------------------------------------ reference (ghost) maps
EmptyMap == <<>>
MapOf(seq) == [n \in NamesOf(seq) |-> seq[IdxOf(seq, n)][2]]
Put(f, n, v) == [x \in (DOMAIN f) \cup {n} |-> IF x = n THEN v ELSE f[x]]
Over(f, g) == [x \in (DOMAIN f) \cup (DOMAIN g) |-> IF x \in DOMAIN f THEN f[x] ELSE g[x]]

RECURSIVE Inherited(_)
\* what span s sees of its ancestors: each ancestor's own fields as they were when its child on the
\* path was created, nearer ancestors first
Inherited(s) == IF par[s] = 0 THEN EmptyMap ELSE Over(psnap[s], Inherited(par[s]))
Vis(s) == IF s = 0 THEN EmptyMap ELSE Over(own[s], Inherited(s))

\* ------------------------------------------------------------------ enhance_key
\* The pure part: f filter, L the current span's Labels map (sequence), hasSpan: there is a current span,
\* m metric name, ml the metric's own labels (sequence of <<name, value>>)
DeliverOn(f, L, hasSpan, m, ml) ==
  IF ~hasSpan THEN ml                                  \* current.id()? -> None: key passed through
  ELSE IF L = <<>> THEN ml                             \* (!span_labels.is_empty()).then(..) -> None
  ELSE LET kept == SelectSeq(L, LAMBDA e : Allowed(f, m, e))   \* span_labels.retain(filter)
       IN ExtendOverwrite(kept, ml)                    \* span_labels.extend(metric labels): overwrite / append
\* c: the emitting thread's current span (0 = none)
DeliverC(f, c, m, ml) == DeliverOn(f, IF c = 0 THEN <<>> ELSE labels[c], c # 0, m, ml)
DeliverF(f, t, m, ml) == DeliverC(f, Cur(t), m, ml)
Deliver(t, m, ml) == DeliverF(filter, t, m, ml)

NoOut == [t |-> 0, m |-> 0, ml |-> <<>>, key |-> <<>>, model |-> <<>>, vis |-> <<>>]

InitWith(f) ==
  /\ par = <<>> /\ labels = <<>> /\ own = <<>> /\ psnap = <<>>
  /\ stack = [t \in Threads |-> <<>>]
  /\ filter = f
  /\ out = NoOut
  /\ nops = 0
Init == InitWith(AllFilter)

\* ------------------------------------------------------------------ actions
\* span!(parent: pm, "..", fs...) executed by thread t.  fs = the fields that have a value, in
\* declaration order (an `Option::None` / `Empty` field is simply absent).
NewSpan(t, pm, fs) ==
  /\ nops < MaxOps /\ NSpans < MaxSpans
  /\ pm = CtxParent \/ pm = RootParent \/ pm \in Spans
  /\ LET p == IF pm = CtxParent THEN Cur(t) ELSE pm
         mine == FromRecord(fs)
         lbl == IF p = 0 THEN mine ELSE ExtendKeep(mine, labels[p])   \* child's fields win, parent's appended
     IN /\ par' = Append(par, p)
        /\ labels' = Append(labels, lbl)
        /\ own' = Append(own, MapOf(mine))
        /\ psnap' = Append(psnap, IF p = 0 THEN EmptyMap ELSE own[p])
  /\ nops' = nops + 1
  /\ UNCHANGED <<stack, filter, out>>

\* span.record(n, v) — by any thread; on_record overwrites / appends in the span's own map only
Record(s, n, v) ==
  /\ nops < MaxOps /\ s \in Spans
  /\ labels' = [labels EXCEPT ![s] = ExtendOverwrite(@, FromRecord(<<<<n, v>>>>))]
  /\ own' = [own EXCEPT ![s] = Put(@, n, v)]
  /\ nops' = nops + 1
  /\ UNCHANGED <<par, stack, filter, psnap, out>>

\* Registry::enter -> SpanStack::push
Enter(t, s) ==
  /\ nops < MaxOps /\ s \in Spans /\ Len(stack[t]) < MaxDepth
  /\ LET st == stack[t] IN
     stack' = [stack EXCEPT ![t] = Append(st, [id |-> s, dup |-> \E i \in DOMAIN st : st[i].id = s])]
  /\ nops' = nops + 1
  /\ UNCHANGED <<par, labels, filter, own, psnap, out>>

\* Registry::exit -> SpanStack::pop: removes the last occurrence of the id (not necessarily the top)
Exit(t, s) ==
  /\ nops < MaxOps
  /\ LET st == stack[t]
         occ == {i \in DOMAIN st : st[i].id = s}
     IN /\ occ # {}
        /\ LET i == MaxOf(occ) IN
           stack' = [stack EXCEPT ![t] = SubSeq(st, 1, i - 1) \o SubSeq(st, i + 1, Len(st))]
  /\ nops' = nops + 1
  /\ UNCHANGED <<par, labels, filter, own, psnap, out>>

\* counter!/gauge!/histogram!(m, ml) by thread t: the key handed to the inner recorder
Emit(t, m, ml) ==
  /\ Distinct(ml)
  /\ LET k == Deliver(t, m, ml) IN out' = [t |-> t, m |-> m, ml |-> ml, key |-> k, model |-> k, vis |-> Vis(Cur(t))]
  /\ UNCHANGED <<par, labels, stack, filter, own, psnap, nops>>

\* ------------------------------------------------------------------ the property
\* EmitOKF(f, t, m, ml, key): `key` (sequence of <<name, value>>) is a correct delivery for an emission of
\* metric m with own labels ml by thread t in the current state under filter f.
SameBag(a, b) == Len(a) = Len(b) /\ \A x \in ToSet(a) \cup ToSet(b) :
                   Cardinality({i \in DOMAIN a : a[i] = x}) = Cardinality({i \in DOMAIN b : b[i] = x})

\* (V = Vis(current span of the emitting thread), the empty map when there is none; passed in so it is computed once)
PNoDup(key) == Cardinality(NamesOf(key)) = Len(key)           \* no label name twice
PMetricWins(ml, key) == ToSet(ml) \subseteq ToSet(key)        \* own labels kept, own value wins
PSpanFieldsV(f, V, m, ml, key) ==                              \* besides, exactly the admitted visible fields
  LET KS == ToSet(key)
      NM == NamesOf(ml)
  IN /\ \A n \in (DOMAIN V) \ NM : Allowed(f, m, <<n, V[n]>>) <=> (<<n, V[n]>> \in KS)
     /\ \A e \in KS : \/ e[1] \in NM
                      \/ e[1] \in DOMAIN V /\ e[2] = V[e[1]] /\ Allowed(f, m, e)
PUnchangedV(V, ml, key) == (DOMAIN V = {}) => key = ml         \* no span / no visible field: untouched

EmitOKV(f, V, m, ml, key) ==
  /\ PNoDup(key) /\ PMetricWins(ml, key) /\ PSpanFieldsV(f, V, m, ml, key) /\ PUnchangedV(V, ml, key)
EmitOKF(f, t, m, ml, key) == EmitOKV(f, Vis(Cur(t)), m, ml, key)

\* the last delivery (observed key in trace validation; = model in exhaustive runs); out.vis = the visible
\* fields of the emitting thread's current span at that moment
OutNoDup      == out.t # 0 => PNoDup(out.key)
OutMetricWins == out.t # 0 => PMetricWins(out.ml, out.key)
OutSpanFields == out.t # 0 => PSpanFieldsV(filter, out.vis, out.m, out.ml, out.key)
OutUnchanged  == out.t # 0 => PUnchangedV(out.vis, out.ml, out.key)
\* the observed key is what the mirrored algorithm computes (as a bag; identical when it must be untouched)
OutConforms   == out.t # 0 => SameBag(out.key, out.model)

\* mechanism lemma: the pre-merged map of every span is its visible-field map
PreMergeOK == \A s \in Spans : Distinct(labels[s]) /\ MapOf(labels[s]) = Vis(s)

StructOK ==
  /\ Len(labels) = NSpans /\ Len(own) = NSpans /\ Len(psnap) = NSpans
  /\ \A s \in Spans : par[s] \in 0..(s - 1)
  /\ \A t \in Threads : \A i \in DOMAIN stack[t] :
        /\ stack[t][i].id \in Spans
        /\ stack[t][i].dup = (\E j \in 1..(i - 1) : stack[t][j].id = stack[t][i].id)
=============================================================================
