------------------------- MODULE TracingLabelsConc -------------------------
(***************************************************************************)
(* metrics-tracing-context, two kinds of threads sharing ONE span          *)
(* (tracing spans are Send + Sync): emitter threads have the span entered  *)
(* and emit metrics, a recorder thread calls span.record(field, k) with    *)
(* k = 1, 2, ...  The span's field is abstracted to one integer `val`      *)
(* (0 = the value given at creation).                                       *)
(*                                                                         *)
(* Atomic steps.                                                           *)
(*  emission  e_start  the call begins (ticket); with a cache: look at the *)
(*                     thread's remembered entry and the epoch             *)
(*            e_fetch  read the span's Labels under the extensions READ    *)
(*                     lock                                                *)
(*            e_build  label filter + key construction (arbitrarily long:  *)
(*                     user code runs here); the key is delivered          *)
(*            e_store  with a cache: remember (epoch stamp, labels)        *)
(*  record    r_start  the call begins                                     *)
(*            r_merge  replace the value under the extensions WRITE lock   *)
(*            r_bump   with a cache: bump the epoch                        *)
(*            r_ret    the call returns                                    *)
(*                                                                         *)
(* Cache = FALSE is the code as written (tracing_integration.rs on_layer / *)
(* lib.rs enhance_key): the closure that clones, filters and builds runs   *)
(* while the read lock is held (`let ext = span.extensions(); f(ext.get…)`)*)
(* so r_merge cannot happen between e_fetch and the end of e_build.        *)
(* Cache = TRUE models a per-thread "labels of the last span" cache        *)
(* validated by a global epoch: the lock is held for the copy only.        *)
(*   CacheStampedLate = FALSE: the entry is stamped with the epoch read    *)
(*                      BEFORE the labels were fetched (sound);            *)
(*   CacheStampedLate = TRUE : stamped with the epoch read at STORE time   *)
(*                      (witness: TLC must reject it).                     *)
(*                                                                         *)
(* Property (RecordVisible): a metric whose emission STARTED after a       *)
(* record() RETURNED carries that record's value or a later one; an        *)
(* overlapping one may carry either (NoFuture: never a value whose record  *)
(* has not started).                                                       *)
(***************************************************************************)
EXTENDS Naturals, FiniteSets, TLC

CONSTANTS Emitters,          \* emitter thread ids
          NEmits,            \* emissions per emitter
          NRecs,             \* records by the recorder
          Cache,             \* BOOLEAN
          CacheStampedLate   \* BOOLEAN (only meaningful with Cache)

VARIABLES val,       \* the span's stored label value
          epoch,     \* global labels epoch (cache variants)
          readers,   \* emitters holding the extensions read lock
          cache,     \* cache[t] = [ok, epoch, val]
          pc, loc, ep0, got, floor, done,   \* per emitter: pc, copied labels, epoch seen early, delivered value,
                                            \* last returned record when the emission started, emissions done
          rpc, rk,   \* recorder: pc, index of the record in progress / next
          lastStart, lastRet   \* highest record value whose call has started / returned

vars == <<val, epoch, readers, cache, pc, loc, ep0, got, floor, done, rpc, rk, lastStart, lastRet>>

Init ==
  /\ val = 0 /\ epoch = 0 /\ readers = {}
  /\ cache = [t \in Emitters |-> [ok |-> FALSE, epoch |-> 0, val |-> 0]]
  /\ pc = [t \in Emitters |-> "e_start"]
  /\ loc = [t \in Emitters |-> 0] /\ ep0 = [t \in Emitters |-> 0]
  /\ got = [t \in Emitters |-> 0] /\ floor = [t \in Emitters |-> 0] /\ done = [t \in Emitters |-> 0]
  /\ rpc = "r_start" /\ rk = 1 /\ lastStart = 0 /\ lastRet = 0

EStart(t) ==
  /\ pc[t] = "e_start" /\ done[t] < NEmits
  /\ floor' = [floor EXCEPT ![t] = lastRet]
  /\ ep0' = [ep0 EXCEPT ![t] = epoch]
  /\ IF Cache /\ cache[t].ok /\ cache[t].epoch = epoch
       THEN /\ loc' = [loc EXCEPT ![t] = cache[t].val]        \* hit: no lookup, no lock
            /\ pc' = [pc EXCEPT ![t] = "e_build"]
       ELSE /\ loc' = loc
            /\ pc' = [pc EXCEPT ![t] = "e_fetch"]
  /\ UNCHANGED <<val, epoch, readers, cache, got, done, rpc, rk, lastStart, lastRet>>

EFetch(t) ==
  /\ pc[t] = "e_fetch"
  /\ loc' = [loc EXCEPT ![t] = val]
  /\ readers' = IF Cache THEN readers ELSE readers \cup {t}   \* as written: the lock stays held for the closure
  /\ pc' = [pc EXCEPT ![t] = "e_build"]
  /\ UNCHANGED <<val, epoch, cache, ep0, got, floor, done, rpc, rk, lastStart, lastRet>>

EBuild(t) ==
  /\ pc[t] = "e_build"
  /\ got' = [got EXCEPT ![t] = loc[t]]
  /\ readers' = readers \ {t}
  /\ pc' = [pc EXCEPT ![t] = IF Cache THEN "e_store" ELSE "e_done"]
  /\ UNCHANGED <<val, epoch, cache, loc, ep0, floor, done, rpc, rk, lastStart, lastRet>>

EStore(t) ==
  /\ pc[t] = "e_store"
  /\ cache' = [cache EXCEPT ![t] = [ok |-> TRUE, epoch |-> IF CacheStampedLate THEN epoch ELSE ep0[t], val |-> loc[t]]]
  /\ pc' = [pc EXCEPT ![t] = "e_done"]
  /\ UNCHANGED <<val, epoch, readers, loc, ep0, got, floor, done, rpc, rk, lastStart, lastRet>>

EDone(t) ==
  /\ pc[t] = "e_done"
  /\ done' = [done EXCEPT ![t] = @ + 1]
  /\ pc' = [pc EXCEPT ![t] = "e_start"]
  /\ UNCHANGED <<val, epoch, readers, cache, loc, ep0, got, floor, rpc, rk, lastStart, lastRet>>

RStart ==
  /\ rpc = "r_start" /\ rk <= NRecs
  /\ lastStart' = rk /\ rpc' = "r_merge"
  /\ UNCHANGED <<val, epoch, readers, cache, pc, loc, ep0, got, floor, done, rk, lastRet>>
RMerge ==
  /\ rpc = "r_merge" /\ readers = {}          \* write lock
  /\ val' = rk /\ rpc' = IF Cache THEN "r_bump" ELSE "r_ret"
  /\ UNCHANGED <<epoch, readers, cache, pc, loc, ep0, got, floor, done, rk, lastStart, lastRet>>
RBump ==
  /\ rpc = "r_bump"
  /\ epoch' = epoch + 1 /\ rpc' = "r_ret"
  /\ UNCHANGED <<val, readers, cache, pc, loc, ep0, got, floor, done, rk, lastStart, lastRet>>
RRet ==
  /\ rpc = "r_ret"
  /\ lastRet' = rk /\ rk' = rk + 1 /\ rpc' = "r_start"
  /\ UNCHANGED <<val, epoch, readers, cache, pc, loc, ep0, got, floor, done, lastStart>>

Next == (\E t \in Emitters : EStart(t) \/ EFetch(t) \/ EBuild(t) \/ EStore(t) \/ EDone(t))
        \/ RStart \/ RMerge \/ RBump \/ RRet
Spec == Init /\ [][Next]_vars

\* an emission that has delivered its key (pc e_store / e_done)
Delivered(t) == pc[t] \in {"e_store", "e_done"}
RecordVisible == \A t \in Emitters : Delivered(t) => got[t] >= floor[t]
NoFuture == \A t \in Emitters : Delivered(t) => got[t] <= lastStart
TypeOK == val \in 0..NRecs /\ epoch \in 0..NRecs /\ readers \subseteq Emitters /\ lastRet <= lastStart
=============================================================================
