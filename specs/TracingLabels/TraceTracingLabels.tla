------------------------ MODULE TraceTracingLabels ------------------------
(* Trace validation: programs executed by harness/src/bin/c17.rs on a real    *)
(* tracing_subscriber Registry + MetricsLayer with a TracingContextLayer over *)
(* a probe recorder.  One ndjson line per public call; for every emission the *)
(* key the probe received.  Each line is replayed on TracingLabels.tla; the   *)
(* OBSERVED key is put into `out.key` (the model's own computation into       *)
(* `out.model`) and the property invariants OutNoDup / OutMetricWins /        *)
(* OutSpanFields / OutUnchanged are evaluated on the observed key against the *)
(* reference maps own/psnap, OutConforms compares it with the mirrored        *)
(* algorithm (as a bag of labels).                                            *)
(*                                                                            *)
(* Events (names, values, metric names, span ids are small integers):         *)
(*  {"ev":"reset","filter":{"kind":"all"|"allow"|"custom","names":[n..],"deny":[[m,n,v]..]}} *)
(*  {"ev":"new","t":t,"pm":-1|0|p,"fs":[[n,v]..],"id":s}                      *)
(*  {"ev":"rec","t":t,"s":s,"n":n,"v":v}                                       *)
(*  {"ev":"enter","t":t,"s":s}   {"ev":"exit","t":t,"s":s}                     *)
(*  {"ev":"emit","t":t,"m":m,"ml":[[n,v]..],"k":kind,"n":deliveries,          *)
(*   "rk":kind received,"rm":name received,"key":[[n,v]..]}                    *)
EXTENDS TracingLabels, Json, IOUtils, TLCExt
VARIABLE l
Rec == ndJsonDeserialize(IOEnv.TRACE)
tvars == <<vars, l>>

E == Rec[l]
Step == l' = l + 1

FilterOf(j) == [kind |-> j.kind, names |-> ToSet(j.names), deny |-> ToSet(j.deny)]

ResetTo(f) ==
  /\ par' = <<>> /\ labels' = <<>> /\ own' = <<>> /\ psnap' = <<>>
  /\ stack' = [t \in Threads |-> <<>>]
  /\ filter' = f
  /\ out' = NoOut
  /\ nops' = 0

\* the emission as the spec performs it, with the observed key recorded for the invariants
EmitObserved(e) ==
  /\ Distinct(e.ml)                                           \* precondition of the property: distinct own names
  /\ e.n = 1                                                  \* exactly one register_* call reached the probe
  /\ e.rk = e.k /\ e.rm = e.m                                 \* same kind, same metric name
  /\ out' = [t |-> e.t, m |-> e.m, ml |-> e.ml, key |-> e.key,
             model |-> Deliver(e.t, e.m, e.ml), vis |-> Vis(Cur(e.t))]
  /\ UNCHANGED <<par, labels, stack, filter, own, psnap, nops>>

TraceNext ==
  /\ l <= Len(Rec)
  /\ CASE E.ev = "reset" -> ResetTo(FilterOf(E.filter)) /\ Step
       [] E.ev = "new"   -> NewSpan(E.t, E.pm, E.fs) /\ NSpans' = E.id /\ Step
       [] E.ev = "rec"   -> Record(E.s, E.n, E.v) /\ Step
       [] E.ev = "enter" -> Enter(E.t, E.s) /\ Step
       [] E.ev = "exit"  -> Exit(E.t, E.s) /\ Step
       [] E.ev = "emit"  -> EmitObserved(E) /\ Step
       [] OTHER -> FALSE        \* panic / unknown event: not a behaviour

TraceInit == Init /\ l = 1
TraceSpec == TraceInit /\ [][TraceNext]_tvars
TraceAccepted ==
  LET d == TLCGet("stats").diameter IN
  IF d - 1 = Len(Rec) THEN TRUE
  ELSE Print(<<"TRACE REJECTED at line", d, Rec[d]>>, FALSE)
=============================================================================
