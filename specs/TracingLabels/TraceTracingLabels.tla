------------------------ MODULE TraceTracingLabels ------------------------
(* Trace validation: programs executed by harness/src/bin/c17.rs on a real    *)
(* tracing_subscriber Registry + MetricsLayer with a TracingContextLayer over *)
(* a probe recorder.  One ndjson line per public call; for every emission the *)
(* key the probe received.  Each line is replayed on TracingLabels.tla; the   *)
(* OBSERVED key is put into `out.key` (the model's own computation into       *)
(* `out.model`) and the property invariants OutNoDup / OutMetricWins /        *)
(* OutSpanFields / OutUnchanged are evaluated on the observed key against the *)
(* reference maps own/psnap, OutConforms compares it with the mirrored        *)
(* algorithm (as a bag of labels).                                            *)
(*                                                                            *)
(* Events (names, values, metric names, span ids are small integers):         *)
(*  {"ev":"reset","filter":{"kind":"all"|"allow"|"custom","names":[n..],"deny":[[m,n,v]..]}} *)
(*  {"ev":"new","t":t,"pm":-1|0|p,"fs":[[n,v]..],"id":s}                      *)
(*  {"ev":"rec","t":t,"s":s,"n":n,"v":v}                                       *)
(*  {"ev":"enter","t":t,"s":s}   {"ev":"exit","t":t,"s":s}                     *)
(*  {"ev":"emit","t":t,"m":m,"ml":[[n,v]..],"k":kind,"n":deliveries,          *)
(*   "rk":kind received,"rm":name received,"key":[[n,v]..]}                    *)
(*  {"ev":"hist","s":s,"ops":[..]}  calls of SEVERAL threads around span s,    *)
(*   each with start / end tickets "st" < "en" from one SeqCst counter:        *)
(*     {"op":"rec","t":t,"n":n,"v":v,"st":..,"en":..}   (one recorder thread,  *)
(*                                                        sequential)           *)
(*     {"op":"emit","t":t,"m":m,"ml":[..],"kd":kind,"cnt":deliveries,"rk":..,  *)
(*      "rm":..,"key":[..],"st":..,"en":..}                                     *)
(*   RecordVisible: every emission is explained by the state after p of the    *)
(*   records, for some p between the number of records that RETURNED before it *)
(*   started and the number that STARTED before it ended (an emission that     *)
(*   started after record() returned carries the recorded value; an overlapping*)
(*   one may carry either).                                                    *)
EXTENDS TracingLabels, Json, IOUtils, TLCExt
VARIABLES l,     \* next trace line
          hok    \* every emission of every concurrent history so far is explained (RecordVisible)
Rec == ndJsonDeserialize(IOEnv.TRACE)
tvars == <<vars, l, hok>>

E == Rec[l]
Step == l' = l + 1 /\ UNCHANGED hok

FilterOf(j) == [kind |-> j.kind, names |-> ToSet(j.names), deny |-> ToSet(j.deny)]

ResetTo(f) ==
  /\ par' = <<>> /\ labels' = <<>> /\ own' = <<>> /\ psnap' = <<>>
  /\ stack' = [t \in Threads |-> <<>>]
  /\ filter' = f
  /\ out' = NoOut
  /\ nops' = 0

\* the emission as the spec performs it, with the observed key recorded for the invariants
EmitObserved(e) ==
  /\ Distinct(e.ml)                                           \* precondition of the property: distinct own names
  /\ e.n = 1                                                  \* exactly one register_* call reached the probe
  /\ e.rk = e.k /\ e.rm = e.m                                 \* same kind, same metric name
  /\ out' = [t |-> e.t, m |-> e.m, ml |-> e.ml, key |-> e.key,
             model |-> Deliver(e.t, e.m, e.ml), vis |-> Vis(Cur(e.t))]
  /\ UNCHANGED <<par, labels, stack, filter, own, psnap, nops>>

\* ---- concurrent histories around one span
RecsOf(h) == SelectSeq(h.ops, LAMBDA o : o.op = "rec")
EmitsOf(h) == SelectSeq(h.ops, LAMBDA o : o.op = "emit")
RECURSIVE LabelsAfter(_, _, _), OwnAfter(_, _, _)
\* the span's stored map / own fields after the first p records of the history
LabelsAfter(L, recs, p) ==
  IF p = 0 THEN L ELSE ExtendOverwrite(LabelsAfter(L, recs, p - 1), FromRecord(<<<<recs[p].n, recs[p].v>>>>))
OwnAfter(f, recs, p) == IF p = 0 THEN f ELSE Put(OwnAfter(f, recs, p - 1), recs[p].n, recs[p].v)

Explained(h, recs, em) ==
  LET k == Len(recs)
      lo == Cardinality({i \in 1..k : recs[i].en < em.st})     \* returned before the emission started
      hi == Cardinality({i \in 1..k : recs[i].st < em.en})     \* started before the emission ended
      c == Cur(em.t)
  IN /\ em.cnt = 1 /\ em.rk = em.kd /\ em.rm = em.m /\ Distinct(em.ml) /\ em.st < em.en
     /\ \E p \in lo..hi :
          LET L == IF c = 0 THEN <<>> ELSE IF c = h.s THEN LabelsAfter(labels[c], recs, p) ELSE labels[c]
          IN /\ SameBag(em.key, DeliverOn(filter, L, c # 0, em.m, em.ml))
             /\ (L = <<>> => em.key = em.ml)

HistStep(h) ==
  LET recs == RecsOf(h)
      ems == EmitsOf(h)
      k == Len(recs)
  IN /\ h.s \in Spans
     /\ \A i \in 1..k : recs[i].st < recs[i].en /\ (i < k => recs[i].en < recs[i + 1].st)   \* one sequential recorder
     /\ hok' = (hok /\ \A i \in DOMAIN ems : Explained(h, recs, ems[i]))
     /\ labels' = [labels EXCEPT ![h.s] = LabelsAfter(@, recs, k)]
     /\ own' = [own EXCEPT ![h.s] = OwnAfter(@, recs, k)]
     /\ nops' = nops + k
     /\ l' = l + 1
     /\ UNCHANGED <<par, stack, filter, psnap, out>>

RecordVisible == hok

TraceNext ==
  /\ l <= Len(Rec)
  /\ CASE E.ev = "reset" -> ResetTo(FilterOf(E.filter)) /\ l' = l + 1 /\ hok' = TRUE
       [] E.ev = "hist"  -> HistStep(E)
       [] E.ev = "new"   -> NewSpan(E.t, E.pm, E.fs) /\ NSpans' = E.id /\ Step
       [] E.ev = "rec"   -> Record(E.s, E.n, E.v) /\ Step
       [] E.ev = "enter" -> Enter(E.t, E.s) /\ Step
       [] E.ev = "exit"  -> Exit(E.t, E.s) /\ Step
       [] E.ev = "emit"  -> EmitObserved(E) /\ Step
       [] OTHER -> FALSE        \* panic / unknown event: not a behaviour

TraceInit == Init /\ l = 1 /\ hok = TRUE
TraceSpec == TraceInit /\ [][TraceNext]_tvars
TraceAccepted ==
  LET d == TLCGet("stats").diameter IN
  IF d - 1 = Len(Rec) THEN TRUE
  ELSE Print(<<"TRACE REJECTED at line", d, Rec[d]>>, FALSE)
=============================================================================
