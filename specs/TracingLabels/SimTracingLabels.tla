------------------------- MODULE SimTracingLabels -------------------------
(* Spec -> implementation: TLC generates operation programs of TracingLabels  *)
(* together with the key the specification delivers for every emission; each  *)
(* finished program is printed as one REPLAY line.  harness/src/bin/c17.rs     *)
(* executes the programs on the real MetricsLayer / TracingContextLayer,       *)
(* compares every delivered key with TLC's and logs the run for                *)
(* TraceTracingLabels.                                                         *)
(*                                                                             *)
(*  ScriptSpec  (breadth-first, exhaustive): the op kinds are fixed by a script *)
(*              and TLC enumerates EVERY choice of fields / values / spans /    *)
(*              metric labels: complete precedence tables for 3 nested spans.   *)
(*  RandomSpec  (-simulate): random programs over 3 names, 2 values, 2 threads, *)
(*              all parent modes, re-entry, out-of-order exit, all filters.     *)
EXTENDS TracingLabels, Json, Randomization

CONSTANTS Names, Vals, Metrics,
          ScriptId,    \* which script (ScriptSpec)
          FilterId,    \* index into SimFilters; 0 = any (chosen in the initial state)
          SimLen       \* program length (RandomSpec)

VARIABLES prog,   \* the program so far (history)
          kind    \* RandomSpec: the kind of the next op, drawn when the previous op was taken
svars == <<vars, prog, kind>>

LabelSeqsAnyOrder ==
  {s \in UNION {[1..k -> Names \X Vals] : k \in 0..Cardinality(Names)} : Distinct(s)}

\* filters in sequence form (printable as JSON); the same families as MCTracingLabels!MCFilters
SimFilters ==
  << [kind |-> "all", names |-> <<>>, deny |-> <<>>],
     [kind |-> "allow", names |-> <<1, 2>>, deny |-> <<>>],
     [kind |-> "allow", names |-> <<>>, deny |-> <<>>],
     [kind |-> "allow", names |-> <<3>>, deny |-> <<>>],
     [kind |-> "custom", names |-> <<>>, deny |-> << <<1, 1, 1>>, <<2, 2, 2>>, <<1, 2, 1>>, <<1, 3, 2>> >>],
     [kind |-> "custom", names |-> <<>>, deny |-> << <<1, 1, 2>>, <<2, 1, 1>> >>] >>
FilterOfSeq(f) == [kind |-> f.kind, names |-> ToSet(f.names), deny |-> ToSet(f.deny)]
FilterIds == IF FilterId = 0 THEN DOMAIN SimFilters ELSE {FilterId}
\* which SimFilters entry the run uses (recovered from the state: the entries are pairwise different)
FilterSeqNow == SimFilters[CHOOSE i \in DOMAIN SimFilters : FilterOfSeq(SimFilters[i]) = filter]

SimInit == \E i \in FilterIds : InitWith(FilterOfSeq(SimFilters[i])) /\ prog = <<>> /\ kind = "new"

\* ---- one program step of each kind, with the parameter sets given
DoNew(T, PM, FS) == \E t \in T, pm \in PM, fs \in FS :
  NewSpan(t, pm, fs) /\ prog' = Append(prog, [op |-> "new", t |-> t, pm |-> pm, fs |-> fs])
DoRec(T, S) == \E t \in T, s \in S, n \in Names, v \in Vals :
  Record(s, n, v) /\ prog' = Append(prog, [op |-> "rec", t |-> t, s |-> s, n |-> n, v |-> v])
DoEnter(T, S) == \E t \in T, s \in S :
  Enter(t, s) /\ prog' = Append(prog, [op |-> "enter", t |-> t, s |-> s])
DoExit(T) == \E t \in T, s \in Spans :
  Exit(t, s) /\ prog' = Append(prog, [op |-> "exit", t |-> t, s |-> s])
DoEmit(T, M, ML) == \E t \in T, m \in M, ml \in ML :
  Emit(t, m, ml) /\ prog' = Append(prog, [op |-> "emit", t |-> t, m |-> m, ml |-> ml, key |-> Deliver(t, m, ml)])

\* ---- scripted exhaustive enumeration
Scripts ==
  << \* 1: three nested spans through the contextual parent, a record anywhere, one emission
     [ops |-> <<"new", "enter", "new", "enter", "new", "enter", "rec", "emit">>, parents |-> "ctx"],
     \* 2: explicit parent chain with records between the creations (snapshot timing), enter the leaf
     [ops |-> <<"new", "new", "rec", "new", "rec", "enter", "emit">>, parents |-> "chain"],
     \* 3: record on the parent before / after the child exists, emission in the child and back in the parent
     [ops |-> <<"new", "enter", "rec", "new", "enter", "rec", "emit", "exit", "emit">>, parents |-> "ctx"] >>
Script == Scripts[ScriptId]
ScriptParents == IF Script.parents = "ctx" THEN {CtxParent}
                 ELSE IF NSpans = 0 THEN {RootParent} ELSE {NSpans}
Newest == IF NSpans = 0 THEN {} ELSE {NSpans}

ScriptNext ==
  /\ Len(prog) < Len(Script.ops)
  /\ LET k == Script.ops[Len(prog) + 1] IN
     \/ k = "new"   /\ DoNew(Threads, ScriptParents, LabelSeqsAnyOrder)
     \/ k = "rec"   /\ DoRec(Threads, Spans)
     \/ k = "enter" /\ DoEnter(Threads, Newest)
     \/ k = "exit"  /\ DoExit(Threads)
     \/ k = "emit"  /\ DoEmit(Threads, Metrics, LabelSeqsAnyOrder)
  /\ UNCHANGED kind
ScriptSpec == SimInit /\ [][ScriptNext]_svars
ScriptDone == Len(prog) = Len(Script.ops)

\* ---- random programs (-simulate).  TLC's simulator picks uniformly among ALL successor states, which would
\* make almost every op a span creation or an emission (they have the most parameters); so the kind of the
\* next op is drawn uniformly among the enabled kinds when the previous op is taken.  The last op is one fixed
\* emission (the simulator evaluates the printing invariant on every successor: one successor = one program).
EnabledKinds ==
  {"emit", "emit2"} \cup (IF NSpans < MaxSpans THEN {"new"} ELSE {})
           \cup (IF NSpans > 0 THEN {"rec"} ELSE {})
           \cup (IF NSpans > 0 /\ \E t \in Threads : Len(stack[t]) < MaxDepth THEN {"enter", "enter2"} ELSE {})
           \cup (IF \E t \in Threads : stack[t] # <<>> THEN {"exit"} ELSE {})
\* a few label sequences drawn afresh for every step (the simulator computes ALL successors of a step)
SomeSeqs == RandomSubset(10, LabelSeqsAnyOrder)
MinThread == CHOOSE t \in Threads : \A u \in Threads : t <= u
RandomNext ==
  /\ Len(prog) < SimLen
  /\ \/ kind = "new"   /\ DoNew(Threads, {CtxParent, RootParent} \cup Spans, SomeSeqs)
     \/ kind = "rec"   /\ DoRec(Threads, Spans)
     \/ kind \in {"enter", "enter2"} /\ DoEnter(Threads, Spans)
     \/ kind = "exit"  /\ DoExit(Threads)
     \/ kind \in {"emit", "emit2"} /\ DoEmit(Threads, Metrics, SomeSeqs)
     \/ kind = "final" /\ DoEmit({MinThread}, {1}, {<<>>})
  /\ kind' = IF Len(prog') = SimLen - 1 THEN "final" ELSE RandomElement(EnabledKinds')
RandomSpec == SimInit /\ [][RandomNext]_svars
RandomDone == Len(prog) = SimLen

Program == [filter |-> FilterSeqNow, nthreads |-> Cardinality(Threads), ops |-> prog]
PrintScript == ScriptDone => PrintT(<<"REPLAY", ToJson(Program)>>)
PrintRandom == RandomDone => PrintT(<<"REPLAY", ToJson(Program)>>)
=============================================================================
