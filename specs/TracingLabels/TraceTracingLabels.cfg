SPECIFICATION TraceSpec
CONSTANTS
 Threads = {1,2,3}
 MaxSpans = 100000
 MaxDepth = 100000
 MaxOps = 100000000
INVARIANTS RecordVisible OutNoDup OutMetricWins OutSpanFields OutUnchanged OutConforms PreMergeOK StructOK
POSTCONDITION TraceAccepted
CHECK_DEADLOCK FALSE
