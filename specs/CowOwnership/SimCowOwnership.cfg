SPECIFICATION SimSpec
CONSTANTS
 NSlots = 4
 NOwned = 2
 MaxObj = 14
 MaxArcs = 3
 Lens = {0,1,3}
 Caps = {0,1,3,5}
 Threads = {0,1}
 AllowShared = TRUE
 MaxOps = 0
 FmtCaps = {0}
 Bug = "none"
 NewThreads = {0}
 ProgLen = 20
 SimDom = "slice"
 AnySlot = TRUE
 PickKind = TRUE
 HasCmp = TRUE
INVARIANTS Emit NoUB WellFormed
CHECK_DEADLOCK FALSE
