SPECIFICATION Spec
CONSTANTS
 NSlots = 3
 NOwned = 1
 MaxObj = 8
 MaxArcs = 2
 Lens = {0,1}
 Caps = {0,2}
 Threads = {0}
 AllowShared = TRUE
 MaxOps = 0
 FmtCaps = {0}
 Bug = "none"
INVARIANTS TypeOK NoUB WellFormed RefCountExact UniqueOwner ContentOK ElemBalance AllReleased BoundOK
VIEW View
CHECK_DEADLOCK FALSE
