------------------------- MODULE TraceCowOwnership -------------------------
(* Trace validation: a program executed by harness/src/bin/c14.rs on the    *)
(* real metrics::Cow (one ndjson line per public call, with everything the  *)
(* harness could observe after it) must be a behaviour of CowOwnership.tla, *)
(* every logged observable must equal what the specification computes for  *)
(* that step, and every invariant must hold in every state.                 *)
(*                                                                          *)
(*   da / df / db : allocator calls made during the call itself (count of   *)
(*                  allocations, of frees, net bytes) = heap objects that   *)
(*                  appear / disappear in the step                          *)
(*   bf / sm      : frees of something that is not a live allocation, frees *)
(*                  with another size than allocated: always 0              *)
(*   tl           : allocations alive = live heap objects                   *)
(*   dc / dd / el : element clones / drops of the call, live elements       *)
(*   sc           : Arc::strong_count of every Arc the caller still holds   *)
(*   rd / ow      : content read back through every cow / returned value    *)
EXTENDS CowOwnership, Json, IOUtils, TLCExt, SequencesExt
VARIABLES l,      \* next line of the trace
          arcOf,  \* harness Arc number (order of creation) -> heap object id
          dm      \* per-run data of the domain: element size, ArcInner header, alignment, which counters exist
Rec == ndJsonDeserialize(IOEnv.TRACE)
tvars == <<vars, l, arcOf, dm>>

E == Rec[l]
Step == l' = l + 1
Keep == UNCHANGED <<arcOf, dm>>

RoundUp(x, al) == ((x + al - 1) \div al) * al
Bytes(o) == IF o.kind = "vec" THEN o.cap * dm.esz
            ELSE IF o.kind = "arc" THEN RoundUp(dm.hdr + Len(o.data) * dm.esz, dm.al) ELSE 0
RECURSIVE SumBytes(_, _)
SumBytes(h, S) == IF S = {} THEN 0 ELSE LET a == CHOOSE x \in S : TRUE IN Bytes(h[a]) + SumBytes(h, S \ {a})

Born == {a \in Objs : heap[a].kind = "free" /\ heap'[a].kind # "free"}
Gone == {a \in Objs : heap[a].kind # "free" /\ heap'[a].kind = "free"}
\* "no" / "ns": the Vec / String / Arc was allocated by the caller before the call (the call itself allocates nothing)
ByCaller == E.ev \in {"no", "ns"}

ExpRd == [i \in 1..NSlots |-> IF slots'[i].full THEN Read(heap', slots'[i].ptr, slots'[i].len) ELSE <<-1>>]
ExpOw == [j \in 1..NOwned |-> IF owned'[j].full THEN Read(heap', owned'[j].ptr, owned'[j].len) ELSE <<-1>>]

\* every observable logged after the call equals the specification's value for this step
Match ==
  /\ E.da = (IF ByCaller THEN 0 ELSE Cardinality(Born))
  /\ E.df = Cardinality(Gone)
  /\ E.db = (IF ByCaller THEN 0 ELSE SumBytes(heap', Born)) - SumBytes(heap, Gone)
  /\ E.bf = 0 /\ E.sm = 0
  /\ E.tl = Cardinality({a \in Objs : heap'[a].kind # "free"})
  /\ (dm.cnt = 1 => E.dc = dcl' /\ E.dd = ddr')
  /\ (dm.hel = 1 => E.el = elive')
  /\ Len(E.sc) = Len(arcOf')
  /\ \A k \in 1..Len(E.sc) :
        IF E.sc[k] >= 0
        THEN /\ arcOf'[k] # 0
             /\ heap'[arcOf'[k]].kind = "arc" /\ heap'[arcOf'[k]].ext = 1 /\ heap'[arcOf'[k]].strong = E.sc[k]
        ELSE arcOf'[k] = 0          \* the caller dropped its holder (number retired: ids are reused)
  /\ E.rd = ExpRd
  /\ E.ow = ExpOw

Reset ==
  /\ slots' = [i \in 1..NSlots |-> NoVal]
  /\ owned' = [j \in 1..NOwned |-> NoVal]
  /\ heap' = [a \in Objs |-> FreeObj]
  /\ elive' = 0 /\ dcl' = 0 /\ ddr' = 0 /\ err' = "none" /\ nops' = 0
  /\ fmtcap' = E.fcap
  /\ arcOf' = <<>>
  /\ dm' = [esz |-> E.esz, hdr |-> E.hdr, al |-> E.al, cnt |-> E.cnt, hel |-> E.hel]

\* the thread the call ran on is the thread the cow lives on
OnThr(i) == slots[i].thr = E.t

Cmp3(x, y) ==   \* lexicographic order of two sequences of integers: -1, 0, 1
  LET n == IF Len(x) < Len(y) THEN Len(x) ELSE Len(y)
      D == {k \in 1..n : x[k] # y[k]} IN
  IF D = {} THEN (IF Len(x) < Len(y) THEN -1 ELSE IF Len(x) > Len(y) THEN 1 ELSE 0)
  ELSE LET k == CHOOSE k \in D : \A m \in D : k <= m IN IF x[k] < y[k] THEN -1 ELSE 1

Content(i) == Read(heap, slots[i].ptr, slots[i].len)

\* real-parallel run: only what holds for every schedule
ParOK(r) ==
  /\ r.bad = 0 /\ r.bf = 0
  /\ r.sc1 = r.sc0 /\ (r.shared = 1 => r.sc0 = 2 /\ r.sc2 = 1)
  /\ r.el1 = 0 /\ r.tl1 = 0 /\ r.el2 = 0 /\ r.tl2 = 0

TraceNext ==
  /\ l <= Len(Rec)
  /\ (E.ev # "reset" => UNCHANGED fmtcap)
  /\ CASE E.ev = "reset" -> Reset /\ Step
       [] E.ev = "nb"    -> NewBorrowed(E.i, E.t, E.v) /\ Step /\ Keep /\ Match
       [] E.ev = "no"    -> NewOwned(E.i, E.t, E.v, E.c) /\ Step /\ Keep /\ Match
       [] E.ev = "ns"    -> /\ NewShared(E.i, E.t, E.v) /\ Step
                            /\ arcOf' = Append(arcOf, FreshId(heap)) /\ UNCHANGED dm /\ Match
       [] E.ev = "sa"    -> E.a \in DOMAIN arcOf /\ arcOf[E.a] # 0 /\ ShareAgain(E.i, E.t, arcOf[E.a]) /\ Step /\ Keep /\ Match
       [] E.ev = "dh"    -> /\ E.a \in DOMAIN arcOf /\ arcOf[E.a] # 0 /\ DropHolder(arcOf[E.a]) /\ Step
                            /\ arcOf' = [arcOf EXCEPT ![E.a] = 0] /\ UNCHANGED dm /\ Match
       [] E.ev = "cl"    -> OnThr(E.i) /\ Clone(E.i, E.j) /\ Step /\ Keep /\ Match
       [] E.ev = "io"    -> OnThr(E.i) /\ IntoOwned(E.i, E.j) /\ Step /\ Keep /\ Match
       [] E.ev = "dc"    -> OnThr(E.i) /\ DropCow(E.i) /\ Step /\ Keep /\ Match
       [] E.ev = "do"    -> DropOwned(E.j) /\ Step /\ Keep /\ Match
       [] E.ev = "fo"    -> FromOwned(E.j, E.i, E.t) /\ Step /\ Keep /\ Match
       [] E.ev = "mt"    -> MoveToThread(E.i, E.t) /\ Step /\ Keep /\ Match
       [] E.ev = "rd"    -> OnThr(E.i) /\ Peek(E.i) /\ E.res = slots[E.i].len /\ Step /\ Keep /\ Match
       [] E.ev = "hash"  -> OnThr(E.i) /\ Peek(E.i) /\ E.res = 1 /\ Step /\ Keep /\ Match
       [] E.ev = "eq"    -> /\ OnThr(E.i) /\ Peek2(E.i, E.j) /\ Step /\ Keep /\ Match
                            /\ E.res = (IF Content(E.i) = Content(E.j) THEN 1 ELSE 0)
       [] E.ev = "cmp"   -> /\ OnThr(E.i) /\ Peek2(E.i, E.j) /\ Step /\ Keep /\ Match
                            /\ E.res = Cmp3(Content(E.i), Content(E.j))
       [] E.ev = "final" -> /\ Cows = {} /\ Owns = {} /\ \A a \in Objs : heap[a].kind = "free"
                            /\ E.tl = 0 /\ E.bf = 0 /\ E.ovf = 0 /\ (dm.hel = 1 => E.el = 0) /\ elive = 0
                            /\ Step /\ UNCHANGED <<vars, arcOf, dm>>
       [] E.ev = "par"   -> ParOK(E) /\ Step /\ UNCHANGED <<vars, arcOf, dm>>
       \* the type contract the model rests on: a Borrowed value cannot outlive what it borrows from (NewBorrowed never frees,
       \* Peek of a Borrowed value is always safe) - enforced by lifetimes only; observed by compiling programs that let a
       \* borrowed SharedString / KeyName / Label outlive a local String: each must be REJECTED by the borrow checker
       [] E.ev = "api"   -> E.rejected = E.programs /\ E.programs > 0 /\ Step /\ UNCHANGED <<vars, arcOf, dm>>
       [] OTHER -> FALSE   \* crash / hang / panic / bad_program: not a behaviour

TraceInit == Init /\ l = 1 /\ arcOf = <<>> /\ dm = [esz |-> 1, hdr |-> 16, al |-> 8, cnt |-> 0, hel |-> 0]
TraceSpec == TraceInit /\ [][TraceNext]_tvars
TraceAccepted ==
  LET d == TLCGet("stats").diameter IN
  IF d - 1 = Len(Rec) THEN TRUE
  ELSE Print(<<"TRACE REJECTED at line", d, Rec[d]>>, FALSE)
=============================================================================
