---------------------------- MODULE CowOwnership ----------------------------
(***************************************************************************)
(* metrics/src/cow.rs: the ownership protocol of metrics::Cow<'a, T>       *)
(* (SharedString = Cow<'static, str>, Key.labels = Cow<'static, [Label]>). *)
(*                                                                         *)
(* A cow is three words (ptr, len, capacity).  The kind is NOT stored: it  *)
(* is decoded from the capacity word (Metadata::kind, cow.rs:430-436):     *)
(*      capacity = usize::MAX  -> Shared   (ptr came from Arc::into_raw)   *)
(*      capacity = 0           -> Borrowed (nothing to free)               *)
(*      otherwise              -> Owned    (ptr,len,capacity of a Vec)     *)
(* so an *owned* Vec/String whose capacity is 0 (String::new(), the result *)
(* of to_vec() on an empty slice) is, from then on, treated as Borrowed.   *)
(*                                                                         *)
(* The heap is explicit: every Vec buffer and every ArcInner is an object  *)
(* with its capacity, its elements and (Arc) its strong count.  One action *)
(* = one public call; each action does to the heap exactly what the        *)
(* corresponding `Cowable::*_parts` function does (allocate a copy, rebuild*)
(* a Vec/Arc from raw parts and drop it, increment the strong count ...).  *)
(* An operation the allocator / Arc would treat as undefined behaviour     *)
(* (free of a non-live buffer, free with another capacity than allocated,  *)
(* decrement of a dead Arc, read through a dangling pointer) is recorded   *)
(* in `err`; the property says it is unreachable.                          *)
(*                                                                         *)
(* Bug = "none" is the algorithm of cow.rs.  The other values are          *)
(* deliberately broken variants (used only to show that the invariants     *)
(* tell the difference; see checks/c14.py).                                *)
(***************************************************************************)
EXTENDS Naturals, Integers, Sequences, FiniteSets, TLC

CONSTANTS
  NSlots,       \* number of cow slots (live cows at any time)
  NOwned,       \* slots for values returned by into_owned (Vec<T> / String held by the caller)
  MaxObj,       \* heap object ids 1..MaxObj (must never bind: every allocating action needs a free id)
  MaxArcs,      \* bound on simultaneously live Arc allocations offered by Next
  Lens,         \* lengths offered by Next
  Caps,         \* capacities offered by Next (a capacity c is combined with every length n <= c)
  Threads,      \* {0} or {0,1}: the thread a cow currently lives on
  AllowShared,  \* FALSE: no Arc-backed cows (the Key / [Label] domain has no public constructor for them)
  MaxOps,       \* 0 = unbounded operation sequences, n > 0 = at most n state-changing operations
  FmtCaps,      \* possible values of fmtcap (below)
  Bug           \* "none" | "io_drop" | "cl_noinc" | "drop_len0"

VARIABLES
  slots,   \* 1..NSlots -> value record (a cow)
  owned,   \* 1..NOwned -> value record (a Vec/String returned by into_owned)
  heap,    \* 1..MaxObj -> object record
  elive,   \* number of live elements the library and the caller hold on the heap (created + cloned - dropped)
  dcl,     \* element clones performed by the last action
  ddr,     \* element drops performed by the last action
  err,     \* "none" or the first undefined-behaviour event
  nops,    \* operations so far (only when MaxOps > 0)
  fmtcap   \* constant of the run: smallest capacity of a non-empty String built through fmt::Display.
           \* owned_from_parts of a Shared str calls `s.to_string()` on the Arc<str>, which is the generic
           \* Display-based ToString (not str's specialised one): the copy gets capacity max(len, 8).
           \* 8 in the str domain, 0 (copies are exact) for slices.

vars == <<slots, owned, heap, elive, dcl, ddr, err, nops, fmtcap>>
MAXC == -1                                   \* stands for usize::MAX in the capacity word

\* ---- pointers, values, heap objects (uniform record shapes) ----
NoPtr        == [k |-> "none",     a |-> 0, v |-> <<>>]
StaticPtr(c) == [k |-> "static",   a |-> 0, v |-> c]     \* &'static data; v = the static's content
HeapPtr(a)   == [k |-> "heap",     a |-> a, v |-> <<>>]
Dangling     == [k |-> "dangling", a |-> 0, v |-> <<>>]  \* NonNull::dangling() of an unallocated Vec

NoVal == [full |-> FALSE, ptr |-> NoPtr, len |-> 0, cap |-> 0, src |-> <<>>, thr |-> 0]
Val(p, n, c, s, t) == [full |-> TRUE, ptr |-> p, len |-> n, cap |-> c, src |-> s, thr |-> t]
   \* src is a ghost: the content the value was built from

FreeObj == [kind |-> "free", cap |-> 0, data |-> <<>>, strong |-> 0, ext |-> 0]
VecObj(c, d)    == [kind |-> "vec", cap |-> c, data |-> d, strong |-> 0, ext |-> 0]
ArcObj(d, s, e) == [kind |-> "arc", cap |-> Len(d), data |-> d, strong |-> s, ext |-> e]
   \* ext = 1 while the caller still holds its own Arc clone of this allocation

Kind(c) == IF c.cap = MAXC THEN "S" ELSE IF c.cap = 0 THEN "B" ELSE "O"      \* Metadata::kind

Objs == 1..MaxObj
HasRoom(h) == \E a \in Objs : h[a].kind = "free"
FreshId(h) == CHOOSE a \in Objs : h[a].kind = "free" /\ \A b \in 1..(a-1) : h[b].kind # "free"

\* ---- memory accesses ----
\* slice_from_raw_parts(ptr, len) followed by a read of the n elements
Readable(h, p, n) ==
  CASE p.k = "static"   -> n <= Len(p.v)
    [] p.k = "heap"     -> h[p.a].kind # "free" /\ n <= Len(h[p.a].data)
    [] p.k = "dangling" -> n = 0
    [] OTHER            -> FALSE
Read(h, p, n) ==
  IF ~Readable(h, p, n) THEN <<-1>>                       \* garbage
  ELSE CASE p.k = "static" -> SubSeq(p.v, 1, n)
         [] p.k = "heap"   -> SubSeq(h[p.a].data, 1, n)
         [] OTHER          -> <<>>

\* <[T]>::to_vec / str::to_owned / ToString: exact-capacity copy; an empty copy does not allocate
ToOwned(h, content) ==
  IF content = <<>> THEN [h |-> h, ptr |-> Dangling, cap |-> 0]
  ELSE LET a == FreshId(h) IN
       [h |-> [h EXCEPT ![a] = VecObj(Len(content), content)], ptr |-> HeapPtr(a), cap |-> Len(content)]

\* copy whose capacity is at least mincap (when it allocates at all)
ToOwnedMin(h, content, mincap) ==
  IF content = <<>> THEN [h |-> h, ptr |-> Dangling, cap |-> 0]
  ELSE LET a == FreshId(h)
           c == IF Len(content) < mincap THEN mincap ELSE Len(content) IN
       [h |-> [h EXCEPT ![a] = VecObj(c, content)], ptr |-> HeapPtr(a), cap |-> c]

\* drop(Vec::from_raw_parts(ptr, len, cap)): drops `len` elements, deallocates a buffer of `cap` elements
DropVec(h, p, n, c) ==
  IF c = 0 THEN [h |-> h, drops |-> 0, bad |-> IF n = 0 THEN "none" ELSE "drop_dangling_elems"]
  ELSE IF p.k # "heap" THEN [h |-> h, drops |-> 0, bad |-> "free_non_heap"]
  ELSE IF h[p.a].kind # "vec" THEN [h |-> h, drops |-> 0, bad |-> "free_non_live"]
  ELSE [h |-> [h EXCEPT ![p.a] = FreeObj], drops |-> n,
        bad |-> IF h[p.a].cap # c THEN "free_wrong_capacity"
                ELSE IF Len(h[p.a].data) # n THEN "drop_wrong_len" ELSE "none"]

\* drop(Arc::from_raw(ptr)): strong -= 1; the last reference drops the elements and frees the ArcInner
DropArc(h, p) ==
  IF p.k # "heap" THEN [h |-> h, drops |-> 0, bad |-> "arc_non_heap"]
  ELSE IF h[p.a].kind # "arc" \/ h[p.a].strong = 0 THEN [h |-> h, drops |-> 0, bad |-> "arc_dec_dead"]
  ELSE IF h[p.a].strong = 1 THEN [h |-> [h EXCEPT ![p.a] = FreeObj], drops |-> Len(h[p.a].data), bad |-> "none"]
  ELSE [h |-> [h EXCEPT ![p.a].strong = @ - 1], drops |-> 0, bad |-> "none"]

\* Cowable::drop_from_parts (cow.rs:556-574, 669-687)
DropParts(h, c) ==
  CASE Kind(c) = "B" -> [h |-> h, drops |-> 0, bad |-> "none"]
    [] Kind(c) = "O" -> DropVec(h, c.ptr, IF Bug = "drop_len0" THEN 0 ELSE c.len, c.cap)
    [] Kind(c) = "S" -> DropArc(h, c.ptr)

Err(e, bad) == IF e # "none" THEN e ELSE bad
First(b1, b2) == IF b1 # "none" THEN b1 ELSE b2
Tick == /\ (MaxOps = 0 \/ nops < MaxOps)
        /\ nops' = IF MaxOps = 0 THEN 0 ELSE nops + 1

Init ==
  /\ slots = [i \in 1..NSlots |-> NoVal]
  /\ owned = [j \in 1..NOwned |-> NoVal]
  /\ heap = [a \in Objs |-> FreeObj]
  /\ elive = 0 /\ dcl = 0 /\ ddr = 0 /\ err = "none" /\ nops = 0
  /\ fmtcap \in FmtCaps

(***************************************************************************)
(* Constructors                                                            *)
(***************************************************************************)
\* Cow::from_borrowed / const_str / const_slice / From<&'a T> / From<std Cow::Borrowed> / Default
NewBorrowed(i, t, content) ==
  /\ ~slots[i].full /\ Tick
  /\ slots' = [slots EXCEPT ![i] = Val(StaticPtr(content), Len(content), 0, content, t)]
  /\ dcl' = 0 /\ ddr' = 0
  /\ UNCHANGED <<owned, heap, elive, err>>

\* Cow::from_owned(v) / From<String> / From<Vec<T>> / From<std Cow::Owned>, where the caller built a
\* Vec/String of `cap` capacity holding `content`.  owned_into_parts keeps (ptr, len, capacity).
NewOwned(i, t, content, cap) ==
  /\ ~slots[i].full /\ Tick
  /\ cap >= Len(content) /\ (cap > 0 => HasRoom(heap))
  /\ LET a == FreshId(heap)
         p == IF cap = 0 THEN Dangling ELSE HeapPtr(a) IN
     /\ heap' = IF cap = 0 THEN heap ELSE [heap EXCEPT ![a] = VecObj(cap, content)]
     /\ slots' = [slots EXCEPT ![i] = Val(p, Len(content), cap, content, t)]
  /\ elive' = elive + Len(content)
  /\ dcl' = 0 /\ ddr' = 0
  /\ UNCHANGED <<owned, err>>

\* Cow::from_shared(arc) / From<Arc<T>>; the caller keeps one Arc clone of its own (ext = 1)
NewShared(i, t, content) ==
  /\ AllowShared /\ ~slots[i].full /\ Tick /\ HasRoom(heap)
  /\ LET a == FreshId(heap) IN
     /\ heap' = [heap EXCEPT ![a] = ArcObj(content, 2, 1)]
     /\ slots' = [slots EXCEPT ![i] = Val(HeapPtr(a), Len(content), MAXC, content, t)]
  /\ elive' = elive + Len(content)
  /\ dcl' = 0 /\ ddr' = 0
  /\ UNCHANGED <<owned, err>>

\* Cow::from_shared(holder.clone()): a second cow made from the caller's Arc
ShareAgain(i, t, a) ==
  /\ AllowShared /\ ~slots[i].full /\ Tick
  /\ heap[a].kind = "arc" /\ heap[a].ext = 1
  /\ heap' = [heap EXCEPT ![a].strong = @ + 1]
  /\ slots' = [slots EXCEPT ![i] = Val(HeapPtr(a), Len(heap[a].data), MAXC, heap[a].data, t)]
  /\ dcl' = 0 /\ ddr' = 0
  /\ UNCHANGED <<owned, elive, err>>

\* the caller drops its own Arc clone
DropHolder(a) ==
  /\ heap[a].kind = "arc" /\ heap[a].ext = 1 /\ Tick
  /\ LET r == DropArc([heap EXCEPT ![a].ext = 0], HeapPtr(a)) IN
     /\ heap' = r.h /\ ddr' = r.drops /\ elive' = elive - r.drops /\ err' = Err(err, r.bad)
  /\ dcl' = 0
  /\ UNCHANGED <<slots, owned>>

(***************************************************************************)
(* Clone  (Cowable::clone_from_parts, cow.rs:538-554, 648-667, 690-704)    *)
(***************************************************************************)
Clone(i, j) ==
  /\ slots[i].full /\ ~slots[j].full /\ Tick
  /\ LET c == slots[i] IN
     CASE Kind(c) = "B" ->                       \* (ptr, *metadata)
            /\ slots' = [slots EXCEPT ![j] = c]
            /\ dcl' = 0 /\ UNCHANGED <<heap, elive, err>>
       [] Kind(c) = "O" ->                       \* to_vec()/to_string() then owned_into_parts
            /\ HasRoom(heap)
            /\ LET content == Read(heap, c.ptr, c.len)
                   r == ToOwned(heap, content) IN
               /\ heap' = r.h
               /\ slots' = [slots EXCEPT ![j] = Val(r.ptr, Len(content), r.cap, c.src, c.thr)]
               /\ dcl' = Len(content) /\ elive' = elive + Len(content)
               /\ err' = Err(err, IF Readable(heap, c.ptr, c.len) THEN "none" ELSE "read_dangling")
       [] Kind(c) = "S" ->                       \* Arc::increment_strong_count
            /\ LET ok == c.ptr.k = "heap" /\ heap[c.ptr.a].kind = "arc" /\ heap[c.ptr.a].strong > 0 IN
               /\ heap' = IF ok /\ Bug # "cl_noinc" THEN [heap EXCEPT ![c.ptr.a].strong = @ + 1] ELSE heap
               /\ err' = Err(err, IF ok THEN "none" ELSE "arc_inc_dead")
            /\ slots' = [slots EXCEPT ![j] = c]
            /\ dcl' = 0 /\ UNCHANGED elive
  /\ ddr' = 0
  /\ UNCHANGED owned

(***************************************************************************)
(* into_owned  (ManuallyDrop::new(self); Cowable::owned_from_parts,        *)
(* cow.rs:172-180, 510-536, 618-646).  The cow is consumed WITHOUT running *)
(* its Drop.                                                               *)
(***************************************************************************)
IntoOwned(i, j) ==
  /\ slots[i].full /\ ~owned[j].full /\ Tick
  /\ LET c == slots[i]
         content == Read(heap, c.ptr, c.len)
         rdbad == IF Readable(heap, c.ptr, c.len) THEN "none" ELSE "read_dangling"
         \* effect of owned_from_parts: [h, val, clones, drops, bad]
         eff ==
           CASE Kind(c) = "B" ->                 \* s.to_owned() / data.to_vec()
                  LET r == ToOwned(heap, content) IN
                  [h |-> r.h, val |-> Val(r.ptr, Len(content), r.cap, c.src, 0),
                   clones |-> Len(content), drops |-> 0, bad |-> rdbad]
             [] Kind(c) = "O" ->                 \* Vec::from_raw_parts(ptr, len, capacity)
                  [h |-> heap, val |-> Val(c.ptr, c.len, c.cap, c.src, 0), clones |-> 0, drops |-> 0, bad |-> "none"]
             [] Kind(c) = "S" ->                 \* Arc::from_raw; to_vec()/to_string(); the Arc is dropped
                  LET r == ToOwnedMin(heap, content, fmtcap)
                      d == DropArc(r.h, c.ptr) IN
                  [h |-> d.h, val |-> Val(r.ptr, Len(content), r.cap, c.src, 0),
                   clones |-> Len(content), drops |-> d.drops, bad |-> First(rdbad, d.bad)]
         \* a missing ManuallyDrop would run Drop for the consumed cow as well
         fin == IF Bug = "io_drop"
                THEN LET d2 == DropParts(eff.h, c) IN
                     [h |-> d2.h, drops |-> eff.drops + d2.drops, bad |-> First(eff.bad, d2.bad)]
                ELSE [h |-> eff.h, drops |-> eff.drops, bad |-> eff.bad] IN
     /\ (Kind(c) # "O" => HasRoom(heap))
     /\ heap' = fin.h
     /\ owned' = [owned EXCEPT ![j] = eff.val]
     /\ slots' = [slots EXCEPT ![i] = NoVal]
     /\ dcl' = eff.clones /\ ddr' = fin.drops /\ elive' = elive + eff.clones - fin.drops
     /\ err' = Err(err, fin.bad)

(***************************************************************************)
(* Drop  (Cowable::drop_from_parts)                                        *)
(***************************************************************************)
DropCow(i) ==
  /\ slots[i].full /\ Tick
  /\ LET r == DropParts(heap, slots[i]) IN
     /\ heap' = r.h /\ ddr' = r.drops /\ elive' = elive - r.drops /\ err' = Err(err, r.bad)
  /\ slots' = [slots EXCEPT ![i] = NoVal]
  /\ dcl' = 0
  /\ UNCHANGED owned

\* the caller drops a Vec/String it got from into_owned (std's Drop for Vec)
DropOwned(j) ==
  /\ owned[j].full /\ Tick
  /\ LET o == owned[j]
         r == DropVec(heap, o.ptr, o.len, o.cap) IN
     /\ heap' = r.h /\ ddr' = r.drops /\ elive' = elive - r.drops /\ err' = Err(err, r.bad)
  /\ owned' = [owned EXCEPT ![j] = NoVal]
  /\ dcl' = 0
  /\ UNCHANGED slots

\* Cow::from_owned(v) with a value that came out of into_owned (round trip)
FromOwned(j, i, t) ==
  /\ owned[j].full /\ ~slots[i].full /\ Tick
  /\ LET o == owned[j] IN
     slots' = [slots EXCEPT ![i] = Val(o.ptr, o.len, o.cap, o.src, t)]
  /\ owned' = [owned EXCEPT ![j] = NoVal]
  /\ dcl' = 0 /\ ddr' = 0
  /\ UNCHANGED <<heap, elive, err>>

\* Cow: Send -- the cow is moved to another thread; later operations on it run there
MoveToThread(i, t) ==
  /\ slots[i].full /\ slots[i].thr # t /\ Tick
  /\ slots' = [slots EXCEPT ![i].thr = t]
  /\ dcl' = 0 /\ ddr' = 0
  /\ UNCHANGED <<owned, heap, elive, err>>

\* Deref / AsRef / Borrow / Hash / Display: read len elements through the pointer
Peek(i) ==
  /\ slots[i].full
  /\ err' = Err(err, IF Readable(heap, slots[i].ptr, slots[i].len) THEN "none" ELSE "read_dangling")
  /\ dcl' = 0 /\ ddr' = 0
  /\ UNCHANGED <<slots, owned, heap, elive, nops>>

\* PartialEq / PartialOrd / Ord: deref both sides
Peek2(i, j) ==
  /\ slots[i].full /\ slots[j].full
  /\ err' = Err(err, IF Readable(heap, slots[i].ptr, slots[i].len) /\ Readable(heap, slots[j].ptr, slots[j].len)
                     THEN "none" ELSE "read_dangling")
  /\ dcl' = 0 /\ ddr' = 0
  /\ UNCHANGED <<slots, owned, heap, elive, nops>>

(***************************************************************************)
(* Next-state relation of the exhaustive model.  New values always go to   *)
(* the first free slot (slot numbers carry no meaning).                    *)
(***************************************************************************)
HasFree(f) == \E i \in DOMAIN f : ~f[i].full
FirstFree(f) == CHOOSE i \in DOMAIN f : ~f[i].full /\ \A k \in 1..(i-1) : f[k].full
Iota(base, n) == [x \in 1..n |-> base + x]
NArcs == Cardinality({a \in Objs : heap[a].kind = "arc"})

F == UNCHANGED fmtcap
ANewBorrowed  == F /\ \E n \in Lens : HasFree(slots) /\ NewBorrowed(FirstFree(slots), 0, Iota(120, n))
ANewOwned     == F /\ \E n \in Lens, c \in Caps : HasFree(slots) /\ n <= c /\ NewOwned(FirstFree(slots), 0, Iota(0, n), c)
ANewShared    == F /\ \E n \in Lens : HasFree(slots) /\ NArcs < MaxArcs /\ NewShared(FirstFree(slots), 0, Iota(50, n))
AShareAgain   == F /\ \E a \in Objs : HasFree(slots) /\ ShareAgain(FirstFree(slots), 0, a)
ADropHolder   == F /\ \E a \in Objs : DropHolder(a)
AClone        == F /\ \E i \in 1..NSlots : HasFree(slots) /\ Clone(i, FirstFree(slots))
AIntoOwned    == F /\ \E i \in 1..NSlots : HasFree(owned) /\ IntoOwned(i, FirstFree(owned))
ADropCow      == F /\ \E i \in 1..NSlots : DropCow(i)
ADropOwned    == F /\ \E j \in 1..NOwned : DropOwned(j)
AFromOwned    == F /\ \E j \in 1..NOwned : HasFree(slots) /\ FromOwned(j, FirstFree(slots), 0)
AMoveToThread == F /\ \E i \in 1..NSlots, t \in Threads : MoveToThread(i, t)
APeek         == F /\ \E i \in 1..NSlots : Peek(i)
APeek2        == F /\ \E i, j \in 1..NSlots : Peek2(i, j)

Next == \/ ANewBorrowed \/ ANewOwned \/ ANewShared \/ AShareAgain \/ ADropHolder \/ AClone \/ AIntoOwned
        \/ ADropCow \/ ADropOwned \/ AFromOwned \/ AMoveToThread \/ APeek \/ APeek2

Spec == Init /\ [][Next]_vars

(***************************************************************************)
(* VIEW of the exhaustive runs.  dcl / ddr are outputs of the last action  *)
(* (read by no guard and no property) and are hidden.  Heap object ids are *)
(* names without meaning (no action or property depends on which id an     *)
(* object has): a pointer is replaced by the object it points to plus the  *)
(* lowest slot that points to the same object (which cows share one Arc),  *)
(* objects that no slot points to (Arcs only the caller still holds) are   *)
(* kept as a bag.  Two states with the same view differ only by a renaming *)
(* of heap ids.                                                            *)
(***************************************************************************)
RefsTo(a) == {i \in 1..NSlots : slots[i].full /\ slots[i].ptr = HeapPtr(a)}
MinOf(S) == CHOOSE x \in S : \A y \in S : x <= y
CanonCow(c) ==
  IF c.full /\ c.ptr.k = "heap"
  THEN [full |-> TRUE, ptr |-> <<"heap", MinOf(RefsTo(c.ptr.a)), heap[c.ptr.a]>>, len |-> c.len, cap |-> c.cap, src |-> c.src, thr |-> c.thr]
  ELSE [full |-> c.full, ptr |-> <<c.ptr.k, 0, c.ptr.v>>, len |-> c.len, cap |-> c.cap, src |-> c.src, thr |-> c.thr]
CanonOwned(o) ==
  IF o.full /\ o.ptr.k = "heap"
  THEN [full |-> TRUE, ptr |-> <<"heap", 0, heap[o.ptr.a]>>, len |-> o.len, cap |-> o.cap, src |-> o.src]
  ELSE [full |-> o.full, ptr |-> <<o.ptr.k, 0, o.ptr.v>>, len |-> o.len, cap |-> o.cap, src |-> o.src]
Unref == {a \in Objs : heap[a].kind # "free" /\ RefsTo(a) = {}
                        /\ \A j \in 1..NOwned : ~(owned[j].full /\ owned[j].ptr = HeapPtr(a))}
UnrefBag == [o \in {heap[a] : a \in Unref} |-> Cardinality({a \in Unref : heap[a] = o})]
View == <<[i \in 1..NSlots |-> CanonCow(slots[i])], [j \in 1..NOwned |-> CanonOwned(owned[j])],
          UnrefBag, elive, err, nops, fmtcap>>

(***************************************************************************)
(* Properties                                                              *)
(***************************************************************************)
Cows == {i \in 1..NSlots : slots[i].full}
Owns == {j \in 1..NOwned : owned[j].full}

TypeOK ==
  /\ \A i \in 1..NSlots : slots[i].len \in Nat /\ slots[i].cap \in Nat \cup {MAXC} /\ slots[i].thr \in Threads
  /\ \A j \in 1..NOwned : owned[j].len \in Nat /\ owned[j].cap \in Nat
  /\ \A a \in Objs : heap[a].kind \in {"free", "vec", "arc"} /\ heap[a].strong \in Nat /\ heap[a].ext \in {0, 1}
  /\ elive \in Nat /\ dcl \in Nat /\ ddr \in Nat

\* no double free, no free with a wrong layout, no decrement of a dead Arc, no read through a dangling pointer
NoUB == err = "none"

\* every pointer held by a cow / returned value is valid for what its kind says it is
WellFormed ==
  /\ \A i \in Cows :
       LET c == slots[i] IN
       CASE Kind(c) = "B" -> \/ c.ptr.k = "static" /\ c.len = Len(c.ptr.v)
                             \/ c.ptr.k = "dangling" /\ c.len = 0
         [] Kind(c) = "O" -> /\ c.ptr.k = "heap" /\ heap[c.ptr.a].kind = "vec"
                             /\ heap[c.ptr.a].cap = c.cap /\ Len(heap[c.ptr.a].data) = c.len
         [] Kind(c) = "S" -> /\ c.ptr.k = "heap" /\ heap[c.ptr.a].kind = "arc"
                             /\ Len(heap[c.ptr.a].data) = c.len /\ heap[c.ptr.a].strong >= 1
  /\ \A j \in Owns :
       LET o == owned[j] IN
       IF o.cap = 0 THEN o.ptr.k = "dangling" /\ o.len = 0
       ELSE /\ o.ptr.k = "heap" /\ heap[o.ptr.a].kind = "vec"
            /\ heap[o.ptr.a].cap = o.cap /\ Len(heap[o.ptr.a].data) = o.len

\* every Arc reference taken is given back exactly once: the count is exactly the holders that exist
RefCountExact ==
  \A a \in Objs : heap[a].kind = "arc" =>
     heap[a].strong = heap[a].ext + Cardinality({i \in Cows : Kind(slots[i]) = "S" /\ slots[i].ptr = HeapPtr(a)})

\* every live buffer has exactly one owner (no leak, no aliasing that would end in a double free)
UniqueOwner ==
  \A a \in Objs : heap[a].kind = "vec" =>
     Cardinality({i \in Cows : Kind(slots[i]) = "O" /\ slots[i].ptr = HeapPtr(a)})
       + Cardinality({j \in Owns : owned[j].ptr = HeapPtr(a)}) = 1

\* content read through any cow / returned value equals what it was built from
ContentOK ==
  /\ \A i \in Cows : Readable(heap, slots[i].ptr, slots[i].len) /\ Read(heap, slots[i].ptr, slots[i].len) = slots[i].src
  /\ \A j \in Owns : Readable(heap, owned[j].ptr, owned[j].len) /\ Read(heap, owned[j].ptr, owned[j].len) = owned[j].src

RECURSIVE SumLen(_)
SumLen(n) == IF n = 0 THEN 0 ELSE Len(heap[n].data) + SumLen(n - 1)
\* every element created or cloned is dropped exactly once
ElemBalance == elive = SumLen(MaxObj)

\* when all cows and all returned values are gone, everything the library allocated or was handed is
\* freed and each Arc is back to its external holder
AllReleased ==
  (Cows = {} /\ Owns = {}) =>
     \A a \in Objs : heap[a].kind = "free" \/ (heap[a].kind = "arc" /\ heap[a].ext = 1 /\ heap[a].strong = 1)

\* MaxObj never binds in the exhaustive configurations
BoundOK == Cardinality({a \in Objs : heap[a].kind # "free"}) < MaxObj
=============================================================================
