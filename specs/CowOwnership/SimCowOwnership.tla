-------------------------- MODULE SimCowOwnership --------------------------
(* Spec -> implementation: operation sequences of CowOwnership.tla printed   *)
(* as one REPLAY line each.  harness/src/bin/c14.rs executes every program   *)
(* on the real metrics::Cow and logs what it observes after each call; the   *)
(* log is then validated by TraceCowOwnership.  Used in two ways:            *)
(*   - breadth-first with a small ProgLen: EVERY program of that length      *)
(*   - `-simulate`: random longer programs                                   *)
EXTENDS CowOwnership, Json
CONSTANTS ProgLen,   \* length of the programs emitted
          SimDom,    \* "str" | "slice" | "key": the domain the harness instantiates
          AnySlot,   \* TRUE: new values may go to any free slot, FALSE: to the first free one
          HasCmp,    \* eq / cmp / hash are part of the domain's API
          NewThreads,\* threads on which values are constructed (a subset of Threads)
          PickKind   \* TRUE (for -simulate): first draw the kind of operation (weighted), then its arguments,
                     \* so that the mix of operations does not depend on how many argument combinations a
                     \* kind has; FALSE (breadth-first): every operation
VARIABLES prog,      \* operations so far
          arcIdx,    \* harness numbering of Arcs (order of creation) -> heap id, 0 = holder dropped
          pick,      \* the kind of operation drawn for the next step (PickKind), <<"none", 0>> otherwise
          done       \* set by a final no-op step (in -simulate mode TLC evaluates invariants on every
                     \* successor it generates: only the behaviour actually chosen gets this step)

K == Len(prog)
Mk(n) == [x \in 1..n |-> (K % 12) * 10 + x]           \* contents differ from step to step
Via(i) == (K * 7 + i * 3) % 60                         \* which of the equivalent constructors / accessors
Op(op, i, j, t, a, c, v) == [op |-> op, i |-> i, j |-> j, t |-> t, a |-> a, c |-> c, v |-> v, via |-> Via(i)]
Log(o) == prog' = Append(prog, o)
FreeIn(f) == IF AnySlot THEN {i \in DOMAIN f : ~f[i].full}
             ELSE IF HasFree(f) THEN {FirstFree(f)} ELSE {}
KeepA == UNCHANGED arcIdx

NoPick == <<"none", 0>>
Holders == {k \in DOMAIN arcIdx : arcIdx[k] # 0}
Weights == [nb |-> 2, no |-> 3, ns |-> 3, sa |-> 2, dh |-> 1, cl |-> 3, io |-> 3, dc |-> 2, do |-> 1, fo |-> 2,
            mt |-> 1, rd |-> 1, hash |-> 1, eq |-> 1, cmp |-> 1]
Possible(k) ==
  CASE k \in {"nb", "no"}        -> HasFree(slots)
    [] k = "ns"                  -> HasFree(slots) /\ AllowShared /\ NArcs < MaxArcs
    [] k = "sa"                  -> HasFree(slots) /\ AllowShared /\ Holders # {}
    [] k = "dh"                  -> Holders # {}
    [] k = "cl"                  -> Cows # {} /\ HasFree(slots)
    [] k = "io"                  -> Cows # {} /\ HasFree(owned)
    [] k \in {"dc", "rd"}        -> Cows # {}
    [] k = "mt"                  -> Cows # {} /\ Cardinality(Threads) > 1
    [] k \in {"hash", "eq", "cmp"} -> HasCmp /\ Cows # {}
    [] k = "do"                  -> Owns # {}
    [] k = "fo"                  -> Owns # {} /\ HasFree(slots)
Tickets == {<<k, w>> : k \in {kk \in DOMAIN Weights : Possible(kk)}, w \in 1..3} \cap
           {<<k, w>> \in (DOMAIN Weights) \X (1..3) : w <= Weights[k]}

SimInit == Init /\ prog = <<>> /\ arcIdx = <<>> /\ done = FALSE /\ pick = NoPick
Sel(k) == ~PickKind \/ pick[1] = k
SimOps ==
  \/ \E i \in FreeIn(slots), t \in NewThreads, n \in Lens :
        Sel("nb") /\ NewBorrowed(i, t, Mk(n)) /\ Log(Op("nb", i, 0, t, 0, 0, Mk(n))) /\ KeepA
  \/ \E i \in FreeIn(slots), t \in NewThreads, n \in Lens, c \in Caps :
        Sel("no") /\ n <= c /\ NewOwned(i, t, Mk(n), c) /\ Log(Op("no", i, 0, t, 0, c, Mk(n))) /\ KeepA
  \/ \E i \in FreeIn(slots), t \in NewThreads, n \in Lens :
        /\ Sel("ns") /\ NArcs < MaxArcs /\ NewShared(i, t, Mk(n)) /\ Log(Op("ns", i, 0, t, 0, 0, Mk(n)))
        /\ arcIdx' = Append(arcIdx, FreshId(heap))
  \/ \E i \in FreeIn(slots), t \in NewThreads, k \in DOMAIN arcIdx :
        Sel("sa") /\ arcIdx[k] # 0 /\ ShareAgain(i, t, arcIdx[k]) /\ Log(Op("sa", i, 0, t, k, 0, <<>>)) /\ KeepA
  \/ \E k \in DOMAIN arcIdx :
        /\ Sel("dh") /\ arcIdx[k] # 0 /\ DropHolder(arcIdx[k]) /\ Log(Op("dh", 0, 0, 0, k, 0, <<>>))
        /\ arcIdx' = [arcIdx EXCEPT ![k] = 0]
  \/ \E i \in 1..NSlots, j \in FreeIn(slots) :
        Sel("cl") /\ Clone(i, j) /\ Log(Op("cl", i, j, slots[i].thr, 0, 0, <<>>)) /\ KeepA
  \/ \E i \in 1..NSlots, j \in FreeIn(owned) :
        Sel("io") /\ IntoOwned(i, j) /\ Log(Op("io", i, j, slots[i].thr, 0, 0, <<>>)) /\ KeepA
  \/ \E i \in 1..NSlots : Sel("dc") /\ DropCow(i) /\ Log(Op("dc", i, 0, slots[i].thr, 0, 0, <<>>)) /\ KeepA
  \/ \E j \in 1..NOwned : Sel("do") /\ DropOwned(j) /\ Log(Op("do", 0, j, 0, 0, 0, <<>>)) /\ KeepA
  \/ \E j \in 1..NOwned, i \in FreeIn(slots), t \in NewThreads :
        Sel("fo") /\ FromOwned(j, i, t) /\ Log(Op("fo", i, j, t, 0, 0, <<>>)) /\ KeepA
  \/ \E i \in 1..NSlots, t \in Threads : Sel("mt") /\ MoveToThread(i, t) /\ Log(Op("mt", i, 0, t, 0, 0, <<>>)) /\ KeepA
  \/ \E i \in 1..NSlots : Sel("rd") /\ Peek(i) /\ Log(Op("rd", i, 0, slots[i].thr, 0, 0, <<>>)) /\ KeepA
  \/ \E i \in 1..NSlots : Sel("hash") /\ HasCmp /\ Peek(i) /\ Log(Op("hash", i, 0, slots[i].thr, 0, 0, <<>>)) /\ KeepA
  \/ \E i, j \in 1..NSlots : Sel("eq") /\ HasCmp /\ Peek2(i, j) /\ Log(Op("eq", i, j, slots[i].thr, 0, 0, <<>>)) /\ KeepA
  \/ \E i, j \in 1..NSlots : Sel("cmp") /\ HasCmp /\ Peek2(i, j) /\ Log(Op("cmp", i, j, slots[i].thr, 0, 0, <<>>)) /\ KeepA
SimNext == \/ PickKind /\ K < ProgLen /\ pick = NoPick /\ pick' \in Tickets /\ UNCHANGED <<vars, prog, arcIdx, done>>
           \/ K < ProgLen /\ (PickKind => pick # NoPick) /\ SimOps /\ pick' = NoPick /\ UNCHANGED <<fmtcap, done>>
           \/ K = ProgLen /\ ~done /\ done' = TRUE /\ UNCHANGED <<vars, prog, arcIdx, pick>>
SimSpec == SimInit /\ [][SimNext]_<<vars, prog, arcIdx, done, pick>>
Emit == done => PrintT(<<"REPLAY", ToJson([dom |-> SimDom, src |-> "tlc", ops |-> prog])>>)
=============================================================================
