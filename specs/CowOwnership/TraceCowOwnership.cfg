SPECIFICATION TraceSpec
CONSTANTS
 NSlots = 4
 NOwned = 2
 MaxObj = 16
 MaxArcs = 99
 Lens = {}
 Caps = {}
 Threads = {0,1}
 AllowShared = TRUE
 MaxOps = 0
 FmtCaps = {0}
 Bug = "none"
INVARIANTS TypeOK NoUB WellFormed RefCountExact UniqueOwner ContentOK ElemBalance AllReleased BoundOK
POSTCONDITION TraceAccepted
CHECK_DEADLOCK FALSE
