------------------------- MODULE SimDebugSnapshot -------------------------
(* Spec -> implementation: complete histories of DebugSnapshot.tla (the list *)
(* of calls, each snapshot with the content the specification computes for   *)
(* it), printed as one REPLAY line each.  The harness executes the calls on  *)
(* real DebuggingRecorders, compares every snapshot with the expected        *)
(* content, and the recorded run is validated again by TraceDebugSnapshot.   *)
(* Used with -simulate (random long histories; Enumerate = FALSE) and in     *)
(* breadth-first mode (all histories of MaxOps calls; Enumerate = TRUE).     *)
(*                                                                           *)
(* The history variable also allows the property to be stated a third way,   *)
(* declaratively over the list of calls (HistoryExact).                      *)
EXTENDS DebugSnapshot, Json, SequencesExt, FiniteSetsExt
CONSTANT Enumerate
VARIABLE hist
svars == <<vars, hist>>

BagToSeq(b) == LET vs == SetToSortSeq(DOMAIN b, <) IN [i \in 1..Len(vs) |-> <<vs[i], b[vs[i]]>>]
SnapJson(sn) == [i \in 1..Len(sn) |-> [sn[i] EXCEPT !.hv = BagToSeq(@)]]

Log(e) == hist' = Append(hist, e)

SDescribe(r) == \E k \in Kinds, n \in Names, u \in Units \cup {0}, d \in Descs :
                  Describe(r, k, n, u, d) /\ Log([ev |-> "describe", r |-> r, k |-> k, n |-> n, u |-> u, d |-> d])
SRegister(r) == \E m \in Metric :
                  Register(r, m) /\ Log([ev |-> "register", r |-> r, k |-> m[1], n |-> m[2], l |-> m[3]])
SUpdate(r)   == \E m \in Metric :
                  \/ \E o \in COps : CounterOp(r, m, o)
                        /\ Log([ev |-> "update", r |-> r, k |-> m[1], n |-> m[2], l |-> m[3], op |-> o[1], v |-> o[2], c |-> 1])
                  \/ \E o \in GOps : GaugeOp(r, m, o)
                        /\ Log([ev |-> "update", r |-> r, k |-> m[1], n |-> m[2], l |-> m[3], op |-> o[1], v |-> o[2], c |-> 1])
                  \/ \E o \in HOps : HistRecord(r, m, o)
                        /\ Log([ev |-> "update", r |-> r, k |-> m[1], n |-> m[2], l |-> m[3], op |-> "rec", v |-> o[2], c |-> o[3]])
SSnapshot(r) == Snapshot(r) /\ Log([ev |-> "snapshot", r |-> r, snap |-> SnapJson(SnapOf(st[r]))])

Classes == {"describe", "register", "update", "snapshot"}
\* -simulate picks uniformly among successor states, which would make snapshots rare:
\* choose the kind of call first
Weighted == <<"describe", "describe", "register", "register", "register", "update", "update", "update", "update", "snapshot", "snapshot">>
Pick(n) == IF Enumerate THEN Classes
           ELSE {Weighted[RandomElement(1..(Len(Weighted) + 0 * n))]}   \* depends on the state: evaluated at every step

SimNext ==
  /\ UNCHANGED nops
  /\ \E r \in Recs :
    IF Len(hist) < MaxOps - 1
    THEN \E c \in Pick(Len(hist)) :
           \/ c = "describe" /\ SDescribe(r)
           \/ c = "register" /\ SRegister(r)
           \/ c = "update"   /\ (IF Registered(st[r]) = {} THEN SRegister(r) ELSE SUpdate(r))
           \/ c = "snapshot" /\ SSnapshot(r)
    ELSE Len(hist) = MaxOps - 1 /\ SSnapshot(r)       \* every history ends with a snapshot

SimInit == Init /\ hist = <<>>
SimSpec == SimInit /\ [][SimNext]_svars

Emit == (Len(hist) = MaxOps) =>
          PrintT(<<"REPLAY", ToJson([recs |-> Cardinality(Recs), w |-> W, ops |-> hist])>>)

----------------------------------------------------------------------------
(* The property over the list of calls.                                      *)
IdxOf(h, P(_)) == {i \in DOMAIN h : P(h[i])}
MOf(e) == <<e.k, e.n, e.l>>

ExpFromHist(h0, r) ==
  LET h == SelectSeq(h0, LAMBDA e : e.r = r)
      regs       == {i \in DOMAIN h : h[i].ev = "register"}
      everReg    == {MOf(h[i]) : i \in regs}
      first      == [m \in everReg |-> Min({i \in regs : MOf(h[i]) = m})]
      order      == SetToSortSeq(everReg, LAMBDA a, b : first[a] < first[b])
      lastSnap   == Max({0} \cup IdxOf(h, LAMBDA e : e.ev = "snapshot"))
      Given(kn)  == IdxOf(h, LAMBDA e : e.ev = "describe" /\ <<e.k, e.n>> = kn /\ e.u # 0)
      Descr(kn)  == IdxOf(h, LAMBDA e : e.ev = "describe" /\ <<e.k, e.n>> = kn)
      unit(kn)   == IF Given(kn) = {} THEN 0 ELSE h[Max(Given(kn))].u
      desc(kn)   == IF Descr(kn) = {} THEN 0 ELSE h[Max(Descr(kn))].d
      val(m)     == FoldLeft(LAMBDA acc, e : IF e.ev = "update" /\ MOf(e) = m THEN ApplyCG(W, acc, <<e.op, e.v>>) ELSE acc, 0, h)
      recs(m)    == FoldLeft(LAMBDA acc, i : IF i > lastSnap /\ h[i].ev = "update" /\ MOf(h[i]) = m
                                              THEN BagAdd(acc, h[i].v, h[i].c) ELSE acc,
                             EmptyBag, [i \in 1..Len(h) |-> i])
  IN [i \in 1..Len(order) |->
        LET m == order[i] IN
        [ k |-> m[1], n |-> m[2], l |-> m[3], u |-> unit(KNOf(m)), d |-> desc(KNOf(m)),
          v |-> IF KindOf(m) = "h" THEN 0 ELSE val(m),
          hv |-> IF KindOf(m) = "h" THEN recs(m) ELSE EmptyBag ]]

\* every snapshot call returned what the calls before it ask for.  (Evaluated at snapshot steps only:
\* the simulator evaluates invariants on all successors of every step.)
HistoryExact ==
  LET n == Len(hist) IN
  (n > 0 /\ hist[n].ev = "snapshot") =>
     hist[n].snap = SnapJson(ExpFromHist(SubSeq(hist, 1, n - 1), hist[n].r))
=============================================================================
