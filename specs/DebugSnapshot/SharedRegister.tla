--------------------------- MODULE SharedRegister ---------------------------
(***************************************************************************)
(* C19, concurrent use of ONE DebuggingRecorder: several threads register  *)
(* an equal key as counter, gauge and histogram at the same time, each     *)
(* updates the handle it was given once (increment(1), increment(1.0),     *)
(* record(tid)), and a snapshot must account for every update.             *)
(*                                                                         *)
(* register_<kind> (debugging.rs:195-214) is, per thread and kind k:       *)
(*   Track   seen.lock().insert((k,key))          IndexMap, keeps position *)
(*   Read    registry shard read guard: key present -> handle := storage   *)
(*           (registry/mod.rs get_or_create_*: fast path)                  *)
(*   Write   shard write guard (after the read guard was dropped):         *)
(*           Recheck = TRUE  the code: look the key up again, create the   *)
(*                           storage only if it is still absent            *)
(*           Recheck = FALSE variant without the second look-up: always    *)
(*                           insert a new storage (replaces an entry made  *)
(*                           in the gap) -- kept as a witness that the     *)
(*                           model tells the two apart                     *)
(* then Update through the handle (one atomic RMW / bucket push each).     *)
(* Storages are named by the <<thread, kind>> that created them.           *)
(* Only the key being raced matters, so the registry maps kind -> storage. *)
(***************************************************************************)
EXTENDS Integers, Sequences, FiniteSets, TLC

CONSTANTS Threads,   \* thread ids (positive integers; record(tid))
          Recheck    \* TRUE = the algorithm as coded

KindSeq == <<"c", "g", "h">>
KindSet == {"c", "g", "h"}
None == <<>>

VARIABLES seen,      \* Inner.seen restricted to the raced key: sequence of kinds
          reg,       \* registry: kind -> storage id or None
          stor,      \* storage id -> content (integer for c, g; set of recorded tids for h)
          hnd,       \* hnd[t][k]: handle thread t was given for kind k (storage id or None)
          pc,        \* pc[t] = <<phase, i>>: phase in track/read/write (registration i), upd (update i), done
          applied    \* ghost: kind -> updates performed so far (count for c, g; set of tids for h)
vars == <<seen, reg, stor, hnd, pc, applied>>

Init ==
  /\ seen = <<>>
  /\ reg = [k \in KindSet |-> None]
  /\ stor = <<>>
  /\ hnd = [t \in Threads |-> [k \in KindSet |-> None]]
  /\ pc = [t \in Threads |-> <<"track", 1>>]
  /\ applied = [k \in KindSet |-> IF k = "h" THEN {} ELSE 0]

AfterReg(i) == IF i < 3 THEN <<"track", i + 1>> ELSE <<"upd", 1>>
Fresh(k) == IF k = "h" THEN {} ELSE 0
InSeq(s, x) == \E j \in DOMAIN s : s[j] = x

Track(t) ==
  /\ pc[t][1] = "track"
  /\ LET k == KindSeq[pc[t][2]] IN seen' = IF InSeq(seen, k) THEN seen ELSE Append(seen, k)
  /\ pc' = [pc EXCEPT ![t] = <<"read", pc[t][2]>>]
  /\ UNCHANGED <<reg, stor, hnd, applied>>

Read(t) ==
  /\ pc[t][1] = "read"
  /\ LET i == pc[t][2]  k == KindSeq[i] IN
       IF reg[k] # None
       THEN /\ hnd' = [hnd EXCEPT ![t][k] = reg[k]]
            /\ pc' = [pc EXCEPT ![t] = AfterReg(i)]
       ELSE /\ pc' = [pc EXCEPT ![t] = <<"write", i>>]      \* read guard dropped: the gap
            /\ UNCHANGED hnd
  /\ UNCHANGED <<seen, reg, stor, applied>>

Write(t) ==
  /\ pc[t][1] = "write"
  /\ LET i == pc[t][2]  k == KindSeq[i]  id == <<t, k>> IN
       IF Recheck /\ reg[k] # None
       THEN /\ hnd' = [hnd EXCEPT ![t][k] = reg[k]]
            /\ UNCHANGED <<reg, stor>>
       ELSE /\ reg' = [reg EXCEPT ![k] = id]
            /\ stor' = [x \in DOMAIN stor \cup {id} |-> IF x = id THEN Fresh(k) ELSE stor[x]]
            /\ hnd' = [hnd EXCEPT ![t][k] = id]
  /\ pc' = [pc EXCEPT ![t] = AfterReg(pc[t][2])]
  /\ UNCHANGED <<seen, applied>>

Update(t) ==
  /\ pc[t][1] = "upd"
  /\ LET i == pc[t][2]  k == KindSeq[i]  id == hnd[t][k] IN
       /\ stor' = [stor EXCEPT ![id] = IF k = "h" THEN @ \cup {t} ELSE @ + 1]
       /\ applied' = [applied EXCEPT ![k] = IF k = "h" THEN @ \cup {t} ELSE @ + 1]
       /\ pc' = [pc EXCEPT ![t] = IF i < 3 THEN <<"upd", i + 1>> ELSE <<"done", 0>>]
  /\ UNCHANGED <<seen, reg, hnd>>

Next == \E t \in Threads : Track(t) \/ Read(t) \/ Write(t) \/ Update(t)
Spec == Init /\ [][Next]_vars

----------------------------------------------------------------------------
\* what Snapshotter::snapshot would list for the raced key now: per kind in `seen` order, the content of the
\* storage the registry holds (kinds without storage are skipped)
SnapNow == LET ks == SelectSeq(seen, LAMBDA k : reg[k] # None)
           IN [j \in 1..Len(ks) |-> <<ks[j], stor[reg[ks[j]]]>>]

\* every handle handed out is the storage the registry -- hence every snapshot -- reads
SameStorage == \A t \in Threads, k \in KindSet : hnd[t][k] # None => hnd[t][k] = reg[k]

\* a snapshot taken in any state shows every update performed so far (sum / sum / bag of values)
NoLostUpdate == \A j \in DOMAIN SnapNow : SnapNow[j][2] = applied[SnapNow[j][1]]
AllListed    == \A k \in KindSet : applied[k] # Fresh(k) => reg[k] # None /\ InSeq(seen, k)

\* at quiescence: counter = n, gauge = n, histogram = every tid once, listed in the order c, g, h
Quiescent == \A t \in Threads : pc[t][1] = "done"
QuiescentExact ==
  Quiescent => SnapNow = << <<"c", Cardinality(Threads)>>, <<"g", Cardinality(Threads)>>, <<"h", Threads>> >>
=============================================================================
