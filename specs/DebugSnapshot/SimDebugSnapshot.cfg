SPECIFICATION SimSpec
CONSTANTS
 Recs = {1}
 Kinds = {"c","g","h"}
 Names = {1,2}
 LSets = {0,2}
 Units = {1,2}
 Descs = {1,2}
 COps <- MC_COpsL
 GOps <- MC_GOpsL
 HOps <- MC_HOpsL
 W = 16
 MaxOps = 30
 Enumerate = FALSE
INVARIANTS HistoryExact SnapshotExact Emit
CHECK_DEADLOCK FALSE
