--------------------------- MODULE DebugSnapshot ---------------------------
(***************************************************************************)
(* C19 -- metrics-util DebuggingRecorder / Snapshotter                     *)
(* (metrics-util/src/debugging.rs, key.rs, registry/mod.rs).               *)
(*                                                                         *)
(* One record of state per recorder (each recorder is installed locally on *)
(* its own thread; an operation issued on thread r reaches recorder r).    *)
(* The *mechanism* fields mirror what the code keeps:                      *)
(*   seen  Inner.seen      IndexMap<CompositeKey,()>  insertion ordered    *)
(*   meta  Inner.metadata  IndexMap<(kind,name),(Option<Unit>,desc)>       *)
(*   cg    registry counters/gauges maps: (kind,key) -> AtomicU64 content  *)
(*   hs    registry histograms map: key -> bag of values in the bucket     *)
(* The *reference* (ghost) fields state what the property talks about,     *)
(* in a different form, updated by the same public calls:                  *)
(*   rank  metric -> number of distinct metrics registered before it       *)
(*   gunit / gdesc  (kind,name) -> most recent unit given / description    *)
(*   gval  metric -> value the counter / gauge operations amount to        *)
(*   since metric -> bag of values recorded since the previous snapshot    *)
(* The property is: what snapshot() would return (SnapOf, computed from    *)
(* the mechanism exactly as Snapshotter::snapshot does) equals the         *)
(* reference (ExpOf) in every reachable state, split into named clauses.   *)
(*                                                                         *)
(* Values: a metric is <<kind, name, labelset>>; kind is "c","g","h";      *)
(* names, label sets, units, descriptions are small integers (0 = None).   *)
(* Counter arithmetic is modulo w (u64 wrap-around: model x <-> x*2^64/w). *)
(* Gauge and histogram values are integers (integer valued f64: exact).    *)
(***************************************************************************)
EXTENDS Integers, Sequences, FiniteSets, TLC

CONSTANTS Recs,     \* recorder ids
          Kinds,    \* subset of {"c","g","h"}
          Names,    \* metric names
          LSets,    \* label-set ids (equal keys built differently have the same id)
          Units,    \* units (positive integers); 0 is None
          Descs,    \* descriptions (positive integers); 0 is "never described"
          COps,     \* counter operations  <<"inc", v>> / <<"abs", v>>
          GOps,     \* gauge operations    <<"ginc", v>> / <<"gdec", v>> / <<"gset", v>>
          HOps,     \* histogram operations <<"rec", v, count>>  (record / record_many)
          W,        \* counter modulus
          MaxOps    \* exhaustive runs: explore histories of at most MaxOps operations

VARIABLES st,       \* st[r]: state of recorder r (record, see InitRec)
          nops      \* number of calls so far (bounds the exhaustive runs; not used by the conformance specs)
vars == <<st, nops>>

Metric == Kinds \X Names \X LSets
KN     == Kinds \X Names
KindOf(m) == m[1]
KNOf(m)   == <<m[1], m[2]>>

EmptyBag == <<>>
BagAdd(b, v, c) == IF c = 0 THEN b
                   ELSE [x \in DOMAIN b \cup {v} |-> IF x = v THEN (IF v \in DOMAIN b THEN b[v] ELSE 0) + c ELSE b[x]]
Put(f, x, v) == [y \in DOMAIN f \cup {x} |-> IF y = x THEN v ELSE f[y]]
Range(s) == {s[i] : i \in DOMAIN s}
Larger(a, b) == IF a >= b THEN a ELSE b

InitRec(w) ==
  [ w     |-> w,
    seen  |-> <<>>,
    meta  |-> <<>>,
    cg    |-> <<>>,
    hs    |-> <<>>,
    rank  |-> <<>>,
    gunit |-> [x \in KN |-> 0],
    gdesc |-> [x \in KN |-> 0],
    gval  |-> <<>>,
    since |-> <<>> ]

Init == st = [r \in Recs |-> InitRec(W)] /\ nops = 0

----------------------------------------------------------------------------
(* describe_metric (debugging.rs:159-166):                                  *)
(*   let (uentry, dentry) = metadata.entry(rkey).or_insert((None, desc));   *)
(*   if unit.is_some() { *uentry = unit; }   *dentry = desc;                *)
DescribeF(s, k, n, u, d) ==
  LET kn == <<k, n>>
      e0 == IF kn \in DOMAIN s.meta THEN s.meta[kn] ELSE <<0, d>>
      e1 == IF u # 0 THEN <<u, e0[2]>> ELSE e0
      e2 == <<e1[1], d>>
  IN [s EXCEPT !.meta  = Put(@, kn, e2),
               !.gdesc = [@ EXCEPT ![kn] = d],
               !.gunit = [@ EXCEPT ![kn] = IF u # 0 THEN u ELSE @]]

(* register_* (debugging.rs:195-214): track_metric = IndexMap::insert (an   *)
(* existing key keeps its position), then registry.get_or_create_* (a new   *)
(* storage starts at 0 / empty, an existing one is returned unchanged).     *)
RegisterF(s, m) ==
  LET isH == KindOf(m) = "h" IN
  [s EXCEPT !.seen  = IF m \in Range(@) THEN @ ELSE Append(@, m),
            !.cg    = IF ~isH /\ m \notin DOMAIN @ THEN Put(@, m, 0) ELSE @,
            !.hs    = IF isH /\ m \notin DOMAIN @ THEN Put(@, m, EmptyBag) ELSE @,
            !.rank  = IF m \in DOMAIN @ THEN @ ELSE Put(@, m, Cardinality(DOMAIN @)),
            !.gval  = IF ~isH /\ m \notin DOMAIN @ THEN Put(@, m, 0) ELSE @,
            !.since = IF isH /\ m \notin DOMAIN @ THEN Put(@, m, EmptyBag) ELSE @]

Registered(s) == DOMAIN s.cg \cup DOMAIN s.hs

(* handle operations on the AtomicU64 storage (metrics/src/atomics.rs):      *)
(* increment = fetch_add (wrapping), absolute = fetch_max,                   *)
(* gauge increment/decrement = add/subtract, set = swap.                     *)
ApplyCG(w, cur, o) ==
  CASE o[1] = "inc"  -> (cur + o[2]) % w
    [] o[1] = "abs"  -> Larger(cur, o[2])
    [] o[1] = "ginc" -> cur + o[2]
    [] o[1] = "gdec" -> cur - o[2]
    [] o[1] = "gset" -> o[2]

UpdateCGF(s, m, o) ==
  [s EXCEPT !.cg   = [@ EXCEPT ![m] = ApplyCG(s.w, @, o)],
            !.gval = [@ EXCEPT ![m] = ApplyCG(s.w, @, o)]]

(* Histogram::record / record_many = AtomicBucket::push, count times *)
RecordF(s, m, v, c) ==
  [s EXCEPT !.hs    = [@ EXCEPT ![m] = BagAdd(@, v, c)],
            !.since = [@ EXCEPT ![m] = BagAdd(@, v, c)]]

(* Snapshotter::snapshot (debugging.rs:96-136): for every composite key in  *)
(* `seen` order: look the storage up in the handle map of its kind (skip the *)
(* key if there is none), read the atomic / drain the bucket with           *)
(* clear_with, attach metadata of (kind, name) or (None, None).             *)
MetaOf(s, kn) == IF kn \in DOMAIN s.meta THEN s.meta[kn] ELSE <<0, 0>>
EntryOf(s, m) ==
  [ k |-> m[1], n |-> m[2], l |-> m[3],
    u |-> MetaOf(s, KNOf(m))[1], d |-> MetaOf(s, KNOf(m))[2],
    v  |-> IF KindOf(m) = "h" THEN 0 ELSE s.cg[m],
    hv |-> IF KindOf(m) = "h" THEN s.hs[m] ELSE EmptyBag ]
Listed(s) == SelectSeq(s.seen, LAMBDA m : m \in Registered(s))
SnapOf(s) == LET ls == Listed(s) IN [i \in 1..Len(ls) |-> EntryOf(s, ls[i])]

SnapshotF(s) ==
  [s EXCEPT !.hs    = [m \in DOMAIN @ |-> IF m \in Range(s.seen) THEN EmptyBag ELSE @[m]],
            !.since = [m \in DOMAIN @ |-> EmptyBag]]

----------------------------------------------------------------------------
(* Actions: one per public call. *)
Describe(r, k, n, u, d) == st' = [st EXCEPT ![r] = DescribeF(@, k, n, u, d)]
Register(r, m)          == st' = [st EXCEPT ![r] = RegisterF(@, m)]
CounterOp(r, m, o)      == /\ KindOf(m) = "c" /\ m \in DOMAIN st[r].cg
                           /\ st' = [st EXCEPT ![r] = UpdateCGF(@, m, o)]
GaugeOp(r, m, o)        == /\ KindOf(m) = "g" /\ m \in DOMAIN st[r].cg
                           /\ st' = [st EXCEPT ![r] = UpdateCGF(@, m, o)]
HistRecord(r, m, o)     == /\ KindOf(m) = "h" /\ m \in DOMAIN st[r].hs
                           /\ st' = [st EXCEPT ![r] = RecordF(@, m, o[2], o[3])]
Snapshot(r)             == st' = [st EXCEPT ![r] = SnapshotF(@)]

\* exhaustive runs: every history of at most MaxOps calls.  (A step counter in the state rather than
\* TLCGet("level"): with several workers the level at which a state is first found is not always its
\* distance from the initial state, which would make the explored set depend on timing.)
DepthOK == nops < MaxOps /\ nops' = nops + 1

DescribeAny == \E r \in Recs, k \in Kinds, n \in Names, u \in Units \cup {0}, d \in Descs :
                  DepthOK /\ Describe(r, k, n, u, d)
RegisterAny == \E r \in Recs, m \in Metric : DepthOK /\ Register(r, m)
CounterAny  == \E r \in Recs, m \in Metric, o \in COps : DepthOK /\ CounterOp(r, m, o)
GaugeAny    == \E r \in Recs, m \in Metric, o \in GOps : DepthOK /\ GaugeOp(r, m, o)
RecordAny   == \E r \in Recs, m \in Metric, o \in HOps : DepthOK /\ HistRecord(r, m, o)
SnapshotAny == \E r \in Recs : DepthOK /\ Snapshot(r)

Next == DescribeAny \/ RegisterAny \/ CounterAny \/ GaugeAny \/ RecordAny \/ SnapshotAny

Spec == Init /\ [][Next]_vars

----------------------------------------------------------------------------
(* The property, clause by clause, about the snapshot that would be taken   *)
(* in the current state (every state is a possible snapshot point).         *)
KeyOfEntry(e) == <<e.k, e.n, e.l>>
SnapKeys(s) == LET sn == SnapOf(s) IN [i \in 1..Len(sn) |-> KeyOfEntry(sn[i])]

\* every registered metric, once, and nothing else (in particular nothing only described,
\* and nothing registered with another recorder)
ListsExactlyRegistered ==
  \A r \in Recs : LET ks == SnapKeys(st[r]) IN
     /\ Range(ks) = DOMAIN st[r].rank
     /\ Len(ks) = Cardinality(DOMAIN st[r].rank)

\* in order of first registration
FirstRegistrationOrder ==
  \A r \in Recs : LET ks == SnapKeys(st[r]) IN
     \A i, j \in DOMAIN ks : i < j => st[r].rank[ks[i]] < st[r].rank[ks[j]]

\* counters and gauges show their current value
ValuesCurrent ==
  \A r \in Recs : LET sn == SnapOf(st[r]) IN \A i \in DOMAIN sn : LET e == sn[i] IN
     e.k # "h" => e.v = st[r].gval[KeyOfEntry(e)]

\* histograms show exactly the values recorded since the previous snapshot ...
HistogramSinceLast ==
  \A r \in Recs : LET sn == SnapOf(st[r]) IN \A i \in DOMAIN sn : LET e == sn[i] IN
     e.k = "h" => e.hv = st[r].since[KeyOfEntry(e)]

\* ... and each value in exactly one snapshot: what is pending in a bucket is exactly what
\* no snapshot has shown yet (a snapshot empties both sides; nothing else removes values)
DrainedOnce ==
  \A r \in Recs : \A m \in DOMAIN st[r].hs : st[r].hs[m] = st[r].since[m]

\* unit = most recent unit given for (kind, name), description = most recent description
MetadataLatest ==
  \A r \in Recs : LET sn == SnapOf(st[r]) IN \A i \in DOMAIN sn : LET e == sn[i] IN
     /\ e.u = st[r].gunit[<<e.k, e.n>>]
     /\ e.d = st[r].gdesc[<<e.k, e.n>>]

\* the whole snapshot, as one equation (used by the conformance side as well)
ExpOf(s) ==
  [i \in 1..Cardinality(DOMAIN s.rank) |->
     LET m == CHOOSE x \in DOMAIN s.rank : s.rank[x] = i - 1 IN
     [ k |-> m[1], n |-> m[2], l |-> m[3],
       u |-> s.gunit[KNOf(m)], d |-> s.gdesc[KNOf(m)],
       v  |-> IF KindOf(m) = "h" THEN 0 ELSE s.gval[m],
       hv |-> IF KindOf(m) = "h" THEN s.since[m] ELSE EmptyBag ]]
SnapshotExact == \A r \in Recs : SnapOf(st[r]) = ExpOf(st[r])

----------------------------------------------------------------------------
(* Concurrent use of one recorder (real-parallel conformance rounds): n threads each register the  *)
(* metric (name nm, label set ls) as counter, gauge and histogram on a fresh recorder -- each with *)
(* an equal key built its own way -- and update the handle they were given once: increment(1),     *)
(* increment(1.0), record(tid).  Registration is an atomic get-or-create (every thread gets the     *)
(* same storage) and the updates are atomic and commute, so every interleaving must end in the      *)
(* state of the sequential execution below; SharedRegister.tla decides this on the lock-level       *)
(* protocol of register_* / Registry::get_or_create_* for all interleavings.  The listing order is  *)
(* c, g, h in every schedule (each thread registers in that order).                                 *)
ThreadRound(s, t, nm, ls) ==
  LET c == <<"c", nm, ls>>  g == <<"g", nm, ls>>  h == <<"h", nm, ls>>
      s1 == RegisterF(RegisterF(RegisterF(s, c), g), h)
      s2 == UpdateCGF(s1, c, <<"inc", 1>>)
      s3 == UpdateCGF(s2, g, <<"ginc", 1>>)
  IN RecordF(s3, h, t, 1)
RECURSIVE RoundState(_, _, _)
RoundState(n, nm, ls) == IF n = 0 THEN InitRec(1000000) ELSE ThreadRound(RoundState(n - 1, nm, ls), n, nm, ls)
RoundSnapshot(n, nm, ls) == SnapOf(RoundState(n, nm, ls))

TypeOK ==
  \A r \in Recs :
    /\ Range(st[r].seen) \subseteq Metric
    /\ DOMAIN st[r].meta \subseteq KN
    /\ DOMAIN st[r].cg \subseteq {m \in Metric : KindOf(m) # "h"}
    /\ DOMAIN st[r].hs \subseteq {m \in Metric : KindOf(m) = "h"}
    /\ DOMAIN st[r].rank = Range(st[r].seen)
=============================================================================
