---------------------------- MODULE DescribeRace ----------------------------
(***************************************************************************)
(* C19, concurrent describe_* calls for ONE (kind, name) on one recorder.  *)
(* A call is <<unit, description>> (unit 0 = None).                        *)
(*   TwoPhase = FALSE  the code (debugging.rs describe_metric): the whole  *)
(*       update happens inside one hold of the metadata lock:              *)
(*       entry.or_insert((None, desc)); unit overwritten only when Some;   *)
(*       description overwritten always                          (Atomic)  *)
(*   TwoPhase = TRUE   witness variant: a call without a unit looks the    *)
(*       earlier unit up under the lock, RELEASES it (Lookup), then takes  *)
(*       it again for a plain insert of (resolved unit, desc)    (Insert)  *)
(* Begin / End are the invocation and the return of a call, so that calls  *)
(* of different threads overlap and real-time order is observable.         *)
(*                                                                         *)
(* Property (linearizability of the metadata a snapshot would show): in    *)
(* every state the entry equals the outcome of some sequential order of    *)
(* the completed calls plus some of the calls in flight, respecting        *)
(* real-time order (a call that returned before another was invoked comes  *)
(* first), under the rule "unit: the latest one given, kept by later       *)
(* unit-less descriptions; description: the latest".                       *)
(***************************************************************************)
EXTENDS DescribeLin, TLC

CONSTANTS Scen,       \* which calls the threads make (see CallsOf)
          TwoPhase

\* thread -> sequence of calls (program order)
CallsOf ==
  CASE Scen = 1 -> << << <<1, 1>> >>, << <<0, 2>> >> >>                          \* one unit, one without
    [] Scen = 2 -> << << <<1, 1>> >>, << <<0, 2>> >>, << <<0, 3>> >> >>          \* one unit, two without
    [] Scen = 3 -> << << <<1, 1>>, <<0, 4>> >>, << <<2, 2>> >>, << <<0, 3>> >> >> \* two units, program order
    [] Scen = 4 -> << << <<0, 1>> >>, << <<0, 2>> >> >>                          \* no unit at all
Threads == DOMAIN CallsOf
CallIds == {<<t, i>> : t \in Threads, i \in 1..3} \cap {c \in (Threads \X (1..3)) : c[2] <= Len(CallsOf[c[1]])}
Call(c) == CallsOf[c[1]][c[2]]

VARIABLES meta,     \* the metadata entry of the (kind, name): <<unit, desc>>, <<0, 0>> = absent
          pc,       \* pc[t] in "idle", "begun", "looked", "applied", "done"
          k,        \* k[t]: index of the thread's current call
          seenU,    \* seenU[t]: unit read by Lookup (witness variant)
          returned, \* calls that have returned
          before    \* real-time order: <<a, b>> when a returned before b was invoked
vars == <<meta, pc, k, seenU, returned, before>>

Init == /\ meta = <<0, 0>>
        /\ pc = [t \in Threads |-> "idle"] /\ k = [t \in Threads |-> 1]
        /\ seenU = [t \in Threads |-> 0]
        /\ returned = {} /\ before = {}

Cur(t) == <<t, k[t]>>

Begin(t) == /\ pc[t] = "idle" /\ k[t] <= Len(CallsOf[t])
            /\ before' = before \cup {<<a, Cur(t)>> : a \in returned}
            /\ pc' = [pc EXCEPT ![t] = "begun"]
            /\ UNCHANGED <<meta, k, seenU, returned>>

\* the rule, as one step function (also used to compute the sequential outcomes)
ApplyCall(e, c) == <<IF c[1] # 0 THEN c[1] ELSE e[1], c[2]>>

Atomic(t) == /\ ~TwoPhase /\ pc[t] = "begun"
             /\ meta' = ApplyCall(meta, Call(Cur(t)))
             /\ pc' = [pc EXCEPT ![t] = "applied"]
             /\ UNCHANGED <<k, seenU, returned, before>>

Lookup(t) == /\ TwoPhase /\ pc[t] = "begun"
             /\ seenU' = [seenU EXCEPT ![t] = IF Call(Cur(t))[1] # 0 THEN Call(Cur(t))[1] ELSE meta[1]]
             /\ pc' = [pc EXCEPT ![t] = "looked"]
             /\ UNCHANGED <<meta, k, returned, before>>

Insert(t) == /\ pc[t] = "looked"
             /\ meta' = <<seenU[t], Call(Cur(t))[2]>>
             /\ pc' = [pc EXCEPT ![t] = "applied"]
             /\ UNCHANGED <<k, seenU, returned, before>>

End(t) == /\ pc[t] = "applied"
          /\ returned' = returned \cup {Cur(t)}
          /\ k' = [k EXCEPT ![t] = @ + 1]
          /\ pc' = [pc EXCEPT ![t] = "idle"]
          /\ UNCHANGED <<meta, seenU, before>>

Next == \E t \in Threads : Begin(t) \/ Atomic(t) \/ Lookup(t) \/ Insert(t) \/ End(t)
Spec == Init /\ [][Next]_vars

----------------------------------------------------------------------------
InFlight == {Cur(t) : t \in {x \in Threads : pc[x] # "idle"}}
Outcome(order) == RunOrder(order, Call, ApplyCall, <<0, 0>>)

Linearizable ==
  \E X \in SUBSET InFlight :
    \E o \in Orders(returned \cup X) : Respects(o, before) /\ Outcome(o) = meta

\* the schedule-independent consequences at quiescence, spelled out
Quiescent == \A t \in Threads : pc[t] = "idle" /\ k[t] > Len(CallsOf[t])
GivenUnits == {Call(c)[1] : c \in CallIds} \ {0}
GivenDescs == {Call(c)[2] : c \in CallIds}
UnitKept  == Quiescent => (IF GivenUnits = {} THEN meta[1] = 0 ELSE meta[1] \in GivenUnits)
DescGiven == Quiescent => meta[2] \in GivenDescs
=============================================================================
