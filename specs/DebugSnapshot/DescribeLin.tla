---------------------------- MODULE DescribeLin ----------------------------
(* Helpers to decide whether the metadata shown for one (kind, name) is the  *)
(* outcome of SOME sequential order of a set of describe calls.              *)
EXTENDS Integers, Sequences, FiniteSets

\* all orders (sequences without repetition) of the elements of a finite set
RECURSIVE Orders(_)
Orders(S) == IF S = {} THEN {<<>>}
             ELSE UNION {{<<x>> \o o : o \in Orders(S \ {x})} : x \in S}

\* result of applying the calls in the given order with the step function Apply(state, call)
RECURSIVE RunOrder(_, _, _, _)
RunOrder(order, CallOf(_), Apply(_, _), init) ==
  IF order = <<>> THEN init
  ELSE RunOrder(Tail(order), CallOf, Apply, Apply(init, CallOf(Head(order))))

\* an order respects a strict partial order given as a set of pairs <<a, b>> (a before b)
Respects(order, before) ==
  \A i, j \in DOMAIN order : <<order[i], order[j]>> \in before => i < j
=============================================================================
