----------------------------- MODULE DrainCheck -----------------------------
(* "Each recorded histogram value appears in exactly one snapshot", as pure  *)
(* operators over a list of snapshot contents (each a sequence of values).   *)
(* Used by SnapshotDrain.tla on the snapshots its model produces and by      *)
(* TraceDebugSnapshot.tla on the snapshots logged from the real recorder.    *)
EXTENDS Integers, Sequences, FiniteSets

RECURSIVE FlattenSeqs(_)
FlattenSeqs(ss) == IF ss = <<>> THEN <<>> ELSE Head(ss) \o FlattenSeqs(Tail(ss))
ValuesOf(s) == {s[i] : i \in DOMAIN s}
Reported(snaps) == ValuesOf(FlattenSeqs(snaps))

\* no value is reported twice: neither by two snapshots nor twice by one
NoValueTwice(snaps) == LET all == FlattenSeqs(snaps) IN Len(all) = Cardinality(ValuesOf(all))
\* only recorded values are reported
NothingInvented(recorded, snaps) == Reported(snaps) \subseteq recorded
\* recorded values no snapshot reported
Missing(recorded, snaps) == recorded \ Reported(snaps)
ExactlyOnce(recorded, snaps) == NoValueTwice(snaps) /\ Reported(snaps) = recorded
=============================================================================
