SPECIFICATION TraceSpec
CONSTANTS
 Recs = {1,2}
 Kinds = {"c","g","h"}
 Names = {1,2,3}
 LSets = {0,1,2,3,4}
 Units = {1,2,3}
 Descs = {1,2,3}
 COps = {}
 GOps = {}
 HOps = {}
 W = 4
 MaxOps = 0
INVARIANTS ListsExactlyRegistered FirstRegistrationOrder ValuesCurrent HistogramSinceLast DrainedOnce MetadataLatest SnapshotExact
POSTCONDITION TraceAccepted
CHECK_DEADLOCK FALSE
