------------------------- MODULE MCSimDebugSnapshot -------------------------
(* Constant definitions for SimDebugSnapshot configurations. *)
EXTENDS SimDebugSnapshot
MC_COps == {<<"inc", 1>>, <<"inc", 3>>, <<"abs", 2>>}
MC_GOps == {<<"ginc", 1>>, <<"gdec", 2>>, <<"gset", 3>>}
MC_HOps == {<<"rec", 1, 1>>, <<"rec", 2, 2>>, <<"rec", 1, 0>>}
MC_COps1 == {<<"inc", 1>>, <<"abs", 2>>}
MC_GOps1 == {<<"ginc", 1>>, <<"gset", 3>>}
MC_HOps1 == {<<"rec", 1, 1>>}
\* long random histories: larger values, record_many across the 64-slot block boundary
MC_COpsL == {<<"inc", 1>>, <<"inc", 5>>, <<"inc", 15>>, <<"abs", 3>>, <<"abs", 9>>}
MC_GOpsL == {<<"ginc", 1>>, <<"ginc", 7>>, <<"gdec", 2>>, <<"gdec", 11>>, <<"gset", 3>>, <<"gset", 0>>}
MC_HOpsL == {<<"rec", 1, 1>>, <<"rec", 2, 1>>, <<"rec", 3, 2>>, <<"rec", 4, 70>>, <<"rec", 5, 0>>}
=============================================================================
