-------------------------- MODULE MCDebugSnapshot --------------------------
(* Exhaustive configurations of DebugSnapshot.tla (nested tuples cannot be  *)
(* written in a .cfg file).                                                 *)
EXTENDS DebugSnapshot

\* counter modulus 4: inc 3 wraps, abs after a wrap is visible
MC_COps == {<<"inc", 1>>, <<"inc", 3>>, <<"abs", 2>>}
MC_GOps == {<<"ginc", 1>>, <<"gdec", 2>>, <<"gset", 3>>}
MC_HOps == {<<"rec", 1, 1>>, <<"rec", 2, 2>>}
\* reduced alphabets for deeper / wider configurations
MC_COps1 == {<<"inc", 1>>, <<"abs", 2>>}
MC_GOps1 == {<<"ginc", 1>>, <<"gset", 3>>}
MC_HOps1 == {<<"rec", 1, 1>>}
=============================================================================
