--------------------------- MODULE SnapshotDrain ---------------------------
(***************************************************************************)
(* C19, histogram part of Snapshotter::snapshot under concurrency: writers *)
(* record into one histogram (AtomicBucket) while several threads take     *)
(* snapshots through clones of one Snapshotter.                            *)
(*                                                                         *)
(* The bucket is modelled at the granularity that matters for the          *)
(* property (block-level detail -- slots, acks, chains of full blocks --   *)
(* is C05's Bucket.tla): a chain hangs off `tail`; clear_with hands the    *)
(* whole chain over to exactly one caller with ONE compare-exchange        *)
(* (tail -> null), and that caller then reads it.  A push loads the tail   *)
(* and later claims a slot in the block it loaded.                         *)
(*   CopyThenClear = FALSE  the code: snapshot = clear_with(collect)       *)
(*        SDetach  load tail + CAS to null (the hand-over)                 *)
(*        SRead    read the detached chain: that is the snapshot           *)
(*   CopyThenClear = TRUE   witness variant: data() then clear()           *)
(*        SCopy    read the chain without detaching it                     *)
(*        SCDetach / SCRead   clear(): detach, read, throw away            *)
(*                                                                         *)
(* Inherited bucket finding (known_findings C05 CF05a): a push that loaded *)
(* the tail before a hand-over and claims its slot after the new owner has *)
(* read the chain is in no snapshot.  It is the named deviation `lateLost` *)
(* (set by exactly that pattern); Conservation allows it and nothing else, *)
(* StrictConservation is the witness that the pattern is reachable.        *)
(***************************************************************************)
EXTENDS DrainCheck, TLC

CONSTANTS Writers,        \* writer ids (positive integers)
          NVals,          \* values recorded by each writer (all distinct)
          Prefill,        \* values already in the bucket, recorded before any snapshot starts
          Snappers,       \* snapshotting thread ids
          NSnaps,         \* snapshots per thread
          CopyThenClear   \* FALSE = as coded

Val(w, i) == w * 100 + i
PrefillVals == {i : i \in 1..Prefill}
AllVals == PrefillVals \cup {Val(w, i) : w \in Writers, i \in 1..NVals}

VARIABLES tail,      \* chain id at the bucket's tail, 0 = null
          content,   \* chain id -> sequence of values pushed into it
          readDone,  \* chains whose new owner has read them (their length is fixed)
          nchain,    \* chains allocated so far
          wpc, wlt, wk,      \* writer: "load"/"store"/"done", chain it loaded, next value index
          spc, sblk, scopy, sk, \* snapper: pc, chain it detached, data() copy (variant), snapshots taken
          snaps,     \* history: contents of the completed snapshots
          completed, \* ghost: values whose record() has returned
          lateLost   \* named deviation CF05a: values claimed in a chain after its owner read it
vars == <<tail, content, readDone, nchain, wpc, wlt, wk, spc, sblk, scopy, sk, snaps, completed, lateLost>>

SeqOfSet(S) == LET RECURSIVE F(_) F(T) == IF T = {} THEN <<>> ELSE LET x == CHOOSE y \in T : \A z \in T : y <= z IN <<x>> \o F(T \ {x}) IN F(S)

Init ==
  /\ tail = IF Prefill > 0 THEN 1 ELSE 0
  /\ content = IF Prefill > 0 THEN <<SeqOfSet(PrefillVals)>> ELSE <<>>
  /\ readDone = {}
  /\ nchain = IF Prefill > 0 THEN 1 ELSE 0
  /\ wpc = [w \in Writers |-> IF NVals > 0 THEN "load" ELSE "done"]
  /\ wlt = [w \in Writers |-> 0] /\ wk = [w \in Writers |-> 1]
  /\ spc = [s \in Snappers |-> "start"] /\ sblk = [s \in Snappers |-> 0]
  /\ scopy = [s \in Snappers |-> <<>>] /\ sk = [s \in Snappers |-> 0]
  /\ snaps = <<>>
  /\ completed = PrefillVals
  /\ lateLost = {}

\* ---- Histogram::record = AtomicBucket::push
WLoad(w) ==            \* load the tail; a null tail is replaced by a fresh block (CAS null -> new)
  /\ wpc[w] = "load"
  /\ IF tail = 0
     THEN /\ nchain' = nchain + 1 /\ tail' = nchain + 1
          /\ content' = Append(content, <<>>)
          /\ wlt' = [wlt EXCEPT ![w] = nchain + 1]
     ELSE /\ wlt' = [wlt EXCEPT ![w] = tail] /\ UNCHANGED <<tail, content, nchain>>
  /\ wpc' = [wpc EXCEPT ![w] = "store"]
  /\ UNCHANGED <<readDone, wk, spc, sblk, scopy, sk, snaps, completed, lateLost>>

WStore(w) ==           \* claim a slot in the loaded block and write it
  /\ wpc[w] = "store"
  /\ LET v == Val(w, wk[w])  b == wlt[w] IN
       /\ IF b \in readDone
          THEN lateLost' = lateLost \cup {v} /\ UNCHANGED content      \* CF05a
          ELSE content' = [content EXCEPT ![b] = Append(@, v)] /\ UNCHANGED lateLost
       /\ completed' = completed \cup {v}
  /\ wk' = [wk EXCEPT ![w] = @ + 1]
  /\ wpc' = [wpc EXCEPT ![w] = IF wk[w] < NVals THEN "load" ELSE "done"]
  /\ UNCHANGED <<tail, readDone, nchain, wlt, spc, sblk, scopy, sk, snaps>>

\* ---- snapshot as coded: clear_with
Finish(s, vals) ==
  /\ snaps' = Append(snaps, vals)
  /\ sk' = [sk EXCEPT ![s] = @ + 1]
  /\ spc' = [spc EXCEPT ![s] = IF sk[s] + 1 < NSnaps THEN "start" ELSE "done"]

SDetach(s) ==
  /\ ~CopyThenClear /\ spc[s] = "start"
  /\ IF tail = 0
     THEN Finish(s, <<>>) /\ UNCHANGED <<tail, sblk>>
     ELSE /\ sblk' = [sblk EXCEPT ![s] = tail] /\ tail' = 0
          /\ spc' = [spc EXCEPT ![s] = "read"] /\ UNCHANGED <<snaps, sk>>
  /\ UNCHANGED <<content, readDone, nchain, wpc, wlt, wk, scopy, completed, lateLost>>

SRead(s) ==
  /\ spc[s] = "read"
  /\ readDone' = readDone \cup {sblk[s]}
  /\ Finish(s, content[sblk[s]])
  /\ UNCHANGED <<tail, content, nchain, wpc, wlt, wk, sblk, scopy, completed, lateLost>>

\* ---- witness variant: data() then clear()
SCopy(s) ==
  /\ CopyThenClear /\ spc[s] = "start"
  /\ scopy' = [scopy EXCEPT ![s] = IF tail = 0 THEN <<>> ELSE content[tail]]
  /\ spc' = [spc EXCEPT ![s] = "cdetach"]
  /\ UNCHANGED <<tail, content, readDone, nchain, wpc, wlt, wk, sblk, sk, snaps, completed, lateLost>>

SCDetach(s) ==
  /\ spc[s] = "cdetach"
  /\ IF tail = 0
     THEN Finish(s, scopy[s]) /\ UNCHANGED <<tail, sblk>>
     ELSE /\ sblk' = [sblk EXCEPT ![s] = tail] /\ tail' = 0
          /\ spc' = [spc EXCEPT ![s] = "cread"] /\ UNCHANGED <<snaps, sk>>
  /\ UNCHANGED <<content, readDone, nchain, wpc, wlt, wk, scopy, completed, lateLost>>

SCRead(s) ==
  /\ spc[s] = "cread"
  /\ readDone' = readDone \cup {sblk[s]}
  /\ Finish(s, scopy[s])                       \* the chain's content is thrown away
  /\ UNCHANGED <<tail, content, nchain, wpc, wlt, wk, sblk, scopy, completed, lateLost>>

Next == \/ \E w \in Writers : WLoad(w) \/ WStore(w)
        \/ \E s \in Snappers : SDetach(s) \/ SRead(s) \/ SCopy(s) \/ SCDetach(s) \/ SCRead(s)
Spec == Init /\ [][Next]_vars

----------------------------------------------------------------------------
\* values still in the bucket or in a chain handed over but not read yet: a later snapshot (or the one
\* in progress) will report them
Pending == UNION {ValuesOf(content[b]) : b \in (1..nchain) \ readDone}

NoDuplicate  == NoValueTwice(snaps)
NoInvention  == NothingInvented(AllVals, snaps)
\* every value whose record() has returned is in exactly one place: a snapshot, still pending, or lost by
\* the inherited bucket deviation -- nothing else
Conservation == /\ completed = Reported(snaps) \cup Pending \cup lateLost
                /\ Reported(snaps) \cap Pending = {}
                /\ lateLost \cap (Reported(snaps) \cup Pending) = {}
StrictConservation == Conservation /\ lateLost = {}
\* the deviation loses at most one value per writer per hand-over
LateLostBound == Cardinality(lateLost) <= Cardinality(readDone) * Cardinality(Writers)
\* with nobody writing during the snapshots (NVals = 0) the snapshots together report everything exactly once
Quiescent == (\A w \in Writers : wpc[w] = "done") /\ (\A s \in Snappers : spc[s] = "done")
QuiescentExact == (Quiescent /\ lateLost = {} /\ tail = 0) => ExactlyOnce(AllVals, snaps)
=============================================================================
