------------------------ MODULE TraceDebugSnapshot ------------------------
(* Trace validation (implementation -> specification): a history recorded   *)
(* from real DebuggingRecorders (one ndjson line per public call, snapshots *)
(* with their full content from Snapshot::into_vec()) must be a behaviour   *)
(* of DebugSnapshot.tla: every call is replayed on the model state of the   *)
(* recorder it was issued to (r = the thread whose local recorder it is),   *)
(* and every logged snapshot must equal, as an ordered list, the snapshot   *)
(* the model computes for that recorder (histogram values as a bag).        *)
(* All invariants of DebugSnapshot.tla are checked in every state.          *)
EXTENDS DebugSnapshot, DrainCheck, DescribeLin, Json, IOUtils, TLCExt
VARIABLE l
Rec == ndJsonDeserialize(IOEnv.TRACE)
tvars == <<vars, l>>

E == Rec[l]
Ev == E.ev
Adv == l' = l + 1
Obs(cond) == cond /\ Adv /\ UNCHANGED vars

SeqToBag(s) == [v \in Range(s) |-> Cardinality({i \in DOMAIN s : s[i] = v})]
M(e) == <<e.k, e.n, e.l>>

\* the logged snapshot in the shape of SnapOf
Logged(sn) == [i \in 1..Len(sn) |->
                 [ k |-> sn[i].k, n |-> sn[i].n, l |-> sn[i].l, u |-> sn[i].u, d |-> sn[i].d,
                   v |-> sn[i].v, hv |-> SeqToBag(sn[i].hv) ]]

\* concurrent snapshots of one histogram on the real recorder (harness mode `drains`): values 1..recorded were
\* recorded (all distinct), snaps = contents of every snapshot taken, including the final ones after quiescence.
\* Never a value twice, never an invented one.  strict (no record() overlapped a snapshot): every value exactly
\* once.  Otherwise a value in no snapshot can only be the inherited bucket deviation CF05a (SnapshotDrain.tla
\* lateLost); without a total order of the real-parallel run it cannot be told apart, so it is reported as the
\* known finding when that is listed for this property and not asserted otherwise -- except for the bound the
\* deviation obeys: at most one value per recording thread per snapshot (SnapshotDrain.tla LateLostBound).
DrainOK(e) ==
  LET rec == 1..e.recorded
      miss == Missing(rec, e.snaps) IN
  /\ NoValueTwice(e.snaps)
  /\ NothingInvented(rec, e.snaps)
  /\ IF e.strict THEN miss = {}
     ELSE /\ Cardinality(miss) <= e.nsnaps * e.writers
          /\ IF miss # {} /\ e.listed THEN PrintT(<<"KNOWN", "CF05a", Cardinality(miss)>>) ELSE TRUE

\* concurrent describe_* calls for one fresh (kind, name) on the real recorder (harness mode `describes`): the
\* calls -- one per thread, released together, so no real-time order between them is assumed -- and the (unit,
\* description) the quiescent snapshot shows for that name.  It must be the outcome of SOME sequential order of the
\* calls under this module's own DescribeF (the rule of debugging.rs describe_metric).
DescrOK(e) ==
  LET Apply(s, c) == DescribeF(s, "c", 1, c.u, c.d)
      CallOf(i) == e.calls[i]
      outs == {MetaOf(RunOrder(o, CallOf, Apply, InitRec(4)), <<"c", 1>>) : o \in Orders(1..Len(e.calls))}
  IN <<e.shown.u, e.shown.d>> \in outs

TraceNext ==
  /\ l <= Len(Rec)
  /\ UNCHANGED nops
  /\ CASE Ev = "reset"    -> st' = [r \in Recs |-> InitRec(E.w)] /\ Adv
       [] Ev = "describe" -> E.r \in Recs /\ Describe(E.r, E.k, E.n, E.u, E.d) /\ Adv
       [] Ev = "register" -> E.r \in Recs /\ M(E) \in Metric /\ Register(E.r, M(E)) /\ Adv
       [] Ev = "update"   -> /\ E.r \in Recs /\ M(E) \in Metric
                             /\ CASE E.op \in {"inc", "abs"}           -> CounterOp(E.r, M(E), <<E.op, E.v>>)
                                  [] E.op \in {"ginc", "gdec", "gset"} -> GaugeOp(E.r, M(E), <<E.op, E.v>>)
                                  [] E.op = "rec"                      -> HistRecord(E.r, M(E), <<"rec", E.v, E.c>>)
                                  [] OTHER -> FALSE
                             /\ Adv
       [] Ev = "snapshot" -> /\ E.r \in Recs
                             /\ Logged(E.snap) = SnapOf(st[E.r])
                             /\ Snapshot(E.r) /\ Adv
       \* a real-parallel round at quiescence: n threads registered the same metric as c, g, h on one fresh
       \* recorder and updated once each; the snapshot must account for every update
       [] Ev = "round"    -> Obs(E.n >= 1 /\ Logged(E.snap) = RoundSnapshot(E.n, E.nm, E.l))
       [] Ev = "drain"    -> Obs(DrainOK(E))
       [] Ev = "descr"    -> Obs(DescrOK(E))
       [] Ev = "note"     -> Obs(TRUE)
       [] OTHER -> FALSE      \* panic / unknown event: not a behaviour

TraceInit == Init /\ l = 1
TraceSpec == TraceInit /\ [][TraceNext]_tvars
TraceAccepted ==
  LET d == TLCGet("stats").diameter IN
  IF d - 1 = Len(Rec) THEN TRUE
  ELSE Print(<<"TRACE REJECTED at line", d, Rec[d]>>, FALSE)
=============================================================================
