SPECIFICATION Spec
CONSTANTS
 Recs = {1}
 Kinds = {"c","h"}
 Names = {1,2}
 LSets = {0,1}
 Units = {1}
 Descs = {1}
 COps <- MC_COps
 GOps <- MC_GOps
 HOps <- MC_HOps
 W = 4
 MaxOps = 5
INVARIANTS TypeOK ListsExactlyRegistered FirstRegistrationOrder ValuesCurrent HistogramSinceLast DrainedOnce MetadataLatest SnapshotExact
CHECK_DEADLOCK FALSE
