--------------------------- MODULE ScrapeEndpoint ---------------------------
(***************************************************************************)
(* C18 -- the HTTP listener of metrics-exporter-prometheus                 *)
(*   (exporter/http_listener.rs, exporter/builder.rs).                     *)
(*                                                                         *)
(* Part 1: the allowlist.  PrometheusBuilder::add_allowed_address(str)     *)
(*   parses one entry (IpNet::from_str), build() hands Option<Vec<IpNet>>  *)
(*   to the exporter, check_tcp_allowed() decides ONCE PER CONNECTION      *)
(*   (at accept) whether peer_addr().ip() is contained in any net, and     *)
(*   handle_http_request() answers 403/empty, "OK" on /health, or the      *)
(*   rendering.                                                            *)
(* Part 2: the listener.  serve_tcp() accepts in a loop (an accept error   *)
(*   is logged and the loop continues), process_tcp_stream() spawns one    *)
(*   task per connection (hyper http1 serve_connection, keep-alive,        *)
(*   pipelining, 400 + close on a malformed request, close on EOF); a      *)
(*   task's error is logged and affects nothing else.                      *)
(*                                                                         *)
(* Addresses are bit sequences of length W, most significant bit first     *)
(* (model: W = 4; conformance: the 32 bits of the IPv4 addresses used).    *)
(***************************************************************************)
EXTENDS Naturals, Integers, Sequences, FiniteSets, TLC

CONSTANTS
  W,              \* address width of the exhaustive scopes
  Conns,          \* connection slots (a slot can be reused after its connection is gone)
  Peers,          \* peer addresses explored by model checking
  Paths,          \* request path classes explored by model checking
  Configs,        \* builder call histories explored by model checking (set of sequences of calls)
  ListenerSetterResetsAllowlist,  \* design mutation (witness configs only): with_http_listener replaces the whole listener
                  \* configuration, allowlist included, so entries added before it are lost
  PlainAccepted,  \* FALSE: add_allowed_address as coded today (finding CF18); TRUE: as documented / repaired
  MaxFaults, MaxGets, MaxBumps,   \* bounds of the exhaustive scopes
  MaxQ,           \* requests a client keeps outstanding on one connection (bound of the exhaustive scopes)
  Reuse,          \* a slot whose connection is gone can be connected again (FALSE in the exhaustive scopes)
  ExitOnError,    \* design mutation (witness configs only): a connection/accept error ends the accept loop
  Serial,         \* design mutation (witness configs only): connections are served inline, one at a time
  Contains(_, _)  \* containment test used by the decision: ContainsCode (ipnet arithmetic) or ContainsLaw

VARIABLES
  phase,    \* "none" (no exporter yet) | "run"
  hist,     \* the calls made on the builder before build(), in order: with_http_listener / add_allowed_address(e) / other setters
  entries,  \* the allowlist entries the builder holds at build(), in order
  built,    \* [ok, bad]: result of the builder calls; bad = index of the first rejected entry (0 = none)
  allow,    \* what the exporter holds: [some |-> BOOLEAN, nets |-> sequence of [a, n]]
  alive,    \* the accept loop is running
  conn,     \* per slot: the connection (client end + what the server knows about it)
  ctr,      \* current value of the counter the rendering shows (monotone)
  last,     \* the response emitted by the last step, if any (history, for the invariants)
  busy,     \* Serial only: the slot being served inline (0 = none)
  nf, ng, nb,   \* fault / GET / bump budget used (bounds for model checking)
  dev_plain \* named deviation CF18: an entry written as a plain address was rejected by the builder

vars == <<phase, hist, entries, built, allow, alive, conn, ctr, last, busy, nf, ng, nb, dev_plain>>

-----------------------------------------------------------------------------
(* addresses, networks, entries *)
Bit == {0, 1}
AddrsOf(w) == [1..w -> Bit]
RECURSIVE Pow2(_)
Pow2(n) == IF n = 0 THEN 1 ELSE 2 * Pow2(n - 1)
ToInt(b) == LET f[i \in 0..Len(b)] == IF i = 0 THEN 0 ELSE 2 * f[i - 1] + b[i] IN f[Len(b)]

(* ipnet: Ipv4Net::contains(&Ipv4Addr) == network() <= a && a <= broadcast(), with                 *)
(* network = addr & netmask, broadcast = addr | hostmask: host bits of the entry are ignored        *)
ContainsCode(net, a) ==
  LET size == Pow2(Len(a) - net.n)
      network == (ToInt(net.a) \div size) * size
      broadcast == network + size - 1
  IN Len(net.a) = Len(a) /\ network <= ToInt(a) /\ ToInt(a) <= broadcast
(* the documented meaning: same address family and the first n bits agree *)
ContainsLaw(net, a) == Len(net.a) = Len(a) /\ \A i \in 1..net.n : net.a[i] = a[i]

(* an entry as written by the user: [k |-> "plain", a] | [k |-> "cidr", a, n] | [k |-> "bad"] *)
Documented(e) == e.k \in {"plain", "cidr"}
NoNet == [a |-> <<>>, n |-> 0]
(* IpNet::from_str accepts `address/len` only *)
ParseEntry(e) ==
  CASE e.k = "cidr"  -> [ok |-> TRUE, net |-> [a |-> e.a, n |-> e.n]]
    [] e.k = "plain" -> IF PlainAccepted THEN [ok |-> TRUE, net |-> [a |-> e.a, n |-> Len(e.a)]]
                                         ELSE [ok |-> FALSE, net |-> NoNet]
    [] OTHER         -> [ok |-> FALSE, net |-> NoNet]
(* the builder chain stops at the first Err *)
FirstBad(es) == LET B == {i \in DOMAIN es : ~ParseEntry(es[i]).ok}
                IN IF B = {} THEN 0 ELSE CHOOSE i \in B : \A j \in B : i <= j
(* allowed_addresses.get_or_insert(vec![]).push(net): None iff no entry was added *)
AllowOf(es) == [some |-> es # <<>>, nets |-> [i \in DOMAIN es |-> ParseEntry(es[i]).net]]
NoAllow == [some |-> FALSE, nets |-> <<>>]

(* builder call histories: [op |-> "listen"] (with_http_listener(addr)), [op |-> "allow", e |-> entry] (add_allowed_address),
   [op |-> "other"] (any setter that does not concern the exporter configuration).  The builder keeps the allowlist in a
   field of its own: with_http_listener only replaces the listen address, in whatever order the calls are made. *)
IsAllow(c) == c.op = "allow"
IsListen(c) == c.op = "listen"
LastListen(h) == LET L == {i \in DOMAIN h : IsListen(h[i])} IN IF L = {} THEN 0 ELSE CHOOSE i \in L : \A j \in L : j <= i
AllowsFrom(h, k) == LET t == SelectSeq(SubSeq(h, k + 1, Len(h)), IsAllow) IN [i \in DOMAIN t |-> t[i].e]
(* every entry the user added, in order: what the property calls "the listed networks" *)
Listed(h) == AllowsFrom(h, 0)
(* what the builder hands to the exporter *)
InForce(h) == IF ListenerSetterResetsAllowlist THEN AllowsFrom(h, LastListen(h)) ELSE Listed(h)

(* check_tcp_allowed *)
Allowed(al, p) == IF ~al.some THEN TRUE ELSE \E i \in DOMAIN al.nets : Contains(al.nets[i], p)

(* the property's reading of the configuration: entries in their documented meaning *)
InEntry(e, p) == IF e.k = "plain" THEN e.a = p ELSE ContainsLaw([a |-> e.a, n |-> e.n], p)
Denied(es, p) == es # <<>> /\ \A i \in DOMAIN es : ~InEntry(es[i], p)

(* responses: [st, body, v]; body is a class: "empty" | "ok" | "expo" (a parsable rendering showing the counter at v) *)
IsHealth(path) == path \in {"health", "healthq"}       \* req.uri().path() == "/health" (a query is not part of the path)
R403 == [st |-> 403, body |-> "empty", v |-> -1]
R400 == [st |-> 400, body |-> "empty", v |-> -1]
Handle(isAllowed, path, v) ==
  IF isAllowed THEN IF IsHealth(path) THEN [st |-> 200, body |-> "ok", v |-> -1]
                                      ELSE [st |-> 200, body |-> "expo", v |-> v]
  ELSE R403

-----------------------------------------------------------------------------
(* connections *)
NoPeer == <<>>
Free == [st |-> "free", peer |-> NoPeer, acc |-> FALSE, allowed |-> FALSE, q |-> <<>>, eof |-> FALSE,
         sdead |-> FALSE, clean |-> TRUE]
Fresh(p) == [Free EXCEPT !.st = "open", !.peer = p]
NoResp == [c |-> 0, peer |-> NoPeer, path |-> "", clean |-> FALSE, lo |-> 0, r |-> [st |-> 0, body |-> "", v |-> -1]]

GetItem(path, lo) == [t |-> "get", path |-> path, lo |-> lo]
PartItem(path, lo) == [t |-> "partial", path |-> path, lo |-> lo]
GarbItem == [t |-> "garbage", path |-> "", lo |-> 0]
LastIsPartial(cn) == IF cn.q = <<>> THEN FALSE ELSE cn.q[Len(cn.q)].t = "partial"
HasGarbage(cn) == \E i \in DOMAIN cn.q : cn.q[i].t = "garbage"
(* nothing is sent behind garbage (the server closes there) or into a half-sent request *)
CanSend(cn) == cn.st = "open" /\ ~cn.eof /\ ~LastIsPartial(cn) /\ ~HasGarbage(cn) /\ Len(cn.q) < MaxQ

(* the server's view of a connection once the accept loop took it: the allowlist decision is made here, once *)
AcceptedRec(cn) == IF cn.acc THEN cn ELSE [cn EXCEPT !.acc = TRUE, !.allowed = (cn.st = "open" /\ Allowed(allow, cn.peer))]
(* what the connection task can do next *)
HeadT(cn) == IF cn.q = <<>> THEN "none" ELSE cn.q[1].t
TaskCanStep(cn) ==
  /\ cn.acc /\ ~cn.sdead
  /\ \/ cn.st = "gone"
     \/ HeadT(cn) \in {"get", "garbage"}
     \/ cn.eof /\ HeadT(cn) \in {"none", "partial"}
(* a clean connection with a complete request at the head: the property says it is answered *)
PendingClean(c) == conn[c].st = "open" /\ conn[c].clean /\ ~conn[c].sdead /\ HeadT(conn[c]) = "get"

-----------------------------------------------------------------------------
(* configuration: the builder calls + build() *)
Setup(h) ==
  LET es == Listed(h)            \* every add_allowed_address call parses its argument; the chain stops at the first Err
      fb == FirstBad(es)
  IN
  /\ hist' = h
  /\ entries' = InForce(h)
  /\ built' = [ok |-> fb = 0, bad |-> fb]
  /\ allow' = IF fb = 0 THEN AllowOf(InForce(h)) ELSE NoAllow
  /\ dev_plain' = (fb # 0 /\ es[fb].k = "plain")
  /\ phase' = "run"
  /\ alive' = (fb = 0)      \* no exporter without a successful build
  /\ conn' = [c \in Conns |-> Free]
  /\ ctr' = 0 /\ last' = NoResp /\ busy' = 0 /\ nf' = 0 /\ ng' = 0 /\ nb' = 0

Running == phase = "run" /\ built.ok
Keep == UNCHANGED <<phase, hist, entries, built, allow, dev_plain>>
Quiet == last' = NoResp

(* client side *)
Connect(c, p) ==
  /\ Running /\ conn[c].st \in (IF Reuse THEN {"free", "gone"} ELSE {"free"}) /\ (Serial => busy # c)
  /\ conn' = [conn EXCEPT ![c] = Fresh(p)]
  /\ Quiet /\ Keep /\ UNCHANGED <<alive, ctr, busy, nf, ng, nb>>
SendGet(c, path) ==
  /\ Running /\ CanSend(conn[c]) /\ ng < MaxGets
  /\ conn' = [conn EXCEPT ![c].q = Append(@, GetItem(path, ctr))]
  /\ ng' = ng + 1 /\ Quiet /\ Keep /\ UNCHANGED <<alive, ctr, busy, nf, nb>>
SendPartial(c, path) ==      \* the first half of a request, then silence
  /\ Running /\ CanSend(conn[c]) /\ nf < MaxFaults
  /\ conn' = [conn EXCEPT ![c].q = Append(@, PartItem(path, ctr))]
  /\ nf' = nf + 1 /\ Quiet /\ Keep /\ UNCHANGED <<alive, ctr, busy, ng, nb>>
SendRest(c) ==               \* a slow client completes its request: it is an ordinary GET now
  /\ Running /\ conn[c].st = "open" /\ ~conn[c].eof /\ LastIsPartial(conn[c])
  /\ conn' = [conn EXCEPT ![c].q[Len(conn[c].q)].t = "get"]
  /\ Quiet /\ Keep /\ UNCHANGED <<alive, ctr, busy, nf, ng, nb>>
SendGarbage(c) ==            \* bytes that are not an HTTP request
  /\ Running /\ CanSend(conn[c]) /\ nf < MaxFaults
  /\ conn' = [conn EXCEPT ![c].q = Append(@, GarbItem), ![c].clean = FALSE]
  /\ nf' = nf + 1 /\ Quiet /\ Keep /\ UNCHANGED <<alive, ctr, busy, ng, nb>>
HalfClose(c) ==              \* shutdown(SHUT_WR)
  /\ Running /\ conn[c].st = "open" /\ ~conn[c].eof /\ nf < MaxFaults
  /\ conn' = [conn EXCEPT ![c].eof = TRUE, ![c].clean = FALSE]
  /\ nf' = nf + 1 /\ Quiet /\ Keep /\ UNCHANGED <<alive, ctr, busy, ng, nb>>
Reset(c) ==                  \* RST: SO_LINGER 0 close, or close with unread data
  /\ Running /\ conn[c].st = "open" /\ nf < MaxFaults
  /\ conn' = [conn EXCEPT ![c].st = "gone", ![c].clean = FALSE, ![c].q = <<>>, ![c].eof = FALSE]
  /\ nf' = nf + 1 /\ Quiet /\ Keep /\ UNCHANGED <<alive, ctr, busy, ng, nb>>
Close(c) ==                  \* orderly close by the client
  /\ Running /\ conn[c].st = "open"
  /\ conn' = [conn EXCEPT ![c].st = "gone", ![c].clean = FALSE, ![c].q = <<>>, ![c].eof = FALSE]
  /\ Quiet /\ Keep /\ UNCHANGED <<alive, ctr, busy, nf, ng, nb>>
BumpBy(n) ==                 \* the application increments its counter
  /\ Running /\ ctr' = ctr + n
  /\ Quiet /\ Keep /\ UNCHANGED <<alive, conn, busy, nf, ng, nb>>
Bump == nb < MaxBumps /\ nb' = nb + 1 /\ Running /\ ctr' = ctr + 1 /\ Quiet /\ Keep /\ UNCHANGED <<alive, conn, busy, nf, ng>>

(* server side *)
AcceptEnabled(c) == Running /\ alive /\ conn[c].st \in {"open", "gone"} /\ ~conn[c].acc /\ (Serial => busy = 0)
ServeEnabled(c) == Running /\ TaskCanStep(conn[c]) /\ (Serial => busy = c)
Accept(c) ==                 \* one iteration of serve_tcp's loop + check_tcp_allowed + spawn
  /\ AcceptEnabled(c)
  /\ conn' = [conn EXCEPT ![c] = AcceptedRec(@)]
  /\ busy' = IF Serial THEN c ELSE busy
  /\ Quiet /\ Keep /\ UNCHANGED <<alive, ctr, nf, ng, nb>>
AcceptError ==               \* listener.accept() returned Err: warn!, continue
  /\ Running /\ alive
  /\ alive' = ~ExitOnError
  /\ Quiet /\ Keep /\ UNCHANGED <<conn, ctr, busy, nf, ng, nb>>

(* the connection task of slot c makes one step. errs: the task ended with Err (warn! only) *)
TaskEnds(c, errs) ==
  /\ alive' = IF errs /\ ExitOnError THEN FALSE ELSE alive
  /\ busy' = IF Serial /\ busy = c THEN 0 ELSE busy
Answer(c) ==                 \* handle_http_request on the request at the head
  LET cn == conn[c] IN
  /\ cn.st = "open" /\ HeadT(cn) = "get"
  /\ last' = [c |-> c, peer |-> cn.peer, path |-> cn.q[1].path, clean |-> cn.clean, lo |-> cn.q[1].lo,
              r |-> Handle(cn.allowed, cn.q[1].path, ctr)]
  /\ conn' = [conn EXCEPT ![c].q = Tail(@)]
  /\ UNCHANGED <<alive, busy>>
DropOnEof(c) ==              \* http1 half_close = false: EOF seen while a response is outstanding, or idle / mid-request
  LET cn == conn[c] IN
  /\ cn.st = "open" /\ cn.eof
  /\ conn' = [conn EXCEPT ![c].sdead = TRUE, ![c].q = <<>>]
  /\ Quiet /\ TaskEnds(c, cn.q # <<>>)
BadRequest(c) ==             \* hyper: parse error -> 400 Bad Request, connection closed, task returns Err
  LET cn == conn[c] IN
  /\ cn.st = "open" /\ HeadT(cn) = "garbage"
  /\ last' = [c |-> c, peer |-> cn.peer, path |-> "", clean |-> FALSE, lo |-> 0, r |-> R400]
  /\ conn' = [conn EXCEPT ![c].sdead = TRUE, ![c].q = <<>>]
  /\ TaskEnds(c, TRUE)
PeerGone(c) ==               \* the client reset / closed: read or write fails, the task ends
  /\ conn[c].st = "gone"
  /\ conn' = [conn EXCEPT ![c].sdead = TRUE]
  /\ Quiet /\ TaskEnds(c, TRUE)
Serve(c) ==
  /\ ServeEnabled(c)
  /\ Answer(c) \/ DropOnEof(c) \/ BadRequest(c) \/ PeerGone(c)
  /\ Keep /\ UNCHANGED <<ctr, nf, ng, nb>>

Configure == phase = "none" /\ \E h \in Configs : Setup(h)
Next ==
  \/ Configure
  \/ \E c \in Conns :
       \/ \E p \in Peers : Connect(c, p)
       \/ \E path \in Paths : SendGet(c, path) \/ SendPartial(c, path)
       \/ SendRest(c) \/ SendGarbage(c) \/ HalfClose(c) \/ Reset(c) \/ Close(c)
       \/ Accept(c) \/ Serve(c)
  \/ Bump
  \/ AcceptError

Init ==
  /\ phase = "none" /\ hist = <<>> /\ entries = <<>> /\ built = [ok |-> FALSE, bad |-> 0] /\ allow = NoAllow /\ alive = FALSE
  /\ conn = [c \in Conns |-> Free] /\ ctr = 0 /\ last = NoResp /\ busy = 0 /\ nf = 0 /\ ng = 0 /\ nb = 0
  /\ dev_plain = FALSE

Spec == Init /\ [][Next]_vars
FairSpec == Spec /\ \A c \in Conns : WF_vars(Accept(c)) /\ WF_vars(Serve(c))

-----------------------------------------------------------------------------
(* the property *)
TypeOK ==
  /\ phase \in {"none", "run"} /\ alive \in BOOLEAN /\ dev_plain \in BOOLEAN /\ ctr \in Nat
  /\ built.ok \in BOOLEAN /\ built.bad \in 0..Len(Listed(hist))
  /\ \A c \in Conns : /\ conn[c].st \in {"free", "open", "gone"}
                      /\ conn[c].acc \in BOOLEAN /\ conn[c].allowed \in BOOLEAN /\ conn[c].eof \in BOOLEAN
                      /\ conn[c].sdead \in BOOLEAN /\ conn[c].clean \in BOOLEAN
                      /\ \A i \in DOMAIN conn[c].q : conn[c].q[i].t \in {"get", "partial", "garbage"}

(* entries in the documented syntax (plain address or CIDR) are accepted -- or it is exactly deviation CF18 *)
InvDocumentedSyntax ==
  phase = "run" /\ (\A i \in DOMAIN Listed(hist) : Documented(Listed(hist)[i])) => built.ok \/ dev_plain
InvStrictSyntax == ~dev_plain
(* the builder rejects what is not an address or a subnet, at the first such entry *)
InvBuildResult ==
  phase = "run" => /\ built.ok = (built.bad = 0)
                   /\ (built.bad # 0 /\ ~dev_plain => ~Documented(Listed(hist)[built.bad]))
                   /\ \A i \in 1..(IF built.bad = 0 THEN Len(Listed(hist)) ELSE built.bad - 1) : Documented(Listed(hist)[i])

(* every entry added to the builder is in force at build(), wherever in the call chain the listen address was set *)
InvAllowlistInForce == phase = "run" /\ built.ok => entries = Listed(hist)
(* a request on a connection without client-side faults gets exactly: 403/empty iff an allowlist is configured and the
   peer is in none of its networks; otherwise 200 with OK on /health and a current rendering elsewhere *)
InvDecision ==
  last.c # 0 /\ last.clean =>
    IF Denied(Listed(hist), last.peer) THEN last.r = R403
    ELSE /\ last.r.st = 200
         /\ IsHealth(last.path) => last.r.body = "ok"
         /\ ~IsHealth(last.path) => last.r.body = "expo" /\ last.lo <= last.r.v /\ last.r.v <= ctr
(* whatever the client did to its connection: a peer outside every listed network never gets anything but an empty body *)
InvNoLeak ==
  last.c # 0 /\ Denied(Listed(hist), last.peer) => last.r.body = "empty" /\ last.r.st # 200
(* the decision the server holds for an accepted open connection is the one the configuration prescribes *)
InvPerConnection ==
  \A c \in Conns : conn[c].st = "open" /\ conn[c].acc => (conn[c].allowed = ~Denied(Listed(hist), conn[c].peer))
(* the two readings of containment agree (exhaustive scopes only: arithmetic on W bits) *)
InvContainsAgree ==
  phase = "run" /\ built.ok /\ (\A c \in Conns : conn[c].st = "free") =>
    \A i \in DOMAIN allow.nets : \A p \in Peers : ContainsCode(allow.nets[i], p) = ContainsLaw(allow.nets[i], p)
(* faults on other connections never stop the listener: a pending well-formed request can always make progress *)
InvListening == Running => alive
InvServable ==
  \A c \in Conns : PendingClean(c) => IF conn[c].acc THEN ServeEnabled(c) ELSE AcceptEnabled(c)     \* = ENABLED Serve(c) / ENABLED Accept(c)
(* ... and is eventually answered (or withdrawn by its own client) *)
LiveServed == \A c \in Conns : PendingClean(c) ~> ~PendingClean(c)
=============================================================================
