SPECIFICATION TraceSpec
CONSTANTS
 W = 32
 Conns = {1,2,3,4,5,6,7,8,9,10,11,12,13,14,15,16,17,18,19,20,21,22,23,24,25,26,27,28,29,30}
 Peers <- NoPeers
 Paths = {}
 Configs <- NoConfigs
 PlainAccepted = FALSE
 ListenerSetterResetsAllowlist = FALSE
 MaxFaults = 1000000000
 MaxGets = 1000000000
 MaxBumps = 0
 MaxQ = 1000000
 Reuse = TRUE
 ExitOnError = FALSE
 Serial = FALSE
 Contains <- ContainsLaw
INVARIANTS TypeOK InvDocumentedSyntax InvBuildResult InvAllowlistInForce InvDecision InvNoLeak InvPerConnection InvListening InvServable
POSTCONDITION TraceAccepted
CHECK_DEADLOCK FALSE
