-------------------------- MODULE MCScrapeEndpoint --------------------------
(* Exhaustive scopes for ScrapeEndpoint.tla (nested values cannot be written in a .cfg) and the   *)
(* export of every configuration of a scope as a REPLAY line for the harness (spec -> impl).      *)
EXTENDS ScrapeEndpoint, Json
CONSTANTS
  ConfigMode,   \* which allowlist configurations: "all2" | "all1" | "aligned2" | "fault"
  PeerMode,     \* "all" | "two"
  MaxCalls      \* ConfigMode "hist": builder call histories of at most this many calls

AllAddrs == AddrsOf(W)
Cidr(a, n) == [k |-> "cidr", a |-> a, n |-> n]
Plain(a) == [k |-> "plain", a |-> a, n |-> W]
BadEntry == [k |-> "bad", a |-> <<>>, n |-> 0]
CidrEntries == {Cidr(a, n) : a \in AllAddrs, n \in 0..W}
(* entries whose host bits are zero (a proper network address) *)
AlignedCidr == {e \in CidrEntries : \A i \in (e.n + 1)..W : e.a[i] = 0}
PlainEntries == {Plain(a) : a \in AllAddrs}
Seqs2(E) == {<<>>} \cup {<<e>> : e \in E} \cup {<<e1, e2>> : e1 \in E, e2 \in E}
Seqs1(E) == {<<>>} \cup {<<e>> : e \in E}

Zeros == [i \in 1..W |-> 0]
Bits(i) == [j \in 1..W |-> (i \div Pow2(W - j)) % 2]
(* fault scopes: no allowlist, a half-space, nested blocks with host bits set *)
FaultConfigs == {<<>>, <<Cidr(Bits(Pow2(W - 1)), 1)>>, <<Cidr(Bits(5), 2), Cidr(Bits(6), 3)>>}

(* builder calls *)
NoEntry == [k |-> "none", a |-> <<>>, n |-> 0]
CallListen == [op |-> "listen", e |-> NoEntry]
CallOther == [op |-> "other", e |-> NoEntry]
CallAllow(e) == [op |-> "allow", e |-> e]
(* the usual chain: with_http_listener(addr) first, then the entries *)
Std(es) == <<CallListen>> \o [i \in DOMAIN es |-> CallAllow(es[i])]
(* every history of <= MaxCalls calls over: set the listen address, an unrelated setter, two different entries
   (a quarter of the space written with host bits set; one host written as a plain address) *)
HistAlphabet == {CallListen, CallOther, CallAllow(Cidr(Bits(5), 2)), CallAllow(Plain(Bits(9)))}
Histories == UNION {[1..n -> HistAlphabet] : n \in 0..MaxCalls}

MCConfigs ==
  CASE ConfigMode = "all2"     -> {Std(es) : es \in Seqs2(CidrEntries \cup PlainEntries \cup {BadEntry})}
    [] ConfigMode = "all1"     -> {Std(es) : es \in Seqs1(CidrEntries \cup PlainEntries \cup {BadEntry})}
    [] ConfigMode = "aligned2" -> {Std(es) : es \in Seqs2(AlignedCidr \cup PlainEntries)}
    [] ConfigMode = "cidr2"    -> {Std(es) : es \in Seqs2(CidrEntries)}
    [] ConfigMode = "fault"    -> {Std(es) : es \in FaultConfigs}
    [] ConfigMode = "nested"   -> {Std(<<Cidr(Bits(5), 2), Cidr(Bits(6), 3)>>)}
    [] ConfigMode = "hist"     -> Histories
MCPeers == IF PeerMode = "all" THEN AllAddrs ELSE {Bits(6), Bits(Pow2(W) - 1)}

(* the decision scope: every configuration x every peer x every path, one well-formed request on one connection *)
DecNext ==
  \/ Configure
  \/ \E p \in Peers : conn[1].st = "free" /\ Connect(1, p)
  \/ Accept(1)
  \/ \E path \in Paths : conn[1].acc /\ SendGet(1, path)
  \/ Serve(1)
DecSpec == Init /\ [][DecNext]_vars

(* spec -> impl: one line per configuration of the scope; the harness builds an exporter for it and   *)
(* asks from every peer address, TraceScrapeEndpoint re-evaluates every answer                        *)
ConnSym == Permutations(Conns)
ExportNext == Configure
ExportSpec == Init /\ [][ExportNext]_vars
Emit == phase = "run" => PrintT(<<"REPLAY", ToJson([hist |-> hist])>>)
=============================================================================
