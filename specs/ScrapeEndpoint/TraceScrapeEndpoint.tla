------------------------- MODULE TraceScrapeEndpoint -------------------------
(* Trace validation for C18.  Every line of the ndjson trace written by harness/src/bin/c18.rs is one   *)
(* thing the harness did to, or saw from, a real HttpListeningExporter over loopback sockets:            *)
(*   reset     a new exporter: the calls made on the builder in order (with_http_listener / other setter / *)
(*             add_allowed_address(entry)) and what the chain answered (ok / index, among the              *)
(*             add_allowed_address calls, of the rejected entry)                                          *)
(*   connect / get / partial / rest / garbage / halfclose / rst / close / bump     client-side steps      *)
(*   resp      a complete HTTP response read on a connection (status, body class, counter value shown)    *)
(*   closed    the server closed the connection / the read failed with a reset                            *)
(*   timeout   nothing arrived within the deadline                                                        *)
(* Client steps are the actions of ScrapeEndpoint.tla.  The server's steps are not logged: `resp` is     *)
(* Accept (if the connection was not accepted yet) followed by the Serve step that emits a response,     *)
(* `closed` is Accept + a Serve step that ends the task.  Addresses are logged as their 32 bits.         *)
(* Events of concurrent scrapers are grouped per connection (connections do not interact in the          *)
(* specification, so any order that keeps each connection's own order is a behaviour); their `resp`      *)
(* carries the harness's bounds lo/hi of the counter (completed increments before the request was sent,  *)
(* started increments when the response had arrived).                                                    *)
(* Anything else (refused / timeout on a healthy connection / panic) is not a behaviour: rejected.       *)
EXTENDS ScrapeEndpoint, Json, IOUtils, TLCExt
VARIABLE l
Rec == ndJsonDeserialize(IOEnv.TRACE)
tvars == <<vars, l>>

E == Rec[l]
Step == l' = l + 1
Known(tag, what) == PrintT(<<"KNOWN", tag, what>>)
NoConfigs == {}
NoPeers == {}

Reject(why) == Print(<<"MISMATCH at line", l, why>>, FALSE)

(* a new exporter; the builder's answer must be the specification's *)
TReset ==
  /\ Setup(E.hist)
  /\ IF E.ok = built'.ok /\ E.bad = built'.bad THEN TRUE
     ELSE Reject(<<"builder answered", E.ok, E.bad, "specification", built'.ok, built'.bad>>)
  /\ IF dev_plain'            \* deviation CF18: reported once per validation run
     THEN (IF TLCGet(18) = 0 THEN Known("CF18", Listed(E.hist)[E.bad].s) ELSE TRUE) /\ TLCSet(18, 1)
     ELSE TRUE

Max(a, b) == IF a >= b THEN a ELSE b

(* Accept (if needed) . Serve emitting a response *)
TResp ==
  LET c == E.c
      cn == AcceptedRec(conn[c])
      r == [st |-> E.st, body |-> E.body, v |-> E.v]
  IN
  /\ Running /\ alive /\ cn.st = "open" /\ ~cn.sdead
  /\ CASE HeadT(cn) = "get" ->
            LET it == cn.q[1]
                vlo == IF E.par THEN E.lo ELSE it.lo
                vhi == IF E.par THEN E.hi ELSE ctr
                want == Handle(cn.allowed, it.path, r.v)
            IN /\ IF r = want /\ (r.body = "expo" => vlo <= r.v /\ r.v <= vhi) THEN TRUE
                  ELSE Reject(<<"response", r, "expected", want, "counter within", vlo, vhi>>)
               /\ last' = [c |-> c, peer |-> cn.peer, path |-> it.path, clean |-> cn.clean, lo |-> vlo, r |-> r]
               /\ conn' = [conn EXCEPT ![c] = [cn EXCEPT !.q = Tail(cn.q)]]
               /\ ctr' = IF E.par THEN Max(ctr, E.hi) ELSE ctr
       [] HeadT(cn) = "garbage" ->
               /\ IF r = R400 THEN TRUE ELSE Reject(<<"response to garbage", r>>)
               /\ last' = [c |-> c, peer |-> cn.peer, path |-> "", clean |-> FALSE, lo |-> 0, r |-> r]
               /\ conn' = [conn EXCEPT ![c] = [cn EXCEPT !.sdead = TRUE, !.q = <<>>]]
               /\ ctr' = ctr
       [] OTHER -> Reject(<<"a response without a request", r>>)
  /\ Keep /\ UNCHANGED <<alive, busy, nf, ng, nb>>

(* Accept (if needed) . Serve ending the task: only after the client's own fault on this connection *)
TClosed ==
  LET c == E.c
      cn == AcceptedRec(conn[c])
  IN
  /\ Running /\ cn.st = "open"
  /\ IF cn.sdead \/ cn.eof \/ HasGarbage(cn) THEN TRUE ELSE Reject("the server closed a healthy connection")
  /\ conn' = [conn EXCEPT ![c] = [cn EXCEPT !.sdead = TRUE, !.q = <<>>]]
  /\ Quiet /\ Keep /\ UNCHANGED <<alive, ctr, busy, nf, ng, nb>>

(* silence is tolerated only on a connection the client itself broke (the property is about later clients) *)
TTimeout ==
  /\ Running /\ conn[E.c].st = "open"
  /\ IF ~conn[E.c].clean THEN TRUE ELSE Reject("no answer on a healthy connection within the deadline")
  /\ UNCHANGED vars

TraceNext ==
  /\ l <= Len(Rec)
  /\ Step
  /\ CASE E.ev = "reset"     -> TReset
       [] E.ev = "connect"   -> Connect(E.c, E.peer)
       [] E.ev = "get"       -> SendGet(E.c, E.path)
       [] E.ev = "partial"   -> SendPartial(E.c, E.path)
       [] E.ev = "rest"      -> SendRest(E.c)
       [] E.ev = "garbage"   -> SendGarbage(E.c)
       [] E.ev = "halfclose" -> HalfClose(E.c)
       [] E.ev = "rst"       -> Reset(E.c)
       [] E.ev = "close"     -> Close(E.c)
       [] E.ev = "bump"      -> BumpBy(E.n)
       [] E.ev = "resp"      -> TResp
       [] E.ev = "closed"    -> TClosed
       [] E.ev = "timeout"   -> TTimeout
       [] OTHER -> FALSE     \* refused / connect timeout / panic / unknown: not a behaviour

TraceInit == Init /\ l = 1 /\ TLCSet(18, 0)
TraceSpec == TraceInit /\ [][TraceNext]_tvars
TraceAccepted ==
  LET d == TLCGet("stats").diameter IN
  IF d - 1 = Len(Rec) THEN TRUE
  ELSE Print(<<"TRACE REJECTED at line", d, Rec[d]>>, FALSE)
=============================================================================
