-------------------------- MODULE SimScrapeEndpoint --------------------------
(* Spec -> implementation: behaviours of ScrapeEndpoint.tla (TLC -simulate) printed as client programs. *)
(* Only the client's steps are a program (the harness cannot schedule the server): a server step that    *)
(* emits a response becomes `read` (the client reads one response there), the other server steps are     *)
(* left to the real server.  The harness executes the program on real sockets against a real exporter,   *)
(* appends a well-formed GET on a fresh connection per peer, and the recorded run is validated by        *)
(* TraceScrapeEndpoint.                                                                                   *)
EXTENDS MCScrapeEndpoint
CONSTANT MaxOps
VARIABLE prog
Op(o, c, p, path) == [op |-> o, c |-> c, peer |-> p, path |-> path]
Rec1(o, c) == prog' = Append(prog, Op(o, c, <<>>, ""))
SimInit == Init /\ prog = <<>>
SimDone == phase = "run" /\ (Len(prog) >= MaxOps \/ ~built.ok)
SimNext ==
  /\ ~SimDone
  /\ \/ Configure /\ prog' = prog
     \/ \E c \in Conns :
          \/ \E p \in Peers : Connect(c, p) /\ prog' = Append(prog, Op("connect", c, p, ""))
          \/ \E path \in Paths : SendGet(c, path) /\ prog' = Append(prog, Op("get", c, <<>>, path))
          \/ \E path \in Paths : SendPartial(c, path) /\ prog' = Append(prog, Op("partial", c, <<>>, path))
          \/ SendRest(c) /\ Rec1("rest", c)
          \/ SendGarbage(c) /\ Rec1("garbage", c)
          \/ HalfClose(c) /\ Rec1("halfclose", c)
          \/ Reset(c) /\ Rec1("rst", c)
          \/ Close(c) /\ Rec1("close", c)
          \/ Accept(c) /\ prog' = prog
          \/ Serve(c) /\ (IF last'.c # 0 THEN Rec1("read", c) ELSE prog' = prog)
     \/ Bump /\ prog' = Append(prog, Op("bump", 0, <<>>, ""))
SimSpec == SimInit /\ [][SimNext]_<<vars, prog>>
SimEmit == SimDone => PrintT(<<"REPLAY", ToJson([hist |-> hist, ops |-> prog])>>)
=============================================================================
