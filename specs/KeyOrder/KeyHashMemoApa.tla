--------------------------- MODULE KeyHashMemoApa ---------------------------
(***************************************************************************)
(* Unbounded safety argument for KeyHashMemo.tla with Apalache: a typed    *)
(* wrapper (actions and invariants are those of KeyHashMemo.tla, brought   *)
(* in by INSTANCE, nothing is copied) plus an inductive invariant IndInv.  *)
(* Obligations, run by checks/unbounded_keyhashmemo.py:                    *)
(*   (a) Init => IndInv             --init=Init   --inv=IndInv --length=0  *)
(*   (b) IndInv /\ Next => IndInv'  --init=IndInv --inv=IndInv --length=1  *)
(*   (c) IndInv => Safety           --init=IndInv --inv=Safety --length=0  *)
(* for ALL disjoint sets Getters, Cloners of integers with at most n       *)
(* elements each (ConstInit<n>), ALL NCalls >= 1 and every non-empty       *)
(* InitKinds \subseteq {"static", "built"}.                                *)
(* NCalls >= 1: TypeOK of KeyHashMemo.tla says cnt[t] \in 0..NCalls for    *)
(* cloners too, and a cloner finishes with cnt = 1.                        *)
(***************************************************************************)
EXTENDS Integers, FiniteSets, Apalache

CONSTANTS
  \* @type: Set(Int);
  Getters,
  \* @type: Set(Int);
  Cloners,
  \* @type: Int;
  NCalls,
  \* @type: Set(Str);
  InitKinds

VARIABLES
  \* @type: Bool;
  hashed,
  \* @type: Int;
  hash,
  \* @type: Int -> Str;
  pc,
  \* @type: Int -> Int;
  cnt,
  \* @type: Int -> Int;
  ret,
  \* @type: Int -> Bool;
  ch,
  \* @type: Int -> Int;
  cv,
  \* @type: Bool;
  retok

INSTANCE KeyHashMemo

CInit(n) ==
  /\ Getters = Gen(n)
  /\ Cloners = Gen(n)
  /\ Getters \cap Cloners = {}
  /\ NCalls = Gen(1)
  /\ NCalls >= 1
  /\ InitKinds \in SUBSET {"static", "built"}
  /\ InitKinds # {}
ConstInit4 == CInit(4)
ConstInit6 == CInit(6)
ConstInit8 == CInit(8)
ConstInit12 == CInit(12)

TypeInv ==
  /\ hashed \in BOOLEAN
  /\ hash \in {0, HV}
  /\ pc \in [Threads -> {"lh", "lv", "sv", "sh", "c1", "c2", "cr", "done"}]
  /\ cnt \in [Threads -> Int]
  /\ ret \in [Threads -> {HV, None}]
  /\ ch \in [Cloners -> BOOLEAN]
  /\ cv \in [Cloners -> {0, HV}]
  /\ retok \in BOOLEAN

\* the flag never runs ahead of the value; a thread past a load of TRUE, or past its own store, sees H(k)
MemoInv ==
  /\ hashed => hash = HV
  /\ retok
  /\ \A t \in Getters :
       /\ pc[t] \in {"lh", "lv", "sv", "sh"}
       /\ pc[t] = "lv" => hashed
       /\ pc[t] = "sh" => hash = HV
       /\ cnt[t] >= 0 /\ cnt[t] <= NCalls
       /\ pc[t] \in {"lv", "sv", "sh"} => cnt[t] < NCalls
  /\ \A t \in Cloners :
       /\ pc[t] \in {"c1", "c2", "cr", "done"}
       /\ (pc[t] = "c2" /\ ch[t]) => hashed
       /\ (pc[t] \in {"cr", "done"} /\ ch[t]) => cv[t] = HV
       /\ cnt[t] = (IF pc[t] = "done" THEN 1 ELSE 0)
       /\ pc[t] # "done" => ret[t] = None

IndInv == TypeInv /\ MemoInv

\* the invariants checks/c03.py gives to TLC for this module
Safety == TypeOK /\ RetOK /\ MemoOK /\ CloneOK

\* Next plus stuttering: a finished run is not a deadlock
NextS == Next \/ UNCHANGED vars
=============================================================================
