------------------------------ MODULE KeyOrder ------------------------------
(***************************************************************************)
(* metrics/src/key.rs: `impl PartialEq for Key`, `impl Ord for Key` and    *)
(* `key_hasher_impl` (behind `impl Hash for Key` and `get_hash`),          *)
(* transcribed with their case analysis intact.                            *)
(*                                                                         *)
(* Strings are integers: the integer order IS the order of the strings     *)
(* (`str: Ord` = byte-wise = code-point-wise for UTF-8).  The conformance  *)
(* side (TraceKeyOrder) computes these integers as ranks of the logged     *)
(* code-point arrays, so the order is recomputed by TLC, not trusted.      *)
(*                                                                         *)
(*   label  <<k, v>>            metrics::Label(key, value)                 *)
(*   key    [name, labels]      metrics::Key { name, labels }              *)
(*                                                                         *)
(* `Label` derives PartialEq/Eq/Ord/Hash over (key, value); `Cow<str>`     *)
(* delegates ==, cmp and hash to the `str` it derefs to (cow.rs), so the   *)
(* representation (borrowed / owned / shared) is invisible here.           *)
(***************************************************************************)
EXTENDS Integers, Sequences, FiniteSets

CONSTANTS T8,          \* the "fewer than 8 labels" threshold (8 in the code; shrunk in exhaustive runs), >= 3
          CF03Fixed    \* TRUE: Ord::cmp as in the tree today (with the `2 =>` arm added by the fix of CF03, /repo 9973904).
                       \* FALSE: Ord::cmp before that fix (no arm for two labels) - kept to study / re-detect the defect

LT == -1
EQ == 0
GT == 1

IntCmp(x, y) == IF x < y THEN LT ELSE IF x = y THEN EQ ELSE GT
StrCmp(x, y) == IntCmp(x, y)

(* #[derive(PartialOrd, Ord)] on Label(key, value): lexicographic *)
LabelCmp(p, q) == IF StrCmp(p[1], q[1]) # EQ THEN StrCmp(p[1], q[1]) ELSE StrCmp(p[2], q[2])
LabelLt(p, q) == LabelCmp(p, q) = LT
(* #[derive(PartialEq)] *)
LabelEq(p, q) == p[1] = q[1] /\ p[2] = q[2]

SetMin(S) == CHOOSE x \in S : \A y \in S : x <= y

(* `labels_sort_map[..n].sort_by_key(|i| labels[*i].key())`: a STABLE sort of the index map by label
   NAME only; labels with the same name keep the order in which they were supplied. *)
SortMap(ls) ==
  LET n == Len(ls)
      Pos(i) == Cardinality({j \in 1..n : ls[j][1] < ls[i][1] \/ (ls[j][1] = ls[i][1] /\ j < i)}) + 1
  IN [r \in 1..n |-> CHOOSE i \in 1..n : Pos(i) = r]
SortedByName(ls) == LET m == SortMap(ls) IN [r \in 1..Len(ls) |-> ls[m[r]]]

(* A key prepared for comparison: the by-name order is computed once per key (as each impl does) *)
Prep(k) == [name |-> k.name, labels |-> k.labels, byname |-> SortedByName(k.labels)]
SmallSorted(p) == p.byname      \* `n if n < 8`: [u8; 8] index map
LargeSorted(p) == p.byname      \* `n`: Vec<usize> index map, same sort key

(* ---------------------------------------------------------------- key_hasher_impl *)
HashOrder(p) ==
  LET ls == p.labels
      n == Len(ls)
  IN CASE n = 0 -> <<>>
       [] n = 1 -> ls
       [] n = 2 -> IF LabelLt(ls[1], ls[2]) THEN ls ELSE <<ls[2], ls[1]>>     \* FULL label order here
       [] n > 2 /\ n < T8 -> SmallSorted(p)
       [] OTHER -> LargeSorted(p)
(* what is fed to the hasher: name, labels.len(), then every label (key, value) in HashOrder *)
HashSeqK(p) ==
  LET ho == HashOrder(p)
  IN <<p.name, Len(p.labels)>> \o [x \in 1..(2 * Len(ho)) |-> ho[(x + 1) \div 2][IF x % 2 = 1 THEN 1 ELSE 2]]

(* ---------------------------------------------------------------- PartialEq::eq *)
SeqAllEq(sa, sb) == \A i \in 1..Len(sa) : LabelEq(sa[i], sb[i])
EqK(p, q) ==
  LET la == p.labels
      lb == q.labels
      n == Len(la)
  IN IF p.name # q.name THEN FALSE
     ELSE IF Len(la) # Len(lb) THEN FALSE
     ELSE CASE n = 0 -> TRUE
            [] n = 1 -> LabelEq(la[1], lb[1])
            [] n = 2 -> IF LabelEq(la[1], lb[1]) THEN LabelEq(la[2], lb[2])
                        ELSE IF LabelEq(la[1], lb[2]) THEN LabelEq(la[2], lb[1])
                        ELSE FALSE
            [] n > 2 /\ n < T8 -> SeqAllEq(SmallSorted(p), SmallSorted(q))
            [] OTHER -> SeqAllEq(LargeSorted(p), LargeSorted(q))

(* ---------------------------------------------------------------- Ord::cmp *)
(* first position where the labels differ decides *)
SeqLexCmp(sa, sb) ==
  LET D == {i \in 1..Len(sa) : LabelCmp(sa[i], sb[i]) # EQ}
  IN IF D = {} THEN EQ ELSE LabelCmp(sa[SetMin(D)], sb[SetMin(D)])
(* `2 =>`: the two labels are compared in full-label (key, value) order, as key_hasher_impl orders them *)
Pair2(ls) == IF LabelCmp(ls[1], ls[2]) = GT THEN <<ls[2], ls[1]>> ELSE ls
CmpK(p, q) ==
  LET la == p.labels
      lb == q.labels
      n == Len(la)
      first == IF StrCmp(p.name, q.name) # EQ THEN StrCmp(p.name, q.name) ELSE IntCmp(Len(la), Len(lb))   \* (&name, len) tuple
  IN IF first # EQ THEN first
     ELSE CASE n = 0 -> EQ
            [] n = 1 -> LabelCmp(la[1], lb[1])
            [] n = 2 /\ CF03Fixed -> SeqLexCmp(Pair2(la), Pair2(lb))
            [] n > 1 /\ ~(n = 2 /\ CF03Fixed) /\ n < T8 -> SeqLexCmp(SmallSorted(p), SmallSorted(q))     \* before the fix: two labels took this arm
            [] OTHER -> SeqLexCmp(LargeSorted(p), LargeSorted(q))

(* on raw keys *)
Eq(a, b) == EqK(Prep(a), Prep(b))
Cmp(a, b) == CmpK(Prep(a), Prep(b))
HashSeq(k) == HashSeqK(Prep(k))

(* metrics-util CompositeKey(MetricKind, Key): #[derive(PartialEq, Ord)] = lexicographic (kind, key) *)
CEqK(ka, p, kb, q) == ka = kb /\ EqK(p, q)
CCmpK(ka, p, kb, q) == IF ka # kb THEN IntCmp(ka, kb) ELSE CmpK(p, q)

-----------------------------------------------------------------------------
(* The property, stated over arbitrary relations EE (==), CC (cmp), HH (same hash input) so that the
   exhaustive runs (tables) and the trace validation (logged keys) use the same sentences. *)
LawEqRefl(EE(_, _), a) == EE(a, a)
LawEqSym(EE(_, _), a, b) == EE(a, b) <=> EE(b, a)
LawEqTrans(EE(_, _), a, b, c) == (EE(a, b) /\ EE(b, c)) => EE(a, c)
LawCmpRefl(CC(_, _), a) == CC(a, a) = EQ
LawCmpAntisym(CC(_, _), a, b) == CC(a, b) \in {LT, EQ, GT} /\ CC(a, b) = -CC(b, a)
LawCmpTrans(CC(_, _), a, b, c) ==
  (CC(a, b) <= 0 /\ CC(b, c) <= 0) => (CC(a, c) <= 0 /\ ((CC(a, b) < 0 \/ CC(b, c) < 0) => CC(a, c) < 0))
LawEqCmp(EE(_, _), CC(_, _), a, b) == EE(a, b) <=> (CC(a, b) = EQ)
LawEqHash(EE(_, _), HH(_, _), a, b) == EE(a, b) => HH(a, b)

Elems(s) == {s[i] : i \in DOMAIN s}
Count(s, x) == Cardinality({i \in DOMAIN s : s[i] = x})
SameBag(s, t) == Len(s) = Len(t) /\ \A x \in Elems(s) \cup Elems(t) : Count(s, x) = Count(t, x)
DistinctNames(p) == \A i, j \in DOMAIN p.labels : i # j => p.labels[i][1] # p.labels[j][1]
(* q supplies the labels of p in another order *)
IsPerm(p, q) == p.name = q.name /\ SameBag(p.labels, q.labels)
LawPerm(EE(_, _), CC(_, _), HH(_, _), PP(_, _), a, b) == PP(a, b) => (EE(a, b) /\ CC(a, b) = EQ /\ HH(a, b))

(* Named deviation CF03 (genuine defect, FIXED in /repo 9973904; only reachable with CF03Fixed = FALSE):
   exactly two labels, both with the SAME label name and different values, supplied in opposite orders.
   `==` takes the pair as a multiset (true), the old `cmp` had no arm for two labels and compared them in
   the name-stable order = the order supplied (not Equal). *)
DevCF03(p, q) ==
  /\ ~CF03Fixed
  /\ p.name = q.name
  /\ Len(p.labels) = 2 /\ Len(q.labels) = 2
  /\ p.labels[1][1] = p.labels[2][1]
  /\ p.labels[1][2] # p.labels[2][2]
  /\ q.labels = <<p.labels[2], p.labels[1]>>
=============================================================================
