--------------------------- MODULE KeyHashMemoEq ---------------------------
(***************************************************************************)
(* KeyHashMemo.tla (get_hash memo + clone; variables and Next untouched -  *)
(* KeyHashMemoApa.tla / KeyHashMemoProof.tla instantiate that module) plus *)
(* COMPARER processes: threads that evaluate `k == other`,                 *)
(* `k.cmp(&other)` and the std Hash of both while the shared key k is      *)
(* being hashed for the first time.  `other` is either an EQUAL key        *)
(* (another construction path, its hash cached) or an unequal control.     *)
(*                                                                         *)
(* As coded, PartialEq / Ord / Hash for Key read NOTHING from the memo     *)
(* (key.rs: only name and labels): one step without any shared read, the   *)
(* result is the structural verdict of KeyOrder.tla.  The property demands *)
(* exactly that: the results of ==, cmp and Hash must not depend on the    *)
(* memo state, so "a == b <=> a.cmp(b) = Equal" holds for every            *)
(* evaluation, in every state, whatever the memo holds.                    *)
(*                                                                         *)
(* Witness constant EqReadsMemoValueFirst = TRUE models an eq() with a     *)
(* "cheap rejection" that loads the two cached hash VALUES first and the   *)
(* `hashed` FLAGS afterwards (two steps): TLC must reject it (checks/c03.py *)
(* runs that configuration every time and insists on the violation).       *)
(***************************************************************************)
EXTENDS KeyHashMemo

CONSTANTS Comparers,               \* thread ids (disjoint from Getters, Cloners), NCalls evaluations each
          EqReadsMemoValueFirst    \* FALSE: eq as coded.  TRUE: witness variant (must be rejected)

HV2 == 3              \* cached hash of the unequal control key
PairKinds == {"equal", "control"}
(* the verdicts of KeyOrder.tla for (k, other): nothing but name and labels *)
StructEq(kind) == IF kind = "equal" THEN 1 ELSE 0
StructCmp(kind) == IF kind = "equal" THEN 0 ELSE 1       \* 0 = Equal, 1 = not Equal
OtherHash(kind) == IF kind = "equal" THEN HV ELSE HV2    \* other was built by Key::builder: hashed, hash cached

VARIABLES
  qpc, qcnt,          \* per comparer: program counter, completed evaluations
  pk, cl,             \* per comparer: kind of `other` in the current evaluation, loaded k.hash (witness variant)
  eqres, cmpres,      \* per comparer: results of the last evaluation (None: none yet)
  eqok                \* history: every evaluation so far satisfied a == b <=> cmp = Equal

cvars == <<qpc, qcnt, pk, cl, eqres, cmpres, eqok>>
allvars == <<vars, cvars>>

CInitEq ==
  /\ qpc = [t \in Comparers |-> "q0"] /\ qcnt = [t \in Comparers |-> 0]
  /\ pk = [t \in Comparers |-> "equal"] /\ cl = [t \in Comparers |-> 0]
  /\ eqres = [t \in Comparers |-> None] /\ cmpres = [t \in Comparers |-> None]
  /\ eqok = TRUE
InitEq == Init /\ CInitEq

Evaluated(t, kind, e, c) ==
  /\ pk' = [pk EXCEPT ![t] = kind]
  /\ eqres' = [eqres EXCEPT ![t] = e] /\ cmpres' = [cmpres EXCEPT ![t] = c]
  /\ eqok' = (eqok /\ ((e = 1) <=> (c = 0)))
  /\ qcnt' = [qcnt EXCEPT ![t] = @ + 1]
(* As coded: ==, cmp and Hash look at name and labels only - one step, no shared read *)
CompareAsCoded(t) ==
  /\ ~EqReadsMemoValueFirst
  /\ t \in Comparers /\ qpc[t] = "q0" /\ qcnt[t] < NCalls
  /\ \E kind \in PairKinds : Evaluated(t, kind, StructEq(kind), StructCmp(kind))
  /\ UNCHANGED <<vars, qpc, cl>>
(* Witness variant, step 1: self.hash.load (other.hash is other's own cached value) *)
CompareLoadValues(t) ==
  /\ EqReadsMemoValueFirst
  /\ t \in Comparers /\ qpc[t] = "q0" /\ qcnt[t] < NCalls
  /\ \E kind \in PairKinds : pk' = [pk EXCEPT ![t] = kind]
  /\ cl' = [cl EXCEPT ![t] = hash]
  /\ qpc' = [qpc EXCEPT ![t] = "q1"]
  /\ UNCHANGED <<vars, qcnt, eqres, cmpres, eqok>>
(* step 2: self.hashed.load (other.hashed is TRUE); values differ and both flags set -> false, else the slow path *)
CompareLoadFlags(t) ==
  /\ EqReadsMemoValueFirst
  /\ t \in Comparers /\ qpc[t] = "q1"
  /\ Evaluated(t, pk[t], IF cl[t] # OtherHash(pk[t]) /\ hashed THEN 0 ELSE StructEq(pk[t]), StructCmp(pk[t]))
  /\ qpc' = [qpc EXCEPT ![t] = "q0"]
  /\ UNCHANGED <<vars, cl>>

MemoStep(t) == /\ \/ LoadHashed(t) \/ LoadHash(t) \/ StoreHash(t) \/ StoreHashed(t)
                  \/ CloneLoadHashed(t) \/ CloneLoadHash(t) \/ CloneGetHash(t)
               /\ UNCHANGED cvars
NextEq == \/ \E t \in Threads : MemoStep(t)
          \/ \E t \in Comparers : CompareAsCoded(t) \/ CompareLoadValues(t) \/ CompareLoadFlags(t)
SpecEq == InitEq /\ [][NextEq]_allvars

-----------------------------------------------------------------------------
TypeOKEq == \A t \in Comparers : /\ qpc[t] \in {"q0", "q1"} /\ qcnt[t] \in 0..NCalls
                                 /\ eqres[t] \in {0, 1, None} /\ cmpres[t] \in {0, 1, None} /\ cl[t] \in {0, HV}
(* a == b exactly when a.cmp(b) is Equal - for every evaluation, in every state, whatever the memo holds *)
EqCmpAgree == eqok /\ \A t \in Comparers : eqres[t] # None => ((eqres[t] = 1) <=> (cmpres[t] = 0))
(* ==, cmp (and Hash) do not depend on the memo state: always the structural verdict *)
EqIgnoresMemo == \A t \in Comparers : eqres[t] # None => (eqres[t] = StructEq(pk[t]) /\ cmpres[t] = StructCmp(pk[t]))
DoneEq == Done /\ \A t \in Comparers : qpc[t] = "q0" /\ qcnt[t] = NCalls
=============================================================================
