SPECIFICATION TraceSpec
CONSTANTS
 T8 = 8
 CF03Fixed = TRUE
 TripleMax = 40
INVARIANTS InvEqRefl InvEqSym InvEqTrans InvCmpRefl InvCmpAntisym InvCmpTrans InvEqHash InvPerm InvEqCmp
POSTCONDITION TraceAccepted
CHECK_DEADLOCK FALSE
