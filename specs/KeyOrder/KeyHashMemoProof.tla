-------------------------- MODULE KeyHashMemoProof --------------------------
(***************************************************************************)
(* TLAPS proof that the inductive invariant IndInv of KeyHashMemoApa.tla   *)
(* (the very same definition Apalache checks for bounded set sizes) is     *)
(* inductive and implies the safety invariants of KeyHashMemo.tla, for ANY *)
(* disjoint sets Getters and Cloners (no size bound), any NCalls >= 1 and  *)
(* any InitKinds:    Spec => []Safety.                                     *)
(* Run by checks/unbounded_keyhashmemo.py:                                 *)
(*   tlapm --threads 4 --cleanfp -I <dir with a stub Apalache.tla> KeyHashMemoProof.tla *)
(***************************************************************************)
EXTENDS KeyHashMemoApa, TLAPS

\* what ConstInit<n> of KeyHashMemoApa.tla assumes, minus the size bound
ASSUME ConstAssump == NCalls \in Nat /\ NCalls >= 1 /\ Getters \cap Cloners = {}

LEMMA InitInd == Init => IndInv
  BY ConstAssump DEF Init, InitFor, IndInv, TypeInv, MemoInv, Threads, HV, None

LEMMA StepInd == IndInv /\ [Next]_vars => IndInv'
<1> SUFFICES ASSUME IndInv, [Next]_vars PROVE IndInv'
  OBVIOUS
<1> USE ConstAssump DEF IndInv, TypeInv, MemoInv, Threads, HV, None, Return
<1>1. ASSUME NEW t \in Threads, LoadHashed(t) PROVE IndInv'
  BY <1>1 DEF LoadHashed
<1>2. ASSUME NEW t \in Threads, LoadHash(t) PROVE IndInv'
  BY <1>2 DEF LoadHash
<1>3. ASSUME NEW t \in Threads, StoreHash(t) PROVE IndInv'
  BY <1>3 DEF StoreHash
<1>4. ASSUME NEW t \in Threads, StoreHashed(t) PROVE IndInv'
  BY <1>4 DEF StoreHashed
<1>5. ASSUME NEW t \in Threads, CloneLoadHashed(t) PROVE IndInv'
  BY <1>5 DEF CloneLoadHashed
<1>6. ASSUME NEW t \in Threads, CloneLoadHash(t) PROVE IndInv'
  BY <1>6 DEF CloneLoadHash
<1>7. ASSUME NEW t \in Threads, CloneGetHash(t) PROVE IndInv'
  BY <1>7 DEF CloneGetHash
<1>8. CASE UNCHANGED vars
  BY <1>8 DEF vars
<1> QED
  BY <1>1, <1>2, <1>3, <1>4, <1>5, <1>6, <1>7, <1>8 DEF Next

LEMMA IndSafe == IndInv => Safety
  BY ConstAssump DEF IndInv, TypeInv, MemoInv, Threads, HV, None, Safety, TypeOK, RetOK, MemoOK, CloneOK

THEOREM Correct == Spec => []Safety
<1>1. Init => IndInv BY InitInd
<1>2. IndInv /\ [Next]_vars => IndInv' BY StepInd
<1>3. IndInv => Safety BY IndSafe
<1> QED BY <1>1, <1>2, <1>3, PTL DEF Spec
=============================================================================
