------------------------- MODULE TraceKeyHashMemo -------------------------
(* A recorded run of the real Key::get_hash / Key::clone (harness/src/bin/c03.rs, modes memo-record, *)
(* memo-replay, memo-free) must be a behaviour of KeyHashMemo.tla.  Every `.pre` line is the grant   *)
(* of the deterministic scheduler immediately before that atomic operation; `gh.ret.post` carries    *)
(* 1 if the value get_hash() returned equals the reference hash of the key, else 0.                  *)
EXTENDS KeyHashMemoEq, Json, IOUtils, TLCExt, Sequences
VARIABLE l
Rec == ndJsonDeserialize(IOEnv.TRACE)
tvars == <<allvars, l>>
Ev == Rec[l].ev
T == Rec[l].p
A == Rec[l].a
Step == l' = l + 1
Obs(cond) == cond /\ Step /\ UNCHANGED allvars
(* a step of the memo part leaves the comparers alone *)
M(act) == act /\ Step /\ UNCHANGED cvars
AsVal(x) == IF x = 1 THEN HV ELSE 0

Reset(kind) ==
  /\ hashed' = (kind = "built") /\ hash' = (IF kind = "built" THEN HV ELSE 0)
  /\ pc' = [t \in Threads |-> IF t \in Getters THEN "lh" ELSE "c1"]
  /\ cnt' = [t \in Threads |-> 0]
  /\ ret' = [t \in Threads |-> None]
  /\ ch' = [t \in Cloners |-> FALSE] /\ cv' = [t \in Cloners |-> 0]
  /\ retok' = TRUE
  /\ qpc' = [t \in Comparers |-> "q0"] /\ qcnt' = [t \in Comparers |-> 0]
  /\ pk' = [t \in Comparers |-> "equal"] /\ cl' = [t \in Comparers |-> 0]
  /\ eqres' = [t \in Comparers |-> None] /\ cmpres' = [t \in Comparers |-> None]
  /\ eqok' = TRUE

(* Key::clone runs between two grants: both loads see the same shared state *)
CloneAtomic(t) ==
  /\ t \in Cloners /\ pc[t] = "c1"
  /\ ch' = [ch EXCEPT ![t] = hashed] /\ cv' = [cv EXCEPT ![t] = hash]
  /\ pc' = [pc EXCEPT ![t] = "cr"]
  /\ UNCHANGED <<hashed, hash, cnt, ret, retok>>

(* real-parallel trials: facts that hold for every schedule *)
FreeOK(r) == r.bad = 0 /\ r.returns > 0 /\ r.late_bad = 0

TraceNext ==
  /\ l <= Len(Rec)
  /\ CASE Ev = "reset"               -> Rec[l].init \in {"static", "built"} /\ Reset(Rec[l].init) /\ Step
       [] Ev = "start.pre"           -> Obs(T \in Threads \cup Comparers)
       [] Ev = "key.hashed.load.pre" -> M(LoadHashed(T))
       [] Ev = "key.hash.load.pre"   -> M(LoadHash(T))
       [] Ev = "key.hash.store.pre"  -> M(StoreHash(T))
       [] Ev = "key.hashed.store.pre" -> M(StoreHashed(T))
       [] Ev = "gh.ret.post"         -> Obs(T \in Getters /\ pc[T] = "lh" /\ cnt[T] = A[2] /\ ret[T] = AsVal(A[1]))
       [] Ev = "c03.clone.pre"       -> M(CloneAtomic(T))
       [] Ev = "clone.ret.post"      -> M(CloneGetHash(T)) /\ ret'[T] = AsVal(A[1])
       [] Ev = "c03.cmp.pre"         -> Obs(T \in Comparers /\ qpc[T] = "q0")
       [] Ev = "cmp.res.post"        -> /\ CompareAsCoded(T) /\ Step
                                        /\ pk'[T] = (IF A[1] = 1 THEN "equal" ELSE "control")
                                        /\ eqres'[T] = A[2] /\ A[3] = A[2]
                                        /\ cmpres'[T] = (IF A[4] = 1 THEN 0 ELSE 1) /\ A[5] = A[4]
       [] Ev = "final"               -> Obs(/\ \A t \in Getters : pc[t] = "lh" /\ cnt[t] = (IF t <= A[1] THEN A[3] ELSE 0)
                                            /\ \A t \in Cloners : pc[t] = (IF t - 10 <= A[2] THEN "done" ELSE "c1"))
       [] Ev = "free"                -> Obs(FreeOK(Rec[l]))
       [] OTHER -> FALSE             \* panic / livelock / stuck / unknown site

TraceInit == InitFor("static") /\ CInitEq /\ l = 1
TraceSpec == TraceInit /\ [][TraceNext]_tvars
TraceAccepted ==
  LET d == TLCGet("stats").diameter IN
  IF d - 1 = Len(Rec) THEN TRUE
  ELSE Print(<<"TRACE REJECTED at line", d, Rec[d]>>, FALSE)
=============================================================================
