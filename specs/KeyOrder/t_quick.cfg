SPECIFICATION Spec
CONSTANTS
 T8 = 3
 CF03Fixed = FALSE
 Mode = "scope"
 NN = 2
 NK = 2
 NV = 2
 MaxLen = 3
 FamLens = {}
INVARIANTS TypeOK InvEqRefl InvEqSym InvEqTrans InvEqClasses InvCmpRefl InvCmpAntisym InvCmpTrans InvCmpRank InvEqHash InvPerm InvEqCmp InvDevIsViolation
CHECK_DEADLOCK FALSE
