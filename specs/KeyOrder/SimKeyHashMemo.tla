-------------------------- MODULE SimKeyHashMemo --------------------------
(* Spec -> impl for the get_hash race: `sched` records the thread and pc of every step.  Run       *)
(* exhaustively (sched is part of the state: every complete interleaving is a distinct terminal    *)
(* state) or with -simulate; each complete schedule is printed as a REPLAY line and executed on    *)
(* the real Key under the deterministic scheduler by harness/src/bin/c03.rs (memo-replay).         *)
(* Comparers (KeyHashMemoEq.tla, as coded) take part: one grant per ==/cmp evaluation.             *)
EXTENDS KeyHashMemoEq, Json, Sequences
VARIABLES sched, kind0
SimInit == \E kind \in InitKinds : InitFor(kind) /\ CInitEq /\ kind0 = kind /\ sched = <<>>
SimNext == /\ \/ \E t \in Threads : MemoStep(t) /\ sched' = Append(sched, <<t, pc[t]>>)
              \/ \E t \in Comparers : CompareAsCoded(t) /\ sched' = Append(sched, <<t, qpc[t]>>)
           /\ UNCHANGED kind0
SimSpec == SimInit /\ [][SimNext]_<<allvars, sched, kind0>>
Emit == DoneEq => PrintT(<<"REPLAY", ToJson([getters |-> Cardinality(Getters), cloners |-> Cardinality(Cloners),
                                               comparers |-> Cardinality(Comparers), calls |-> NCalls, init |-> kind0,
                                               sched |-> sched])>>)
=============================================================================
