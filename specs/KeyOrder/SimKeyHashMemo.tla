-------------------------- MODULE SimKeyHashMemo --------------------------
(* Spec -> impl for the get_hash race: `sched` records the thread and pc of every step.  Run       *)
(* exhaustively (sched is part of the state: every complete interleaving is a distinct terminal    *)
(* state) or with -simulate; each complete schedule is printed as a REPLAY line and executed on    *)
(* the real Key under the deterministic scheduler by harness/src/bin/c03.rs (memo-replay).         *)
EXTENDS KeyHashMemo, Json, Sequences
VARIABLES sched, kind0
SimInit == \E kind \in InitKinds : InitFor(kind) /\ kind0 = kind /\ sched = <<>>
SimNext == \E t \in Threads :
             /\ \/ LoadHashed(t) \/ LoadHash(t) \/ StoreHash(t) \/ StoreHashed(t)
                \/ CloneLoadHashed(t) \/ CloneLoadHash(t) \/ CloneGetHash(t) \/ CompareAsCoded(t)
             /\ sched' = Append(sched, <<t, pc[t]>>)
             /\ UNCHANGED kind0
SimSpec == SimInit /\ [][SimNext]_<<vars, sched, kind0>>
Emit == Done => PrintT(<<"REPLAY", ToJson([getters |-> Cardinality(Getters), cloners |-> Cardinality(Cloners),
                                             comparers |-> Cardinality(Comparers), calls |-> NCalls, init |-> kind0, sched |-> sched])>>)
=============================================================================
