--------------------------- MODULE TraceKeyOrder ---------------------------
(***************************************************************************)
(* Conformance of KeyOrder.tla with metrics::Key (harness/src/bin/c03.rs,  *)
(* modes `replay` = TLC-exported universes, `record` = seeded random       *)
(* keys).  A run is one batch of keys:                                     *)
(*                                                                         *)
(*  reset  strs  : string table, every string as its code-point array      *)
(*         keys  : [n |-> string index, ls |-> <<<<k index, v index>>..>>] *)
(*         kinds : MetricKind of the CompositeKey wrapped around key i     *)
(*  row    i     : key index; what the REAL code answered for key i        *)
(*                 against every key j of the batch, over all construction *)
(*                 paths of both (9 = the paths did not agree):            *)
(*         eq[j]   a == b            cmp[j]  a.cmp(&b) as -1/0/1           *)
(*         hse[j]  bytes fed to a recording Hasher by Hash::hash equal     *)
(*         ghe[j]  get_hash() equal                                        *)
(*         ceq[j], ccmp[j]  the same for CompositeKey(kind, key)           *)
(*         hs      the byte stream of key i decoded: <<name, label count,  *)
(*                 k1, v1, k2, v2, ..>> (string indices; <<>> = the stream *)
(*                 is not of that shape)                                   *)
(*         ghk     1 iff get_hash() = KeyHasher over Hash::hash =          *)
(*                 Hashable::hashable, on every path, twice                *)
(*  race   i, j  : distinct answer tuples <<i==j, j==i, i.cmp(j),          *)
(*                 j.cmp(i), hash bytes equal, count>> collected while     *)
(*                 another thread hashed key i for the first time          *)
(*                                                                         *)
(* The order of strings is recomputed here from the code points (Rust      *)
(* compares UTF-8 bytes; for valid UTF-8 that is the code-point order):    *)
(* a string's integer is its rank in the batch's table.  The relations are *)
(* tabulated by the specification when the batch starts; every row must    *)
(* equal the table, and the laws of the property are invariants over the   *)
(* rows seen (pairs with every key of the batch; triples while the batch   *)
(* has at most TripleMax keys).                                            *)
(***************************************************************************)
EXTENDS KeyOrder, Json, IOUtils, TLCExt, TLC

CONSTANT TripleMax

VARIABLES l,      \* next trace line
          ks,     \* prepared keys of the current batch (strings as ranks)
          kd,     \* MetricKind per key
          ET, CT, HT,  \* the specification's verdicts for the batch: Eq, Cmp, HashSeq
          rk,     \* rank of every string of the batch's table
          cur,    \* key of the last row (0: none yet)
          seen    \* the known finding was already reported for this batch
tvars == <<l, ks, kd, ET, CT, HT, rk, cur, seen>>

Rec == ndJsonDeserialize(IOEnv.TRACE)
R == Rec[l]
Step == l' = l + 1

(* ---- strings: lexicographic order of code-point sequences ---- *)
CpLess(s, t) ==
  LET m == IF Len(s) < Len(t) THEN Len(s) ELSE Len(t)
      D == {i \in 1..m : s[i] # t[i]}
  IN IF D = {} THEN Len(s) < Len(t) ELSE s[SetMin(D)] < t[SetMin(D)]
RankOf(strs) == [i \in DOMAIN strs |-> Cardinality({j \in DOMAIN strs : CpLess(strs[j], strs[i])})]

B2I(x) == IF x THEN 1 ELSE 0
Idx == DOMAIN ks

Reset ==
  \* each primed variable is a concrete value before the next conjunct reads it
  /\ rk' = TLCEval(RankOf(R.strs))
  /\ ks' = TLCEval([i \in DOMAIN R.keys |->
               Prep([name |-> rk'[R.keys[i].n],
                     labels |-> [x \in DOMAIN R.keys[i].ls |-> <<rk'[R.keys[i].ls[x][1]], rk'[R.keys[i].ls[x][2]]>>]])])
  /\ kd' = R.kinds
  /\ ET' = TLCEval([i \in DOMAIN ks' |-> TLCEval([j \in DOMAIN ks' |-> EqK(ks'[i], ks'[j])])])
  /\ CT' = TLCEval([i \in DOMAIN ks' |-> TLCEval([j \in DOMAIN ks' |-> CmpK(ks'[i], ks'[j])])])
  /\ HT' = TLCEval([i \in DOMAIN ks' |-> HashSeqK(ks'[i])])
  /\ cur' = 0
  /\ seen' = FALSE

(* the logged hash stream, strings replaced by their ranks (position 2 is the label count) *)
HsRanked(hs) == [x \in DOMAIN hs |-> IF x = 2 THEN hs[x] ELSE rk[hs[x]]]

Same(what, j, expected, got) ==
  IF expected = got THEN TRUE
  ELSE Print(<<"MISMATCH at line", l, what, "key", R.i, "vs", j, "spec", expected, "impl", got>>, FALSE)

RowOK ==
  LET i == R.i IN
  /\ i \in Idx
  /\ Len(R.eq) = Len(ks) /\ Len(R.cmp) = Len(ks) /\ Len(R.hse) = Len(ks) /\ Len(R.ghe) = Len(ks)
  /\ \A j \in Idx :
       /\ Same("eq", j, B2I(ET[i][j]), R.eq[j])
       /\ Same("cmp", j, CT[i][j], R.cmp[j])
       /\ Same("hash-stream-equal", j, B2I(HT[i] = HT[j]), R.hse[j])
       /\ (HT[i] = HT[j]) => Same("get_hash-equal", j, 1, R.ghe[j])
       /\ R.ghe[j] \in {0, 1}
       /\ Same("composite-eq", j, B2I(CEqK(kd[i], ks[i], kd[j], ks[j])), R.ceq[j])
       /\ Same("composite-cmp", j, CCmpK(kd[i], ks[i], kd[j], ks[j]), R.ccmp[j])
  /\ Same("hash-stream", i, HT[i], HsRanked(R.hs))
  /\ Same("get_hash=KeyHasher(Hash)", i, 1, R.ghk)
  /\ R.np >= 1

(* Real-parallel race (harness mode `eqrace`): while one thread performed the FIRST get_hash() of fresh lazily hashed
   keys of abstract shape i, other threads kept evaluating, against key j (an equal key from another construction
   path with its hash cached, or an unequal control): i == j, j == i, i.cmp(j), j.cmp(i) and whether Hash::hash fed
   the same bytes for both (-1: not evaluated in that round).  Every DISTINCT answer tuple is logged with its count.
   ==, cmp and Hash must not depend on the state of the memo: each tuple must be the table's verdict. *)
RaceOK ==
  LET i == R.i
      j == R.j
  IN /\ i \in Idx /\ j \in Idx
     /\ \A x \in DOMAIN R.tuples :
          LET t == R.tuples[x] IN
          /\ Same("race: i == j", j, B2I(ET[i][j]), t[1])
          /\ Same("race: j == i", j, B2I(ET[j][i]), t[2])
          /\ Same("race: i.cmp(j)", j, CT[i][j], t[3])
          /\ Same("race: j.cmp(i)", j, CT[j][i], t[4])
          /\ (t[5] # -1 => Same("race: hash-stream-equal", j, B2I(HT[i] = HT[j]), t[5]))
          /\ t[6] > 0
     /\ (HT[i] = HT[j]) => Same("race: get_hash differs from an equal key's", j, 0, R.gh_bad)

(* the genuine defect seen on the real code: printed, not hidden (IF/THEN/ELSE: printed only then) *)
KnownSeen ==
  LET i == R.i
      D == {j \in Idx : DevCF03(ks[i], ks[j]) /\ R.eq[j] = 1 /\ R.cmp[j] # 0}
  IN IF D # {} /\ ~seen
       THEN seen' = TRUE /\ PrintT(<<"KNOWN", "CF03", <<"line", l, "keys", R.i, SetMin(D), "eq", 1, "cmp", R.cmp[SetMin(D)]>>>>)
       ELSE seen' = seen

TraceNext ==
  /\ l <= Len(Rec)
  /\ CASE R.ev = "reset" -> Reset /\ Step
       [] R.ev = "row"   -> RowOK /\ KnownSeen /\ cur' = R.i /\ Step /\ UNCHANGED <<ks, kd, ET, CT, HT, rk>>
       [] R.ev = "race"  -> RaceOK /\ cur' = R.i /\ Step /\ UNCHANGED <<ks, kd, ET, CT, HT, rk, seen>>
       [] OTHER -> FALSE         \* panic in the code under test / unknown event

TraceInit == l = 1 /\ ks = <<>> /\ kd = <<>> /\ ET = <<>> /\ CT = <<>> /\ HT = <<>> /\ rk = <<>> /\ cur = 0 /\ seen = FALSE
TraceSpec == TraceInit /\ [][TraceNext]_tvars
TraceAccepted ==
  LET d == TLCGet("stats").diameter IN
  IF d - 1 = Len(Rec) THEN TRUE
  ELSE Print(<<"TRACE REJECTED at line", d, Rec[d]>>, FALSE)

-----------------------------------------------------------------------------
(* The property on the keys actually built: the specification's relations equal the implementation's
   on every row accepted, so these are statements about the real ==, cmp and hash input. *)
E(i, j) == ET[i][j]
C(i, j) == CT[i][j]
H(i, j) == HT[i] = HT[j]
PermOf(i, j) == DistinctNames(ks[i]) /\ IsPerm(ks[i], ks[j])
Dev(i, j) == DevCF03(ks[i], ks[j])
Small == Len(ks) <= TripleMax

InvEqRefl == cur # 0 => LawEqRefl(E, cur)
InvEqSym == cur # 0 => \A j \in Idx : LawEqSym(E, cur, j)
InvEqTrans == (cur # 0 /\ Small) => \A j, k \in Idx : LawEqTrans(E, cur, j, k)
InvCmpRefl == cur # 0 => LawCmpRefl(C, cur)
InvCmpAntisym == cur # 0 => \A j \in Idx : LawCmpAntisym(C, cur, j)
InvCmpTrans == (cur # 0 /\ Small) => \A j, k \in Idx : LawCmpTrans(C, cur, j, k)
InvEqHash == cur # 0 => \A j \in Idx : LawEqHash(E, H, cur, j)
InvPerm == cur # 0 => \A j \in Idx : LawPerm(E, C, H, PermOf, cur, j)
InvEqCmp == cur # 0 => \A j \in Idx : LawEqCmp(E, C, cur, j) \/ Dev(cur, j)
=============================================================================
