SPECIFICATION TraceSpec
CONSTANTS
 Getters = {1,2,3,4}
 Cloners = {11,12}
 NCalls = 1000000
 InitKinds = {"static","built"}
INVARIANTS TypeOK RetOK MemoOK CloneOK
POSTCONDITION TraceAccepted
CHECK_DEADLOCK FALSE
