SPECIFICATION TraceSpec
CONSTANTS
 Getters = {1,2,3,4}
 Cloners = {11,12}
 NCalls = 1000000
 InitKinds = {"static","built"}
 Comparers = {21,22}
 EqReadsMemoValueFirst = FALSE
INVARIANTS TypeOK RetOK MemoOK CloneOK TypeOKEq EqCmpAgree EqIgnoresMemo
POSTCONDITION TraceAccepted
CHECK_DEADLOCK FALSE
