---------------------------- MODULE MCKeyOrder ----------------------------
(***************************************************************************)
(* Exhaustive scopes for KeyOrder.tla and export of verdict tables.        *)
(*                                                                         *)
(* Universe = every key of the scope.  The relations are tabulated once    *)
(* (constant definitions), the state is a pair (ia, ib) of key indices -     *)
(* one state per key and per ordered pair - and every invariant is a       *)
(* sentence of the property about that pair and, for the triple laws,      *)
(* about (ia, ib, c) for EVERY c of the universe.                            *)
(*                                                                         *)
(*   Mode = "scope" : NN names x all label lists of length <= MaxLen over  *)
(*                    NK label names x NV values                           *)
(*   Mode = "family": every label list of length <= 2 over NK x NV (the    *)
(*                    core, incl. repeated names / repeated labels) padded *)
(*                    with pairwise distinct labels to each length in      *)
(*                    FamLens, in four arrangements - reaches the real     *)
(*                    thresholds (T8 = 8: lengths 3..7, 8, 9)              *)
(***************************************************************************)
EXTENDS KeyOrder, SequencesExt, Json, IOUtils, TLC

CONSTANTS Mode, NN, NK, NV, MaxLen, FamLens

LabelSet == (0..(NK - 1)) \X (0..(NV - 1))
Key(n, ls) == [name |-> n, labels |-> ls]

ScopeKeys == {Key(n, ls) : n \in 0..(NN - 1), ls \in SeqOf(LabelSet, MaxLen)}

(* pads: label names on both sides of the core's names 0..NK-1, pairwise distinct *)
PadLabel(i) == <<IF i % 2 = 1 THEN 10 + i ELSE -i, i % NV>>
Pads(m) == [i \in 1..m |-> PadLabel(i)]
Arrange(core, pads, w) ==
  CASE w = 1 -> core \o pads
    [] w = 2 -> pads \o core
    [] w = 3 -> Reverse(core \o pads)
    [] w = 4 -> IF Len(core) = 2 THEN <<core[1]>> \o pads \o <<core[2]>> ELSE pads \o core
FamilyKeys ==
  {Key(0, Arrange(c, Pads(L - Len(c)), w)) : c \in SeqOf(LabelSet, 2), L \in FamLens, w \in 1..4}

Universe == IF Mode = "scope" THEN ScopeKeys ELSE FamilyKeys
KeySeq == SetToSeq(Universe)
N == Len(KeySeq)
Idx == 1..N
P == TLCEval([i \in Idx |-> TLCEval(Prep(KeySeq[i]))])

(* tables: evaluated once (TLCEval forces TLC's lazy function values) *)
HS == TLCEval([i \in Idx |-> TLCEval(HashSeqK(P[i]))])
EqT == TLCEval([i \in Idx |-> TLCEval([j \in Idx |-> EqK(P[i], P[j])])])
CmpT == TLCEval([i \in Idx |-> TLCEval([j \in Idx |-> CmpK(P[i], P[j])])])
HeqT == TLCEval([i \in Idx |-> TLCEval([j \in Idx |-> HS[i] = HS[j]])])
DevT == TLCEval([i \in Idx |-> TLCEval({j \in Idx : DevCF03(P[i], P[j])})])
Distinct == TLCEval({i \in Idx : DistinctNames(P[i])})

E(i, j) == EqT[i][j]
C(i, j) == CmpT[i][j]
H(i, j) == HeqT[i][j]
PermOf(i, j) == i \in Distinct /\ IsPerm(P[i], P[j])

(* an equivalence is the kernel of its class-representative map; a total preorder is the sign of the
   difference of its rank map: pairwise characterisations of the triple laws *)
Rep == TLCEval([i \in Idx |-> SetMin({j \in Idx : EqT[i][j]} \cup {i})])
Rank == TLCEval([i \in Idx |-> Cardinality({j \in Idx : CmpT[j][i] = LT})])

VARIABLES ia, ib
vars == <<ia, ib>>
Init == ia \in Idx /\ ib = 0
PickB == ib = 0 /\ ib' \in Idx /\ ia' = ia
Next == PickB
Spec == Init /\ [][Next]_vars

TypeOK == ia \in Idx /\ ib \in 0..N
InvEqRefl == LawEqRefl(E, ia)
InvEqSym == ib # 0 => LawEqSym(E, ia, ib)
InvEqTrans == ib # 0 => \A c \in Idx : LawEqTrans(E, ia, ib, c)
InvEqClasses == ib # 0 => (E(ia, ib) <=> Rep[ia] = Rep[ib])
InvCmpRefl == LawCmpRefl(C, ia)
InvCmpAntisym == ib # 0 => LawCmpAntisym(C, ia, ib)
InvCmpTrans == ib # 0 => \A c \in Idx : LawCmpTrans(C, ia, ib, c)
InvCmpRank == ib # 0 => C(ia, ib) = IntCmp(Rank[ia], Rank[ib])
InvEqHash == ib # 0 => LawEqHash(E, H, ia, ib)
InvPerm == ib # 0 => LawPerm(E, C, H, PermOf, ia, ib)
(* the law, or the named deviation *)
InvEqCmp == ib # 0 => (LawEqCmp(E, C, ia, ib) \/ ib \in DevT[ia])
(* the law alone: violated today (CF03); the counterexample must be an instance of the deviation *)
InvEqCmpStrict ==
  ib # 0 => (LawEqCmp(E, C, ia, ib)
             \/ ~PrintT(<<"CF03-WITNESS", KeySeq[ia], KeySeq[ib], "eq", EqT[ia][ib], "cmp", CmpT[ia][ib]>>))
(* and the deviation is not vacuous while it is listed: every instance really violates the law *)
InvDevIsViolation == (ib # 0 /\ ib \in DevT[ia]) => ~LawEqCmp(E, C, ia, ib)

(* ---- export: the universe with the verdict tables, for execution on the real code ---- *)
B2I(x) == IF x THEN 1 ELSE 0
Exported ==
  [keys |-> [i \in Idx |-> [n |-> KeySeq[i].name, ls |-> KeySeq[i].labels]],
   eq   |-> [i \in Idx |-> [j \in Idx |-> B2I(EqT[i][j])]],
   cmp  |-> [i \in Idx |-> CmpT[i]],
   heq  |-> [i \in Idx |-> [j \in Idx |-> B2I(HeqT[i][j])]],
   dev  |-> [i \in Idx |-> [j \in Idx |-> B2I(j \in DevT[i])]],
   t8   |-> T8]
ExportInit == ia = 1 /\ ib = 0
ExportSpec == ExportInit /\ [][FALSE]_vars
Emit == JsonSerialize(IOEnv.EXPORT, Exported)
=============================================================================
