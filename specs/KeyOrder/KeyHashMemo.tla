---------------------------- MODULE KeyHashMemo ----------------------------
(***************************************************************************)
(* metrics/src/key.rs `Key::get_hash` and `Clone for Key`: the lazily      *)
(* memoised 64-bit hash (`hashed: AtomicBool`, `hash: AtomicU64`), one     *)
(* action per atomic operation.                                            *)
(*                                                                         *)
(*   get_hash:  lh : hashed.load                                           *)
(*                   true  -> lv : hash.load, return it                    *)
(*                   false -> compute H(k) (thread-local, no shared step)  *)
(*                            sv : hash.store(H)                           *)
(*                            sh : hashed.store(true), return H            *)
(*   clone:     c1 : hashed.load  -> copy.hashed                           *)
(*              c2 : hash.load    -> copy.hash                             *)
(*              cr : copy.get_hash() on the private copy                   *)
(*                                                                         *)
(* A key built in const context (from_static_parts / from_static_labels /  *)
(* the macros' statics) starts with hashed = FALSE, hash = 0; a key built  *)
(* by `Key::builder` starts with hashed = TRUE, hash = H.                  *)
(* HV stands for H(k) = KeyHasher over key_hasher_impl (KeyOrder!HashSeq); *)
(* the conformance side logs every returned hash as 1 (= reference hash)   *)
(* or 0.  Sequentially consistent interleavings.                           *)
(*                                                                         *)
(* Comparers evaluate `k == other`, `k.cmp(&other)` and the std Hash of    *)
(* both while the shared key k is being hashed for the first time.  other  *)
(* is either an EQUAL key (another construction path, its hash cached) or  *)
(* an unequal control.  As coded, PartialEq / Ord / Hash read NOTHING from *)
(* the memo (key.rs: only name and labels): one step, result = the         *)
(* structural verdict of KeyOrder.tla.  The property demands exactly that: *)
(* the results of ==, cmp and Hash must not depend on the memo state, so   *)
(* "a == b <=> cmp = Equal" holds in every state, whatever the memo holds. *)
(* Witness constant EqReadsMemoValueFirst = TRUE models an eq() with a     *)
(* "cheap rejection" that loads the two cached hash VALUES first and the   *)
(* `hashed` FLAGS afterwards (two steps): TLC must reject it.              *)
(***************************************************************************)
EXTENDS Naturals, FiniteSets, TLC

CONSTANTS Getters,    \* thread ids calling get_hash NCalls times each
          Cloners,    \* thread ids cloning the shared key once and calling get_hash on the copy
          NCalls,
          InitKinds,  \* subset of {"static", "built"}
          Comparers,  \* thread ids evaluating k == other / k.cmp(other) NCalls times each
          EqReadsMemoValueFirst   \* FALSE: eq as coded.  TRUE: witness variant (must be rejected)

HV == 1               \* H(k); 0 is the initial content of `hash`
None == 2             \* no value returned yet
HV2 == 3              \* hash of the unequal control key
PairKinds == {"equal", "control"}
(* the verdicts of KeyOrder.tla for (k, other): nothing but name and labels *)
StructEq(kind) == IF kind = "equal" THEN 1 ELSE 0
StructCmp(kind) == IF kind = "equal" THEN 0 ELSE 1       \* 0 = Equal, 1 = not Equal
OtherHash(kind) == IF kind = "equal" THEN HV ELSE HV2    \* other was built by Key::builder: hashed, hash cached

VARIABLES
  hashed, hash,       \* the shared key's atomics
  pc, cnt,            \* per thread: program counter, completed get_hash calls
  ret,                \* per thread: last value returned by get_hash
  ch, cv,             \* per cloner: the copy's hashed / hash
  retok,              \* history: every value returned so far was H(k)
  pk, cl,             \* per comparer: kind of `other` in the current evaluation, loaded k.hash (witness variant)
  eqres, cmpres,      \* per comparer: results of the last evaluation (None: none yet)
  eqok                \* history: every evaluation so far satisfied a == b <=> cmp = Equal

cvars == <<pk, cl, eqres, cmpres, eqok>>
vars == <<hashed, hash, pc, cnt, ret, ch, cv, retok, cvars>>
Threads == Getters \cup Cloners \cup Comparers

InitFor(kind) ==
  /\ hashed = (kind = "built") /\ hash = (IF kind = "built" THEN HV ELSE 0)
  /\ pc = [t \in Threads |-> IF t \in Getters THEN "lh" ELSE IF t \in Cloners THEN "c1" ELSE "q0"]
  /\ cnt = [t \in Threads |-> 0]
  /\ ret = [t \in Threads |-> None]
  /\ ch = [t \in Cloners |-> FALSE] /\ cv = [t \in Cloners |-> 0]
  /\ retok = TRUE
  /\ pk = [t \in Comparers |-> "equal"] /\ cl = [t \in Comparers |-> 0]
  /\ eqres = [t \in Comparers |-> None] /\ cmpres = [t \in Comparers |-> None]
  /\ eqok = TRUE
Init == \E kind \in InitKinds : InitFor(kind)

Return(t, v) ==
  /\ ret' = [ret EXCEPT ![t] = v]
  /\ retok' = (retok /\ v = HV)
  /\ cnt' = [cnt EXCEPT ![t] = @ + 1]

(* hashed.load(Acquire) *)
LoadHashed(t) ==
  /\ t \in Getters /\ pc[t] = "lh" /\ cnt[t] < NCalls
  /\ pc' = [pc EXCEPT ![t] = IF hashed THEN "lv" ELSE "sv"]
  /\ UNCHANGED <<hashed, hash, cnt, ret, ch, cv, retok, cvars>>
(* hash.load(Acquire): the fast path returns whatever is stored *)
LoadHash(t) ==
  /\ t \in Getters /\ pc[t] = "lv"
  /\ Return(t, hash)
  /\ pc' = [pc EXCEPT ![t] = "lh"]
  /\ UNCHANGED <<hashed, hash, ch, cv, cvars>>
(* hash.store(generate_key_hash(..), Release) *)
StoreHash(t) ==
  /\ t \in Getters /\ pc[t] = "sv"
  /\ hash' = HV
  /\ pc' = [pc EXCEPT ![t] = "sh"]
  /\ UNCHANGED <<hashed, cnt, ret, ch, cv, retok, cvars>>
(* hashed.store(true, Release); returns the hash it computed *)
StoreHashed(t) ==
  /\ t \in Getters /\ pc[t] = "sh"
  /\ hashed' = TRUE
  /\ Return(t, HV)
  /\ pc' = [pc EXCEPT ![t] = "lh"]
  /\ UNCHANGED <<hash, ch, cv, cvars>>

(* Clone: hashed first, then hash *)
CloneLoadHashed(t) ==
  /\ t \in Cloners /\ pc[t] = "c1"
  /\ ch' = [ch EXCEPT ![t] = hashed]
  /\ pc' = [pc EXCEPT ![t] = "c2"]
  /\ UNCHANGED <<hashed, hash, cnt, ret, cv, retok, cvars>>
CloneLoadHash(t) ==
  /\ t \in Cloners /\ pc[t] = "c2"
  /\ cv' = [cv EXCEPT ![t] = hash]
  /\ pc' = [pc EXCEPT ![t] = "cr"]
  /\ UNCHANGED <<hashed, hash, cnt, ret, ch, retok, cvars>>
(* get_hash on the private copy (nobody else sees it: one step) *)
CloneGetHash(t) ==
  /\ t \in Cloners /\ pc[t] = "cr"
  /\ Return(t, IF ch[t] THEN cv[t] ELSE HV)
  /\ pc' = [pc EXCEPT ![t] = "done"]
  /\ UNCHANGED <<hashed, hash, ch, cv, cvars>>

(* ---- comparers ---- *)
Evaluated(t, kind, e, c) ==
  /\ pk' = [pk EXCEPT ![t] = kind]
  /\ eqres' = [eqres EXCEPT ![t] = e] /\ cmpres' = [cmpres EXCEPT ![t] = c]
  /\ eqok' = (eqok /\ ((e = 1) <=> (c = 0)))
  /\ cnt' = [cnt EXCEPT ![t] = @ + 1]
(* As coded: ==, cmp and Hash look at name and labels only - one step, no shared read *)
CompareAsCoded(t) ==
  /\ ~EqReadsMemoValueFirst
  /\ t \in Comparers /\ pc[t] = "q0" /\ cnt[t] < NCalls
  /\ \E kind \in PairKinds : Evaluated(t, kind, StructEq(kind), StructCmp(kind))
  /\ UNCHANGED <<hashed, hash, pc, ret, ch, cv, retok, cl>>
(* Witness variant, step 1: self.hash.load (other.hash is other's own cached value) *)
CompareLoadValues(t) ==
  /\ EqReadsMemoValueFirst
  /\ t \in Comparers /\ pc[t] = "q0" /\ cnt[t] < NCalls
  /\ \E kind \in PairKinds : pk' = [pk EXCEPT ![t] = kind]
  /\ cl' = [cl EXCEPT ![t] = hash]
  /\ pc' = [pc EXCEPT ![t] = "q1"]
  /\ UNCHANGED <<hashed, hash, cnt, ret, ch, cv, retok, eqres, cmpres, eqok>>
(* step 2: self.hashed.load (other.hashed is TRUE); values differ and both flags set -> false, else the slow path *)
CompareLoadFlags(t) ==
  /\ EqReadsMemoValueFirst
  /\ t \in Comparers /\ pc[t] = "q1"
  /\ Evaluated(t, pk[t], IF cl[t] # OtherHash(pk[t]) /\ hashed THEN 0 ELSE StructEq(pk[t]), StructCmp(pk[t]))
  /\ pc' = [pc EXCEPT ![t] = "q0"]
  /\ UNCHANGED <<hashed, hash, ret, ch, cv, retok, cl>>

Next == \E t \in Threads : \/ LoadHashed(t) \/ LoadHash(t) \/ StoreHash(t) \/ StoreHashed(t)
                           \/ CloneLoadHashed(t) \/ CloneLoadHash(t) \/ CloneGetHash(t)
                           \/ CompareAsCoded(t) \/ CompareLoadValues(t) \/ CompareLoadFlags(t)
Spec == Init /\ [][Next]_vars

-----------------------------------------------------------------------------
TypeOK == /\ hashed \in BOOLEAN /\ hash \in {0, HV}
          /\ \A t \in Threads : ret[t] \in {0, HV, None} /\ cnt[t] \in 0..NCalls
(* every get_hash() - on any thread, first use or not, on the key or on a copy of it - returns H(k) *)
RetOK == retok /\ \A t \in Threads : ret[t] \in {HV, None}
(* the published flag never runs ahead of the value *)
MemoOK == hashed => hash = HV
(* a copy taken at any moment of the race is as good as the original *)
CloneOK == \A t \in Cloners : (pc[t] \in {"cr", "done"} /\ ch[t]) => cv[t] = HV
(* a == b exactly when a.cmp(b) is Equal - in every state, whatever the memo holds *)
EqCmpAgree == eqok /\ \A t \in Comparers : eqres[t] # None => ((eqres[t] = 1) <=> (cmpres[t] = 0))
(* ==, cmp (and Hash) do not depend on the memo state: always the structural verdict *)
EqIgnoresMemo == \A t \in Comparers : eqres[t] # None => (eqres[t] = StructEq(pk[t]) /\ cmpres[t] = StructCmp(pk[t]))
Done == \A t \in Threads : IF t \in Getters THEN pc[t] = "lh" /\ cnt[t] = NCalls
                           ELSE IF t \in Cloners THEN pc[t] = "done" ELSE pc[t] = "q0" /\ cnt[t] = NCalls
=============================================================================
