---------------------------- MODULE KeyHashMemo ----------------------------
(***************************************************************************)
(* metrics/src/key.rs `Key::get_hash` and `Clone for Key`: the lazily      *)
(* memoised 64-bit hash (`hashed: AtomicBool`, `hash: AtomicU64`), one     *)
(* action per atomic operation.                                            *)
(*                                                                         *)
(*   get_hash:  lh : hashed.load                                           *)
(*                   true  -> lv : hash.load, return it                    *)
(*                   false -> compute H(k) (thread-local, no shared step)  *)
(*                            sv : hash.store(H)                           *)
(*                            sh : hashed.store(true), return H            *)
(*   clone:     c1 : hashed.load  -> copy.hashed                           *)
(*              c2 : hash.load    -> copy.hash                             *)
(*              cr : copy.get_hash() on the private copy                   *)
(*                                                                         *)
(* A key built in const context (from_static_parts / from_static_labels /  *)
(* the macros' statics) starts with hashed = FALSE, hash = 0; a key built  *)
(* by `Key::builder` starts with hashed = TRUE, hash = H.                  *)
(* HV stands for H(k) = KeyHasher over key_hasher_impl (KeyOrder!HashSeq); *)
(* the conformance side logs every returned hash as 1 (= reference hash)   *)
(* or 0.  Sequentially consistent interleavings.                           *)
(***************************************************************************)
EXTENDS Naturals, FiniteSets, TLC

CONSTANTS Getters,    \* thread ids calling get_hash NCalls times each
          Cloners,    \* thread ids cloning the shared key once and calling get_hash on the copy
          NCalls,
          InitKinds   \* subset of {"static", "built"}

HV == 1               \* H(k); 0 is the initial content of `hash`
None == 2             \* no value returned yet

VARIABLES
  hashed, hash,       \* the shared key's atomics
  pc, cnt,            \* per thread: program counter, completed get_hash calls
  ret,                \* per thread: last value returned by get_hash
  ch, cv,             \* per cloner: the copy's hashed / hash
  retok               \* history: every value returned so far was H(k)

vars == <<hashed, hash, pc, cnt, ret, ch, cv, retok>>
Threads == Getters \cup Cloners

InitFor(kind) ==
  /\ hashed = (kind = "built") /\ hash = (IF kind = "built" THEN HV ELSE 0)
  /\ pc = [t \in Threads |-> IF t \in Getters THEN "lh" ELSE "c1"]
  /\ cnt = [t \in Threads |-> 0]
  /\ ret = [t \in Threads |-> None]
  /\ ch = [t \in Cloners |-> FALSE] /\ cv = [t \in Cloners |-> 0]
  /\ retok = TRUE
Init == \E kind \in InitKinds : InitFor(kind)

Return(t, v) ==
  /\ ret' = [ret EXCEPT ![t] = v]
  /\ retok' = (retok /\ v = HV)
  /\ cnt' = [cnt EXCEPT ![t] = @ + 1]

(* hashed.load(Acquire) *)
LoadHashed(t) ==
  /\ t \in Getters /\ pc[t] = "lh" /\ cnt[t] < NCalls
  /\ pc' = [pc EXCEPT ![t] = IF hashed THEN "lv" ELSE "sv"]
  /\ UNCHANGED <<hashed, hash, cnt, ret, ch, cv, retok>>
(* hash.load(Acquire): the fast path returns whatever is stored *)
LoadHash(t) ==
  /\ t \in Getters /\ pc[t] = "lv"
  /\ Return(t, hash)
  /\ pc' = [pc EXCEPT ![t] = "lh"]
  /\ UNCHANGED <<hashed, hash, ch, cv>>
(* hash.store(generate_key_hash(..), Release) *)
StoreHash(t) ==
  /\ t \in Getters /\ pc[t] = "sv"
  /\ hash' = HV
  /\ pc' = [pc EXCEPT ![t] = "sh"]
  /\ UNCHANGED <<hashed, cnt, ret, ch, cv, retok>>
(* hashed.store(true, Release); returns the hash it computed *)
StoreHashed(t) ==
  /\ t \in Getters /\ pc[t] = "sh"
  /\ hashed' = TRUE
  /\ Return(t, HV)
  /\ pc' = [pc EXCEPT ![t] = "lh"]
  /\ UNCHANGED <<hash, ch, cv>>

(* Clone: hashed first, then hash *)
CloneLoadHashed(t) ==
  /\ t \in Cloners /\ pc[t] = "c1"
  /\ ch' = [ch EXCEPT ![t] = hashed]
  /\ pc' = [pc EXCEPT ![t] = "c2"]
  /\ UNCHANGED <<hashed, hash, cnt, ret, cv, retok>>
CloneLoadHash(t) ==
  /\ t \in Cloners /\ pc[t] = "c2"
  /\ cv' = [cv EXCEPT ![t] = hash]
  /\ pc' = [pc EXCEPT ![t] = "cr"]
  /\ UNCHANGED <<hashed, hash, cnt, ret, ch, retok>>
(* get_hash on the private copy (nobody else sees it: one step) *)
CloneGetHash(t) ==
  /\ t \in Cloners /\ pc[t] = "cr"
  /\ Return(t, IF ch[t] THEN cv[t] ELSE HV)
  /\ pc' = [pc EXCEPT ![t] = "done"]
  /\ UNCHANGED <<hashed, hash, ch, cv>>

Next == \E t \in Threads : \/ LoadHashed(t) \/ LoadHash(t) \/ StoreHash(t) \/ StoreHashed(t)
                           \/ CloneLoadHashed(t) \/ CloneLoadHash(t) \/ CloneGetHash(t)
Spec == Init /\ [][Next]_vars

-----------------------------------------------------------------------------
TypeOK == /\ hashed \in BOOLEAN /\ hash \in {0, HV}
          /\ \A t \in Threads : ret[t] \in {0, HV, None} /\ cnt[t] \in 0..NCalls
(* every get_hash() - on any thread, first use or not, on the key or on a copy of it - returns H(k) *)
RetOK == retok /\ \A t \in Threads : ret[t] \in {HV, None}
(* the published flag never runs ahead of the value *)
MemoOK == hashed => hash = HV
(* a copy taken at any moment of the race is as good as the original *)
CloneOK == \A t \in Cloners : (pc[t] \in {"cr", "done"} /\ ch[t]) => cv[t] = HV
Done == \A t \in Threads : IF t \in Getters THEN pc[t] = "lh" /\ cnt[t] = NCalls ELSE pc[t] = "done"
=============================================================================
