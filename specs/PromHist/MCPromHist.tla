----------------------------- MODULE MCPromHist -----------------------------
(* Scopes for the exhaustive runs of PromHist.tla (one specification per part) and *)
(* export of cases executed by harness/src/bin/c15.rs on the real code.        *)
EXTENDS PromHist, Json, IOUtils

CONSTANTS \* hist (HistSpec)
          NBoundVals, MaxBounds, NSampleVals, MaxSamples,
          \* match (MatchSpec)
          PatAlpha, MaxPat, NameAlpha, MaxName, MaxMatchers,
          \* summ (SummSpec)
          MaxN, MaxDur, MaxAdds, MaxDt, Back,
          \* rec (RecSpec)
          MaxObs, MaxNow,
          \* export (smaller scopes, see the Export section)
          XMaxSamples, XMaxMatchers, XSummLen, XRecLen

(* ---------------------------------------------------------------- hist --- *)
BV == <<F(-1), F(0), F(2), PInf, NaN, NInf>>                      \* candidate bounds
SV == <<F(-1), F(0), F(1), F(3), PInf, NInf, NaN, F(-2), F(2)>>   \* candidate samples: equal to a bound, negative,
                                                                  \* zero, between, above all, the specials, below all
BoundVals  == {BV[i] : i \in 1..NBoundVals}
SampleVals == {SV[i] : i \in 1..NSampleVals}
BoundLists == SeqOf(BoundVals, MaxBounds) \ {<<>>}

DoHistNew == h = NoHist /\ \E bs \in BoundLists : HistNew(bs)
DoRecord == Len(hs) < MaxSamples /\ \E s \in SampleVals : Record(s)
DoRecordMany == \E batch \in SeqOf(SampleVals, MaxSamples - Len(hs)) : RecordMany(batch)
HistNext == DoHistNew \/ DoRecord \/ DoRecordMany

(* --------------------------------------------------------------- match --- *)
Kinds == {"full", "prefix", "suffix"}
Pats == SeqOf(PatAlpha, MaxPat)
Matchers == {Mt(k, p) : k \in Kinds, p \in Pats}
MCNames == SeqOf(NameAlpha, MaxName)
Code(p) == FoldLeft(LAMBDA a, c : a * 200 + c, 0, p)
BoundsOf(m) == <<F(Rank(m.kind) * 100000000 + Code(m.pat) + 1)>>       \* one recognisable bound list per raw matcher
GlobalB == <<F(0)>>
ProbeNames == {n \in MCNames : Len(n) <= 1}

DoSetBucketsForMetric == Cardinality(pb.ovr) < MaxMatchers /\ \E m \in Matchers : SetBucketsForMetric(m, BoundsOf(m))
DoSetBuckets == pb.global = <<>> /\ SetBuckets(GlobalB)
DoBuild == Build
DoChoose == \E n \in ProbeNames : Choose(n)
MatchNext == DoSetBucketsForMetric \/ DoSetBuckets \/ DoBuild \/ DoChoose

(* ---------------------------------------------------------------- summ --- *)
Cur == IF sd.t = "summary" /\ sd.all # <<>> THEN sd.maxts ELSE 0
DoSummNew == sd = NoDist /\ \E n \in 1..MaxN, d \in 1..MaxDur : SummNew(n, d)
DoSummAdd == /\ sd.t = "summary" /\ Len(sd.all) < MaxAdds
             /\ \E ts \in Max2(0, Cur - Back)..(Cur + MaxDt) : SummAdd(<<[v |-> F(Len(sd.all) + 1), ts |-> ts]>>)
DoSummSnapshot == sd.t = "summary" /\ \E now \in Cur..(Cur + MaxN * MaxDur + 1) : SummSnapshot(now)
SummNext == DoSummNew \/ DoSummAdd \/ DoSummSnapshot

(* ----------------------------------------------------------------- rec --- *)
cA == 97  cB == 98  cDot == 46  c9 == 57  cUs == 95
RecMatchers == {Mt("full", <<cA>>), Mt("suffix", <<cB>>)}
RecBounds(m) == CASE m.kind = "full" -> <<F(1), F(5)>> [] m.kind = "prefix" -> <<F(5)>> [] m.kind = "suffix" -> <<F(0), F(1)>>
RecNames == {<<cA>>, <<cA, cB>>}
RecVals == {F(1), F(5)}
Observed == FoldLeft(LAMBDA a, s : a + Len(s.pending) + (IF s.dist.t = "histogram" THEN Len(s.dist.hs)
                                                         ELSE IF s.dist.t = "summary" THEN Len(s.dist.all) ELSE 0), 0, rec.ser)
RSetBucketsForMetric == ~rec.on /\ \E m \in RecMatchers : SetBucketsForMetric(m, RecBounds(m))
RSetBuckets == ~rec.on /\ pb.global = <<>> /\ SetBuckets(<<F(1)>>)
RSetSummary == ~rec.on /\ pb.n = 0 /\ SetSummary(2, 1)
RSetQuantiles == ~rec.on /\ pb.qs = DefaultQs /\ pb.ovr = {} /\ pb.global = <<>> /\ SetQuantiles(<<0, 500, 1000>>)
RBuild == ~rec.on /\ Build
RRecStart == ~rec.on /\ RecStart
RTick == rec.on /\ rec.now < MaxNow /\ \E d \in 1..2 : Tick(d)
RObserve == rec.on /\ Observed < MaxObs /\ \E n \in RecNames, v \in RecVals : Observe(n, v)
RUpkeep == rec.on /\ Upkeep
RRender == rec.on /\ Render
RecNext == RSetBucketsForMetric \/ RSetBuckets \/ RSetSummary \/ RSetQuantiles \/ RBuild \/ RRecStart
           \/ RTick \/ RObserve \/ RUpkeep \/ RRender

HistSpec  == Init /\ [][HistNext]_vars
MatchSpec == Init /\ [][MatchNext]_vars
SummSpec  == Init /\ [][SummNext]_vars
RecSpec   == Init /\ [][RecNext]_vars

(* -------------------------------------------------------------- export --- *)
(* spec -> implementation: every case of the export scopes with the result the specification      *)
(* computes; `c15 replay` runs each on the real code and compares, and logs (a subset of) them     *)
(* as traces for TracePromHist.                                                                    *)
HView(hh) == [buckets |-> hh.buckets, count |-> hh.count, sum |-> hh.sum]
HistCases(u_) ==
  LET BL == SetToSeq(BoundLists)
      SL == SetToSeq(SeqOf(SampleVals, XMaxSamples))
  IN [k \in 1..(Len(BL) * Len(SL)) |->
        LET b == BL[((k - 1) \div Len(SL)) + 1]
            s == SL[((k - 1) % Len(SL)) + 1]
        IN [kind |-> "hist", bounds |-> b, samples |-> s, asc |-> Ascending(b),
            single |-> HView(FoldLeft(RecordOp, NewHistOp(b), s)),
            many |-> HView(RecordManyOp(NewHistOp(b), s))]]

XNames == SetToSeq(MCNames \ {<<>>})       \* the empty name cannot be rendered (ill-formed exposition, C08)
MatchCases(u_) ==
  LET CS == SetToSeq(SeqOf(Matchers, XMaxMatchers))
      Prog(cs, g) ==
        LET calls == [i \in DOMAIN cs |-> [kind |-> cs[i].kind, pat |-> cs[i].pat, b |-> <<F(i)>>]]
            b1 == FoldLeft(LAMBDA b, c : OvrOp(b, Mt(c.kind, c.pat), c.b), NewBuilder, calls)
            b2 == IF g THEN [b1 EXCEPT !.global = GlobalB] ELSE b1
        IN [kind |-> "match", calls |-> calls, global |-> IF g THEN GlobalB ELSE <<>>, names |-> XNames,
            expect |-> [j \in DOMAIN XNames |->
                          LET c == GetDistribution(b2, San(XNames[j])) IN
                          [t |-> c.t, type |-> GetType(b2, San(XNames[j])), bounds |-> c.bounds]]]
  IN [k \in 1..(2 * Len(CS)) |-> Prog(CS[((k - 1) \div 2) + 1], k % 2 = 0)]

(* summary programs: every sequence of add(dt) / snap(dt) steps up to XSummLen for every (n, d) *)
SummLetters == {[o |-> o, dt |-> dt] : o \in {"add", "snap"}, dt \in 0..MaxDt}
SummCases(u_) ==
  LET LS == SetToSeq(SeqOf(SummLetters, XSummLen) \ {<<>>})
      ND == SetToSeq((1..MaxN) \X (1..MaxDur))
      Prog(nd, ls) ==
        LET times == [i \in DOMAIN ls |-> FoldLeft(LAMBDA a, j : a + ls[j].dt, 0, [j \in 1..i |-> j])]
            nadd(i) == Cardinality({j \in 1..i : ls[j].o = "add"})
            ops == [i \in DOMAIN ls |->
                      IF ls[i].o = "add" THEN [o |-> "add", xs |-> <<[v |-> F(8 * nadd(i)), ts |-> times[i]]>>]
                      ELSE [o |-> "snap", t |-> times[i]]]
            \* state after the first i steps
            st(i) == FoldLeft(LAMBDA d, j : IF ops[j].o = "add" THEN FeedSumm(d, ops[j].xs) ELSE d,
                              NewSummDist(nd[1], nd[2]), [j \in 1..i |-> j])
        IN [kind |-> "summ", n |-> nd[1], d |-> nd[2], ops |-> ops,
            expect |-> [i \in DOMAIN ls |-> IF ops[i].o = "snap" THEN Len(SnapshotOp(st(i).rs, times[i])) ELSE st(i).rs.count]]
  IN [k \in 1..(Len(ND) * Len(LS)) |-> Prog(ND[((k - 1) \div Len(LS)) + 1], LS[((k - 1) % Len(LS)) + 1])]

(* recorder programs: every sequence of XRecLen steps over a small alphabet, closed by a render, for a *)
(* family of configurations (overrides / global buckets / summary window)                              *)
RecLetters == {[o |-> "tick", d |-> 1], [o |-> "tick", d |-> 2],
               [o |-> "obs", name |-> <<cA>>, v |-> F(8)], [o |-> "obs", name |-> <<cA>>, v |-> F(40)],
               [o |-> "obs", name |-> <<cA, cB>>, v |-> F(16)], [o |-> "obs", name |-> <<c9, cDot>>, v |-> F(-8)],
               [o |-> "render"], [o |-> "upkeep"]}
RecCfgs ==
  <<[calls |-> <<>>, global |-> <<>>, n |-> 2, d |-> 1],
    [calls |-> <<>>, global |-> <<>>, n |-> 1, d |-> 2],
    [calls |-> <<>>, global |-> <<F(8), F(16)>>, n |-> 0, d |-> 0],
    [calls |-> <<[kind |-> "full", pat |-> <<cA>>, b |-> <<F(8), F(40)>>]>>, global |-> <<>>, n |-> 2, d |-> 2],
    [calls |-> <<[kind |-> "prefix", pat |-> <<cA>>, b |-> <<F(40)>>], [kind |-> "full", pat |-> <<cA>>, b |-> <<F(0), F(8)>>]>>,
     global |-> <<>>, n |-> 3, d |-> 1],
    [calls |-> <<[kind |-> "suffix", pat |-> <<cB>>, b |-> <<F(16)>>], [kind |-> "prefix", pat |-> <<cA, cB>>, b |-> <<F(8), F(8)>>]>>,
     global |-> <<F(-8)>>, n |-> 0, d |-> 0],
    [calls |-> <<[kind |-> "suffix", pat |-> <<cDot>>, b |-> <<F(-8), F(0)>>]>>, global |-> <<>>, n |-> 2, d |-> 1],
    [calls |-> <<[kind |-> "full", pat |-> <<cUs, cUs>>, b |-> <<PInf>>], [kind |-> "prefix", pat |-> <<>>, b |-> <<NInf, F(8), NaN>>]>>,
     global |-> <<>>, n |-> 1, d |-> 1]>>
RecCases(u_) ==
  LET LS == SetToSeq(SeqOf(RecLetters, XRecLen))
  IN [k \in 1..(Len(RecCfgs) * Len(LS)) |->
        LET c == RecCfgs[((k - 1) \div Len(LS)) + 1] IN
        [kind |-> "rec", calls |-> c.calls, global |-> c.global, n |-> c.n, d |-> c.d, qs |-> <<0, 500, 1000>>,
         ops |-> LS[((k - 1) % Len(LS)) + 1] \o <<[o |-> "render"]>>]]

ExportInit ==
  /\ ndJsonSerialize(IOEnv.X_HIST, HistCases(0))
  /\ ndJsonSerialize(IOEnv.X_MATCH, MatchCases(0))
  /\ ndJsonSerialize(IOEnv.X_SUMM, SummCases(0))
  /\ ndJsonSerialize(IOEnv.X_REC, RecCases(0))
  /\ PrintT(<<"EXPORTED", Len(HistCases(0)), Len(MatchCases(0)), Len(SummCases(0)), Len(RecCases(0))>>)
  /\ Init
ExportSpec == ExportInit /\ [][UNCHANGED vars]_vars
=============================================================================
