SPECIFICATION Spec
CONSTANTS
 Series = {1, 2, 3}
 NSamples = 2
 Bounds = {1}
 Workers = {"w1", "w2"}
 Renderers = {"w1", "fin"}
 CreateCheckThenInsert = FALSE
INVARIANTS TypeOK InvConservation InvViewsMonotone InvViewsExact InvQuiescentExact
CHECK_DEADLOCK FALSE
