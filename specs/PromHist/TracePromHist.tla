--------------------------- MODULE TracePromHist ---------------------------
(* Trace validation for C15.  Every line of the ndjson trace written by       *)
(* harness/src/bin/c15.rs is one public call on the real code together with    *)
(* what was observed after it; the call is taken with the action of            *)
(* PromHist.tla on the logged arguments and the observation must equal the     *)
(* state the specification computes.  `reset` starts a new case.  All property *)
(* invariants of PromHist.tla are evaluated in every state.                    *)
(*   hist : h_new, h_rec, h_many          (Histogram::new / record / record_many, buckets()/count()/sum())   *)
(*   match: pb_new, pb_ovr, pb_global, pb_summ, pb_qs, pb_build, dist  (builder calls; dist = one fresh      *)
(*          recorder, one histogram of that name, the TYPE line and the le labels of its render())           *)
(*   summ : s_new, s_add, s_snap           (Distribution::new_summary / record_samples, snapshot().count(),   *)
(*          quantiles of the snapshot x 1000)                                                                *)
(*   rec  : r_start, tick, obs, upkeep, render  (recorder on a mock clock; render() parsed into families)    *)
(*   par  : pb_*, par   (real-parallel drains, PromDrain.tla: all samples recorded, then render() and          *)
(*          run_upkeep() - or two render() - released together on two threads, then a quiescent render();     *)
(*          a pure observation: every render must be exact and nothing may decrease towards the final one)    *)
(* A panic in the code under test, a `vecmismatch` (result differs from the one TLC exported) or a            *)
(* `parse_error` (render() is not well-formed) is not a behaviour.                                            *)
EXTENDS PromHist, Json, IOUtils
VARIABLE l
Rec == ndJsonDeserialize(IOEnv.TRACE)
tvars == <<vars, l>>

E == Rec[l]
Step == l' = l + 1
NoNames == {}

Same(what, expected, got) ==
  IF expected = got THEN TRUE
  ELSE Print(<<"MISMATCH at line", l, what, "expected", expected, "got", got>>, FALSE)

HistObs == /\ Same("buckets", h'.buckets, E.buckets)
           /\ Same("count", h'.count, E.count)
           /\ Same("sum", h'.sum, E.sum)

(* rendered quantiles of a summary: the configured ones, each 0 for an empty window, else within the   *)
(* sketch's relative error of [min, max] of the window the specification computes                      *)
QsOK(win, qs, conf) ==
  /\ Same("quantile labels", conf, [i \in DOMAIN qs |-> qs[i][1]])
  /\ \A i \in DOMAIN qs :
       IF QuantileOK(win, qs[i][2]) THEN TRUE
       ELSE Print(<<"QUANTILE out of range at line", l, "q", qs[i], "window", win>>, FALSE)

FamOK(v, f) ==
  /\ Same("type", v.type, f.type)
  /\ Same("kind", v.kind, f.kind)
  /\ Same("sum", v.sum, f.sum)
  /\ Same("count", v.count, f.count)
  /\ IF v.kind = "histogram"
     THEN /\ Same("le", v.les, f.les)
          /\ Same("bucket counts", v.counts, f.counts)
          /\ Same("+Inf", v.inf, f.inf)
          /\ f.qs = <<>>
     ELSE /\ f.les = <<>>
          /\ QsOK(v.win, f.qs, pb.qs)
ViewOK(view, fams) ==
  /\ Same("families", Len(view), Len(fams))
  /\ \A i \in DOMAIN view :
       LET J == {j \in DOMAIN fams : fams[j].name = view[i].name} IN
       IF J = {} THEN Print(<<"MISSING family at line", l, view[i].name>>, FALSE)
       ELSE FamOK(view[i], fams[CHOOSE j \in J : TRUE])

DistObs(e) ==
  /\ Same("sanitised name", San(e.name), e.rname)
  /\ Same("TYPE", last'.type, e.type)
  /\ Same("distribution", last'.choice.t, e.kind)
  /\ Same("bounds", last'.choice.bounds, e.les)
  /\ (e.kind = "summary" => Same("quantiles", Len(pb.qs), e.nq))
  /\ IF \E o \in pb.ovr : ~RawMatchOK(o, e.name) /\ CF15a(o, e.name)
     THEN PrintT(<<"KNOWN", "CF15a", l>>) ELSE TRUE

(* ---- real-parallel drains (the schedule is not observable; what PromDrain.tla proves for every schedule ---- *)
(* ---- is checked: InvViewsExact / InvQuiescentExact and InvViewsMonotone)                                  ---- *)
ExpectedFam(name, samples) ==
  LET key == San(name)
      c   == GetDistribution(pb, key)
  IN IF c.t = "histogram"
     THEN [name |-> key, type |-> GetType(pb, key), kind |-> "histogram", les |-> c.bounds,
           counts |-> [i \in DOMAIN c.bounds |-> CountLe(samples, c.bounds[i])],   \* number of samples <= bound
           inf |-> Len(samples), sum |-> SumOf(samples), count |-> Len(samples)]
     ELSE [name |-> key, type |-> GetType(pb, key), kind |-> "summary", les |-> <<>>, counts |-> <<>>,
           inf |-> 0, sum |-> SumOf(samples), count |-> Len(samples)]
FamProj(f) == [name |-> f.name, type |-> f.type, kind |-> f.kind, les |-> f.les, counts |-> f.counts, inf |-> f.inf,
               sum |-> f.sum, count |-> f.count]
RenderExact(series, fams, what) ==
  /\ Same(<<what, "families">>, Len(series), Len(fams))
  /\ \A i \in DOMAIN series :
       LET key == San(series[i].name)
           J   == {j \in DOMAIN fams : fams[j].name = key}
       IN IF J = {} THEN Print(<<"MISSING family at line", l, what, key>>, FALSE)
          ELSE Same(what, ExpectedFam(series[i].name, series[i].samples), FamProj(fams[CHOOSE j \in J : TRUE]))
NoDecrease(before, after) ==
  \A i \in DOMAIN before : \A j \in DOMAIN after :
     before[i].name = after[j].name =>
        IF /\ after[j].count >= before[i].count /\ after[j].inf >= before[i].inf
           /\ Len(after[j].counts) = Len(before[i].counts)
           /\ \A k \in DOMAIN before[i].counts : after[j].counts[k] >= before[i].counts[k]
        THEN TRUE
        ELSE Print(<<"DECREASE at line", l, before[i], after[j]>>, FALSE)
ParObs(e) ==
  /\ pb.built
  /\ RenderExact(e.series, e.final, "quiescent render")
  /\ \A r \in DOMAIN e.conc : NoDecrease(e.conc[r], e.final) /\ RenderExact(e.series, e.conc[r], "concurrent render")

TraceReset ==
  /\ h' = NoHist /\ hs' = <<>> /\ hfl' = [eqv |-> TRUE, mono |-> TRUE]
  /\ pb' = NewBuilder /\ last' = [set |-> FALSE]
  /\ sd' = NoDist /\ snap' = [set |-> FALSE]
  /\ rec' = NoRec

TraceNext ==
  /\ l <= Len(Rec)
  /\ CASE E.ev = "reset"     -> TraceReset /\ Step
       [] E.ev = "h_new"     -> HistNew(E.bounds) /\ Step /\ Same("new", E.bounds # <<>>, E.ok)
       [] E.ev = "h_rec"     -> Record(E.s) /\ Step /\ HistObs
       [] E.ev = "h_many"    -> RecordMany(E.batch) /\ Step /\ HistObs
       [] E.ev = "pb_new"    -> BuilderNew /\ Step
       [] E.ev = "pb_ovr"    -> SetBucketsForMetric(Mt(E.kind, E.pat), E.b) /\ Step
       [] E.ev = "pb_global" -> SetBuckets(E.b) /\ Step
       [] E.ev = "pb_summ"   -> SetSummary(E.n, E.d) /\ Step
       [] E.ev = "pb_qs"     -> SetQuantiles(E.qs) /\ Step
       [] E.ev = "pb_build"  -> Build /\ Step
       [] E.ev = "dist"      -> Choose(E.name) /\ Step /\ DistObs(E)
       [] E.ev = "s_new"     -> SummNew(E.n, E.d) /\ Step
       [] E.ev = "s_add"     -> SummAdd(E.xs) /\ Step /\ Same("count", sd'.rs.count, E.count) /\ Same("sum", sd'.sum, E.sum)
       [] E.ev = "s_snap"    -> /\ SummSnapshot(E.t) /\ Step
                                /\ Same("snapshot count", Len(snap'.ids), E.n)
                                /\ Same("total", sd.rs.count, E.total)
                                /\ QsOK(WindowVals(sd, snap'), E.qs, <<0, 500, 1000>>)
       [] E.ev = "r_start"   -> RecStart /\ Step
       [] E.ev = "tick"      -> Tick(E.d) /\ Step
       [] E.ev = "obs"       -> Observe(E.name, E.v) /\ Step
       [] E.ev = "upkeep"    -> Upkeep /\ Step
       [] E.ev = "render"    -> Render /\ Step /\ ViewOK(rec'.view, E.fams)
       [] E.ev = "par"       -> ParObs(E) /\ Step /\ UNCHANGED vars
       [] OTHER -> FALSE      \* panic / vecmismatch / parse_error / unknown event: not a behaviour

TraceInit == Init /\ l = 1
TraceSpec == TraceInit /\ [][TraceNext]_tvars
TraceAccepted ==
  LET d == TLCGet("stats").diameter IN
  IF d - 1 = Len(Rec) THEN TRUE
  ELSE Print(<<"TRACE REJECTED at line", d, Rec[d]>>, FALSE)
=============================================================================
