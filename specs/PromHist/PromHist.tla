------------------------------ MODULE PromHist ------------------------------
(* C15: histogram buckets and summary windows mean what Prometheus says.      *)
(*                                                                            *)
(* Four parts, each mirroring one piece of code, each with its own state:     *)
(*  H  metrics-util/src/storage/histogram.rs  Histogram::{new,record,         *)
(*     record_many}                       variables h, hs, hfl                *)
(*  M  metrics-exporter-prometheus common.rs (Matcher, derive(Ord), matches,   *)
(*     sanitized), exporter/builder.rs (set_buckets, set_buckets_for_metric,   *)
(*     set_bucket_count/duration, set_quantiles), distribution.rs              *)
(*     (DistributionBuilder::{new,get_distribution,get_distribution_type})     *)
(*                                         variables pb, last                 *)
(*  S  distribution.rs RollingSummary::{new,add,snapshot} and                  *)
(*     Distribution::record_samples for a summary      variables sd, snap     *)
(*  R  recorder.rs: registered series, samples pending in the AtomicBucket,    *)
(*     drain (run_upkeep / render) block by block, render() view               *)
(*                                         variable rec                       *)
(*                                                                            *)
(* Values.  A sample / bound is a record [k, n]: k = "fin" with the integer n  *)
(* (the harness uses eighths, so sums are exact in f64) or one of the symbolic *)
(* IEEE specials "nan", "pinf", "ninf" (n = 0).  Le and Plus are the IEEE      *)
(* tables of `<=` and `+` on them.                                             *)
(* Time is an integer number of ticks (harness: 1 tick = 1 ms on a mock clock).*)
(* Strings (metric names, matcher patterns) are sequences of code points.      *)
EXTENDS Integers, Sequences, FiniteSets, SequencesExt, FiniteSetsExt, TLC

CONSTANTS BlockSize,   \* AtomicBucket block size (64 on 64-bit targets)
          DefaultN,    \* DEFAULT_SUMMARY_BUCKET_COUNT = 3
          DefaultD,    \* DEFAULT_SUMMARY_BUCKET_DURATION = 20 s, in ticks
          Names        \* names over which InvChoiceAll / InvRawMatch quantify (exhaustive runs)

VARIABLES h, hs, hfl, pb, last, sd, snap, rec
vars  == <<h, hs, hfl, pb, last, sd, snap, rec>>
hvars == <<h, hs, hfl>>
mvars == <<pb, last>>
svars == <<sd, snap>>

Min2(a, b) == IF a < b THEN a ELSE b
Max2(a, b) == IF a > b THEN a ELSE b
Abs(x) == IF x < 0 THEN -x ELSE x

(* ------------------------------------------------------------------------ *)
(* Values                                                                    *)
(* ------------------------------------------------------------------------ *)
F(n) == [k |-> "fin", n |-> n]
NaN  == [k |-> "nan", n |-> 0]
PInf == [k |-> "pinf", n |-> 0]
NInf == [k |-> "ninf", n |-> 0]
IsVal(v) == /\ v.k \in {"fin", "nan", "pinf", "ninf"}
            /\ v.n \in Int
            /\ (v.k # "fin" => v.n = 0)
IsValSeq(s) == \A i \in DOMAIN s : IsVal(s[i])

(* IEEE 754 `a <= b`: false whenever a NaN is involved *)
Le(a, b) == CASE a.k = "nan" \/ b.k = "nan" -> FALSE
              [] a.k = "ninf" -> TRUE
              [] b.k = "pinf" -> TRUE
              [] a.k = "pinf" -> FALSE
              [] b.k = "ninf" -> FALSE
              [] OTHER -> a.n <= b.n

(* IEEE 754 `a + b` (no overflow: the finite values are small) *)
Plus(a, b) == CASE a.k = "nan" \/ b.k = "nan" -> NaN
                [] a.k = "pinf" -> IF b.k = "ninf" THEN NaN ELSE PInf
                [] a.k = "ninf" -> IF b.k = "pinf" THEN NaN ELSE NInf
                [] b.k = "pinf" -> PInf
                [] b.k = "ninf" -> NInf
                [] OTHER -> F(a.n + b.n)
SumOf(s) == FoldLeft(Plus, F(0), s)

(* "ascending bucket bounds" of the property: b1 <= b2 <= ... under IEEE (so no NaN bound unless alone) *)
Ascending(bs) == \A i \in 1..(Len(bs) - 1) : Le(bs[i], bs[i + 1])

(* ------------------------------------------------------------------------ *)
(* H: Histogram                                                              *)
(* ------------------------------------------------------------------------ *)
NoHist == [bounds |-> <<>>, buckets |-> <<>>, count |-> 0, sum |-> F(0)]       \* Histogram::new(&[]) = None
NewHistOp(bs) == [bounds |-> bs, buckets |-> [i \in DOMAIN bs |-> 0], count |-> 0, sum |-> F(0)]

(* Histogram::record: sum, count, then `for (idx, bucket) in bounds: if sample <= *bucket { buckets[idx] += 1 }` *)
RecordOp(hh, s) ==
  [hh EXCEPT !.sum = Plus(@, s),
             !.count = @ + 1,
             !.buckets = [i \in DOMAIN hh.bounds |-> IF Le(s, hh.bounds[i]) THEN @[i] + 1 ELSE @[i]]]

(* Histogram::record_many: every sample is counted in the FIRST bound it is <= (then `break`), *)
(* the local vector is turned into running sums by the sequential loop                          *)
(* `for idx in 0..len-1 { bucketed[idx+1] += bucketed[idx] }`, then merged.                      *)
FirstIdx(bs, s) == LET I == {i \in DOMAIN bs : Le(s, bs[i])} IN IF I = {} THEN 0 ELSE Min(I)
RecordManyOp(hh, batch) ==
  LET nb   == Len(hh.bounds)
      hit  == [i \in 1..nb |-> Cardinality({k \in DOMAIN batch : FirstIdx(hh.bounds, batch[k]) = i})]
      pref == FoldLeft(LAMBDA acc, i : Append(acc, (IF i = 1 THEN 0 ELSE acc[i - 1]) + hit[i]), <<>>, [i \in 1..nb |-> i])
      lsum == FoldLeft(Plus, F(0), batch)       \* `let mut sum = 0.0; sum += *sample`
  IN [hh EXCEPT !.buckets = [i \in 1..nb |-> @[i] + pref[i]],
                !.sum = Plus(@, lsum),
                !.count = @ + Len(batch)]

Grows(a, b) == /\ b.count >= a.count
               /\ \A i \in DOMAIN a.buckets : b.buckets[i] >= a.buckets[i]

HistNew(bs) ==
  /\ h' = IF bs = <<>> THEN NoHist ELSE NewHistOp(bs)
  /\ hs' = <<>>
  /\ hfl' = [eqv |-> TRUE, mono |-> TRUE]
  /\ UNCHANGED <<mvars, svars, rec>>

Record(s) ==
  /\ h.bounds # <<>>
  /\ h' = RecordOp(h, s)
  /\ hs' = Append(hs, s)
  /\ hfl' = [hfl EXCEPT !.mono = @ /\ Grows(h, h')]
  /\ UNCHANGED <<mvars, svars, rec>>

RecordMany(batch) ==
  /\ h.bounds # <<>>
  /\ h' = RecordManyOp(h, batch)
  /\ hs' = hs \o batch
  /\ hfl' = [eqv |-> hfl.eqv /\ (h' = FoldLeft(RecordOp, h, batch)), mono |-> hfl.mono /\ Grows(h, h')]
  /\ UNCHANGED <<mvars, svars, rec>>

(* ---- the property, on a histogram record hh with the history of samples s ---- *)
CountLe(s, b) == Cardinality({k \in DOMAIN s : Le(s[k], b)})
HistCountsOK(hh, s) ==      \* count reported for bound b = number of samples <= b
  Ascending(hh.bounds) => \A i \in DOMAIN hh.bounds : hh.buckets[i] = CountLe(s, hh.bounds[i])
HistMonotoneOK(hh) ==       \* counts never decrease from one bound to the next, +Inf (= count) is the largest
  Ascending(hh.bounds) => /\ \A i \in 1..(Len(hh.bounds) - 1) : hh.buckets[i] <= hh.buckets[i + 1]
                          /\ \A i \in DOMAIN hh.bounds : hh.buckets[i] <= hh.count
HistTotalOK(hh, s) ==       \* the +Inf bucket (rendered from count) is the total; the sum is the sum
  /\ hh.count = Len(s)
  /\ hh.sum = SumOf(s)
HistOK(hh, s) == HistCountsOK(hh, s) /\ HistMonotoneOK(hh) /\ HistTotalOK(hh, s)

InvHistCounts   == HistCountsOK(h, hs)
InvHistMonotone == HistMonotoneOK(h)
InvHistTotal    == HistTotalOK(h, hs)
InvHistBatch    == Ascending(h.bounds) => hfl.eqv     \* every batch = the same samples recorded singly
InvHistTime     == hfl.mono                           \* no count ever decreases over time

(* ------------------------------------------------------------------------ *)
(* M: matchers, builder, distribution choice                                 *)
(* ------------------------------------------------------------------------ *)
(* formatting.rs sanitize_metric_name: first char [a-zA-Z_:], others [a-zA-Z0-9_:], else '_' *)
StartOK(c) == (c >= 97 /\ c <= 122) \/ (c >= 65 /\ c <= 90) \/ c = 95 \/ c = 58
CharOK(c)  == StartOK(c) \/ (c >= 48 /\ c <= 57)
San(s) == [i \in DOMAIN s |-> IF (i = 1 /\ StartOK(s[i])) \/ (i # 1 /\ CharOK(s[i])) THEN s[i] ELSE 95]

Mt(kind, pat) == [kind |-> kind, pat |-> pat]
SanM(m) == Mt(m.kind, San(m.pat))                      \* Matcher::sanitized
Matches(m, key) == CASE m.kind = "prefix" -> IsPrefix(m.pat, key)      \* key.starts_with(prefix)
                     [] m.kind = "suffix" -> IsSuffix(m.pat, key)      \* key.ends_with(suffix)
                     [] m.kind = "full"   -> key = m.pat
(* #[derive(Ord)] on enum Matcher { Full(String), Prefix(String), Suffix(String) }: variant order, *)
(* then String order = lexicographic on UTF-8 bytes = lexicographic on code points                 *)
Rank(kind) == CASE kind = "full" -> 0 [] kind = "prefix" -> 1 [] kind = "suffix" -> 2
LexLess(a, b) == LET n == Min2(Len(a), Len(b))
                     D == {i \in 1..n : a[i] # b[i]}
                 IN IF D = {} THEN Len(a) < Len(b) ELSE a[Min(D)] < b[Min(D)]
MatcherLess(x, y) == Rank(x.kind) < Rank(y.kind) \/ (Rank(x.kind) = Rank(y.kind) /\ LexLess(x.pat, y.pat))

DefaultQs == <<0, 500, 900, 950, 990, 999, 1000>>      \* quantiles x 1000
NewBuilder == [ovr |-> {}, global |-> <<>>, n |-> 0, d |-> 0, qs |-> DefaultQs, built |-> FALSE]
EffN(b) == IF b.n = 0 THEN DefaultN ELSE b.n
EffD(b) == IF b.d = 0 THEN DefaultD ELSE b.d

(* DistributionBuilder::new: overrides sorted by Matcher order *)
Sorted(b) == SortSeq(SetToSeq(b.ovr), LAMBDA x, y : MatcherLess(x.m, y.m))
(* get_distribution(name): first matching override in sorted order, else global buckets, else summary *)
GetDistribution(b, key) ==
  LET srt  == Sorted(b)
      hits == {i \in DOMAIN srt : Matches(srt[i].m, key)}
  IN IF hits # {} THEN [t |-> "histogram", bounds |-> srt[Min(hits)].b]
     ELSE IF b.global # <<>> THEN [t |-> "histogram", bounds |-> b.global]
     ELSE [t |-> "summary", bounds |-> <<>>]
(* get_distribution_type(name): global buckets first, then any matching override *)
GetType(b, key) ==
  IF b.global # <<>> THEN "histogram"
  ELSE IF \E o \in b.ovr : Matches(o.m, key) THEN "histogram"
  ELSE "summary"

BuilderNew ==
  /\ pb' = NewBuilder
  /\ last' = [set |-> FALSE]
  /\ UNCHANGED <<hvars, svars, rec>>
(* set_buckets_for_metric(matcher, values): HashMap insert under the SANITISED matcher (a later call *)
(* with the same sanitised matcher replaces the earlier one); the raw matcher is kept as history     *)
OvrOp(bb, m, b) == [bb EXCEPT !.ovr = {o \in @ : o.m # SanM(m)} \cup {[m |-> SanM(m), raw |-> m, b |-> b]}]
SetBucketsForMetric(m, b) ==
  /\ ~pb.built /\ b # <<>>
  /\ pb' = OvrOp(pb, m, b)
  /\ UNCHANGED <<last, hvars, svars, rec>>
SetBuckets(b) ==
  /\ ~pb.built /\ b # <<>>
  /\ pb' = [pb EXCEPT !.global = b]
  /\ UNCHANGED <<last, hvars, svars, rec>>
SetSummary(n, d) ==         \* set_bucket_count(n) + set_bucket_duration(d)
  /\ ~pb.built /\ n > 0 /\ d > 0
  /\ pb' = [pb EXCEPT !.n = n, !.d = d]
  /\ UNCHANGED <<last, hvars, svars, rec>>
SetQuantiles(qs) ==
  /\ ~pb.built /\ qs # <<>>
  /\ pb' = [pb EXCEPT !.qs = qs]
  /\ UNCHANGED <<last, hvars, svars, rec>>
Build ==
  /\ ~pb.built
  /\ pb' = [pb EXCEPT !.built = TRUE]
  /\ UNCHANGED <<last, hvars, svars, rec>>
(* what a histogram registered under the raw name `name` becomes (key_to_parts sanitises the name) *)
Choose(name) ==
  /\ pb.built
  /\ last' = [set |-> TRUE, name |-> name, choice |-> GetDistribution(pb, San(name)), type |-> GetType(pb, San(name))]
  /\ UNCHANGED <<pb, hvars, svars, rec>>

(* ---- the property ---- *)
Applicable(b, key) == {o \in b.ovr : Matches(o.m, key)}
(* full-name override first, then prefix, then suffix, then global buckets, otherwise a summary; *)
(* exposed as `histogram` exactly when buckets apply                                               *)
ChoiceOK(b, name, c, type) ==
  LET key == San(name)
      app == Applicable(b, key)
      OfKind(k) == {o \in app : o.m.kind = k}
      best == IF OfKind("full") # {} THEN "full" ELSE IF OfKind("prefix") # {} THEN "prefix" ELSE "suffix"
  IN /\ type = c.t
     /\ IF app # {}
        THEN c.t = "histogram" /\ \E o \in OfKind(best) : c.bounds = o.b
        ELSE IF b.global # <<>> THEN c.t = "histogram" /\ c.bounds = b.global
        ELSE c.t = "summary"
InvChoiceLast == last.set => ChoiceOK(pb, last.name, last.choice, last.type)
InvChoiceAll  == pb.built => \A n \in Names : ChoiceOK(pb, n, GetDistribution(pb, San(n)), GetType(pb, San(n)))

(* before / after sanitisation: an override whose matcher matches the name as the user wrote both  *)
(* must still apply after both were sanitised.  True for Full and Prefix (sanitisation is           *)
(* position-wise and the positions coincide).  Named deviation CF15a: a Suffix pattern whose first  *)
(* character is valid inside a name but not at its start (a digit) is sanitised as if it stood at   *)
(* position 0 ("99" -> "_9") while the same digit inside the metric name is kept ("p99"), so the     *)
(* override is lost (and applies to names ending in "_9" instead).                                  *)
SfxDigit(m) == m.kind = "suffix" /\ m.pat # <<>> /\ CharOK(m.pat[1]) /\ ~StartOK(m.pat[1])
RawMatchOK(o, name) == Matches(o.raw, name) => Matches(o.m, San(name))
CF15a(o, name) == SfxDigit(o.raw) /\ Len(name) > Len(o.raw.pat)
InvRawMatch == \A o \in pb.ovr : \A n \in Names : RawMatchOK(o, n) \/ CF15a(o, n)
InvRawMatchLast == last.set => \A o \in pb.ovr : RawMatchOK(o, last.name) \/ CF15a(o, last.name)
InvRawMatchStrict == \A o \in pb.ovr : \A n \in Names : RawMatchOK(o, n)     \* witness config only

(* ------------------------------------------------------------------------ *)
(* S: rolling summary                                                        *)
(* ------------------------------------------------------------------------ *)
(* RollingSummary: buckets newest first, each [begin, items]; items are the identities (index in   *)
(* the series' history `all`) of the samples its sketch holds.                                      *)
NewSummOp(n, d) == [n |-> n, d |-> d, buckets |-> <<>>, count |-> 0]

AddOp(r, id, now) ==
  LET D    == r.d
      W    == r.d * r.n                       \* max_bucket_duration
      bs   == r.buckets
      \* `for bucket in &mut self.buckets`: first bucket at which the loop breaks or returns
      Ev   == {i \in DOMAIN bs : now > bs[i].begin + D \/ (now >= bs[i].begin /\ now < bs[i].begin + D)}
      i0   == IF Ev = {} THEN 0 ELSE Min(Ev)
      hit  == i0 # 0 /\ ~(now > bs[i0].begin + D)
      \* `if let Some(cutoff) = now.checked_sub(max) { retain(|b| b.begin > cutoff) }`
      kept == IF now >= W THEN SelectSeq(bs, LAMBDA b : b.begin > now - W) ELSE bs
      one  == [begin |-> now, items |-> <<id>>]
  IN IF hit THEN [r EXCEPT !.count = @ + 1, !.buckets[i0].items = Append(@, id)]
     ELSE IF kept = <<>> THEN [r EXCEPT !.count = @ + 1, !.buckets = <<one>>]
     ELSE LET ref == kept[1].begin IN
          IF now > ref
          THEN \* begin = reftime + D; while now < begin || now >= end { begin += D }   (now >= ref + D here)
               LET begin == ref + D * ((now - ref) \div D) IN
               [r EXCEPT !.count = @ + 1,
                         !.buckets = <<[begin |-> begin, items |-> <<id>>]>> \o SubSeq(kept, 1, Min2(Len(kept), r.n - 1))]
          ELSE [r EXCEPT !.count = @ + 1, !.buckets = kept]          \* too old: counted, not stored

SnapshotOp(r, now) ==       \* identities of the samples in the merged Summary
  LET W    == r.d * r.n
      live == IF now >= W THEN SelectSeq(r.buckets, LAMBDA b : b.begin > now - W) ELSE r.buckets
  IN FlattenSeq([i \in DOMAIN live |-> live[i].items])

(* Distribution::Summary(RollingSummary, quantiles, sum) with its history *)
NewSummDist(n, d) == [t |-> "summary", rs |-> NewSummOp(n, d), all |-> <<>>, sum |-> F(0), ino |-> TRUE, maxts |-> 0]
NoDist == [t |-> "none"]
(* record_samples for a summary: for each (sample, ts) in order: hist.add(sample, ts); sum += sample *)
FeedSumm(dd, xs) ==
  FoldLeft(LAMBDA d, x : [d EXCEPT !.rs = AddOp(@, Len(d.all) + 1, x.ts),
                                   !.all = Append(@, x),
                                   !.sum = Plus(@, x.v),
                                   !.ino = @ /\ (d.all = <<>> \/ x.ts >= d.maxts),
                                   !.maxts = IF d.all = <<>> THEN x.ts ELSE Max2(@, x.ts)], dd, xs)
TakeSnap(dd, now) == [set |-> TRUE, now |-> now, ids |-> SnapshotOp(dd.rs, now), upto |-> Len(dd.all),
                      ino |-> dd.ino, maxts |-> dd.maxts]

SummNew(n, d) ==
  /\ n > 0 /\ d > 0
  /\ sd' = NewSummDist(n, d)
  /\ snap' = [set |-> FALSE]
  /\ UNCHANGED <<hvars, mvars, rec>>
SummAdd(xs) ==          \* one record_samples call; xs = <<[v, ts], ...>>, v finite
  /\ sd.t = "summary"
  /\ \A i \in DOMAIN xs : xs[i].v.k = "fin"
  /\ sd' = FeedSumm(sd, xs)
  /\ snap' = [set |-> FALSE]
  /\ UNCHANGED <<hvars, mvars, rec>>
SummSnapshot(now) ==
  /\ sd.t = "summary"
  /\ snap' = TakeSnap(sd, now)
  /\ UNCHANGED <<sd, hvars, mvars, rec>>

(* ---- the property ---- *)
SummTotalsOK(dd) ==          \* _count and _sum cover all samples ever added
  /\ dd.rs.count = Len(dd.all)
  /\ dd.sum = SumOf([i \in DOMAIN dd.all |-> dd.all[i].v])
SummStructOK(dd) ==          \* time-aligned buckets, newest first, at most n, every sample inside its bucket
  LET bs == dd.rs.buckets IN
  /\ Len(bs) <= dd.rs.n
  /\ \A i \in 1..(Len(bs) - 1) : bs[i].begin > bs[i + 1].begin /\ (bs[i].begin - bs[i + 1].begin) % dd.rs.d = 0
  /\ \A i \in DOMAIN bs : \A j \in DOMAIN bs[i].items :
        LET x == dd.all[bs[i].items[j]] IN x.ts >= bs[i].begin /\ x.ts < bs[i].begin + dd.rs.d
SnapOK(dd, sn) ==
  LET W == dd.rs.d * dd.rs.n IN
  /\ \A i \in DOMAIN sn.ids : sn.ids[i] \in 1..sn.upto                       \* only real samples
  /\ \A i, j \in DOMAIN sn.ids : i # j => sn.ids[i] # sn.ids[j]            \* each at most once
  /\ \A i \in DOMAIN sn.ids : dd.all[sn.ids[i]].ts > sn.now - W              \* only samples younger than the window
  /\ (sn.ino /\ sn.now >= sn.maxts) =>                                       \* non-decreasing timestamps:
       \A k \in 1..sn.upto : dd.all[k].ts > sn.now - W + dd.rs.d             \*   everything younger than W - D is in
                               => \E i \in DOMAIN sn.ids : sn.ids[i] = k
WindowVals(dd, sn) == [i \in DOMAIN sn.ids |-> dd.all[sn.ids[i]].v.n]

(* rendered quantile (x 1000, rounded) against the window (values in eighths, i.e. x 125 in thousandths): *)
(* 0 when the window is empty, otherwise within the sketch's relative error 1e-4 of [min, max]            *)
QuantileOK(win, qv) ==
  IF win = <<>> THEN qv = 0
  ELSE LET S  == {win[i] : i \in DOMAIN win}
           lo == Min(S) * 125
           hi == Max(S) * 125
       IN qv >= lo - (Abs(lo) \div 10000) - 2 /\ qv <= hi + (Abs(hi) \div 10000) + 2

InvSummTotals == sd.t = "summary" => SummTotalsOK(sd)
InvSummStruct == sd.t = "summary" => SummStructOK(sd)
InvSummSnap   == (sd.t = "summary" /\ snap.set) => SnapOK(sd, snap)

(* ------------------------------------------------------------------------ *)
(* R: the recorder                                                           *)
(* ------------------------------------------------------------------------ *)
(* rec.ser: sanitised name -> [pending, dist].  Assumption: distinct registered names have distinct *)
(* sanitised names and carry no labels (one series per family).                                      *)
NoRec == [on |-> FALSE, now |-> 0, ser |-> <<>>, view |-> <<>>, mono |-> TRUE]

(* AtomicBucket::clear_with hands over blocks of BlockSize samples, newest block first, each in push order *)
Blocks(p) == [j \in 1..((Len(p) + BlockSize - 1) \div BlockSize) |->
                SubSeq(p, (j - 1) * BlockSize + 1, Min2(j * BlockSize, Len(p)))]
Delivered(p) == Reverse(Blocks(p))

FeedBlock(dd, block) ==      \* Distribution::record_samples(block)
  IF dd.t = "histogram"
  THEN LET vs == [i \in DOMAIN block |-> block[i].v] IN [dd EXCEPT !.h = RecordManyOp(@, vs), !.hs = @ \o vs]
  ELSE FeedSumm(dd, block)
NewDistOf(b, key) ==
  LET c == GetDistribution(b, key) IN
  IF c.t = "histogram" THEN [t |-> "histogram", h |-> NewHistOp(c.bounds), hs |-> <<>>]
  ELSE NewSummDist(EffN(b), EffD(b))
(* drain_histograms_to_distributions for one series *)
DrainSeries(b, s) ==
  LET d0 == IF s.dist.t = "none" THEN NewDistOf(b, s.name) ELSE s.dist
  IN [s EXCEPT !.pending = <<>>, !.dist = FoldLeft(FeedBlock, d0, Delivered(s.pending))]
SeriesIdx(key) == {i \in DOMAIN rec.ser : rec.ser[i].name = key}

ViewOf(b, s, now) ==
  IF s.dist.t = "histogram"
  THEN [name |-> s.name, type |-> GetType(b, s.name), kind |-> "histogram", les |-> s.dist.h.bounds,
        counts |-> s.dist.h.buckets, inf |-> s.dist.h.count, sum |-> s.dist.h.sum, count |-> s.dist.h.count]
  ELSE LET sn == TakeSnap(s.dist, now) IN
       [name |-> s.name, type |-> GetType(b, s.name), kind |-> "summary", win |-> WindowVals(s.dist, sn), snap |-> sn,
        sum |-> s.dist.sum, count |-> s.dist.rs.count]
(* counts never decrease from one render to the next *)
ViewGrows(old, new) ==
  \A i \in DOMAIN old : \A j \in DOMAIN new :
     (old[i].name = new[j].name /\ old[i].kind = "histogram" /\ new[j].kind = "histogram") =>
        /\ new[j].inf >= old[i].inf /\ new[j].count >= old[i].count
        /\ \A k \in DOMAIN old[i].counts : new[j].counts[k] >= old[i].counts[k]

RecStart ==
  /\ pb.built
  /\ rec' = [NoRec EXCEPT !.on = TRUE]
  /\ UNCHANGED <<hvars, mvars, svars>>
Tick(d) ==
  /\ rec.on /\ d >= 0
  /\ rec' = [rec EXCEPT !.now = @ + d]
  /\ UNCHANGED <<hvars, mvars, svars>>
(* register_histogram(name) (first time) + Histogram::record(v): pushed with Instant::now() *)
Observe(name, v) ==
  /\ rec.on
  /\ LET key == San(name)
         x   == [v |-> v, ts |-> rec.now]
     IN IF SeriesIdx(key) = {}
        THEN rec' = [rec EXCEPT !.ser = Append(@, [name |-> key, pending |-> <<x>>, dist |-> NoDist])]
        ELSE LET i == CHOOSE i \in SeriesIdx(key) : TRUE IN
             rec' = [rec EXCEPT !.ser[i].pending = Append(@, x)]
  /\ UNCHANGED <<hvars, mvars, svars>>
Upkeep ==
  /\ rec.on
  /\ rec' = [rec EXCEPT !.ser = [i \in DOMAIN @ |-> DrainSeries(pb, @[i])]]
  /\ UNCHANGED <<hvars, mvars, svars>>
Render ==
  /\ rec.on
  /\ LET ser2 == [i \in DOMAIN rec.ser |-> DrainSeries(pb, rec.ser[i])]
         view == [i \in DOMAIN ser2 |-> ViewOf(pb, ser2[i], rec.now)]
     IN rec' = [rec EXCEPT !.ser = ser2, !.view = view, !.mono = @ /\ ViewGrows(rec.view, view)]
  /\ UNCHANGED <<hvars, mvars, svars>>

(* summary series only take finite samples (Summary::add ignores infinities; outside the property) *)
DistOK(dd) == CASE dd.t = "histogram" -> HistOK(dd.h, dd.hs)
                [] dd.t = "summary"   -> SummTotalsOK(dd) /\ SummStructOK(dd)
                [] OTHER -> TRUE
InvRecDists == \A i \in DOMAIN rec.ser : DistOK(rec.ser[i].dist)
(* exposed as histogram exactly when buckets apply, with the bounds of the chosen override *)
InvRecChoice ==
  \A i \in DOMAIN rec.ser :
     LET s == rec.ser[i] IN
     s.dist.t # "none" =>
        ChoiceOK(pb, s.name, [t |-> s.dist.t, bounds |-> IF s.dist.t = "histogram" THEN s.dist.h.bounds ELSE <<>>],
                 GetType(pb, s.name))
InvRecView ==
  \A j \in DOMAIN rec.view :
     LET v == rec.view[j] IN
     /\ v.type = v.kind
     /\ v.kind = "summary" =>           \* window as in SnapOK; _count and _sum cover every sample drained so far
          \E i \in DOMAIN rec.ser :
             LET dd == rec.ser[i].dist IN
             /\ rec.ser[i].name = v.name /\ SnapOK(dd, v.snap)
             /\ v.count = v.snap.upto
             /\ v.sum = SumOf([k \in 1..v.snap.upto |-> dd.all[k].v])
     /\ v.kind = "histogram" =>         \* +Inf = total, no bucket above it, le labels are the chosen bounds
          /\ v.inf = v.count
          /\ \A k \in DOMAIN v.counts : v.counts[k] <= v.inf
          /\ Len(v.counts) = Len(v.les)
InvRecTime == rec.mono

(* ------------------------------------------------------------------------ *)
Init ==
  /\ h = NoHist /\ hs = <<>> /\ hfl = [eqv |-> TRUE, mono |-> TRUE]
  /\ pb = NewBuilder /\ last = [set |-> FALSE]
  /\ sd = NoDist /\ snap = [set |-> FALSE]
  /\ rec = NoRec

TypeOK ==
  /\ IsValSeq(h.bounds) /\ IsValSeq(hs) /\ IsVal(h.sum) /\ h.count \in Nat /\ Len(h.buckets) = Len(h.bounds)
  /\ hfl.eqv \in BOOLEAN /\ hfl.mono \in BOOLEAN
  /\ pb.built \in BOOLEAN /\ pb.n \in Nat /\ pb.d \in Nat
  /\ \A o \in pb.ovr : o.m = SanM(o.raw) /\ o.b # <<>>
  /\ \A o1, o2 \in pb.ovr : o1.m = o2.m => o1 = o2          \* a HashMap: one entry per sanitised matcher
  /\ sd.t \in {"none", "summary"}
  /\ rec.on \in BOOLEAN /\ rec.now \in Nat
  /\ \A i, j \in DOMAIN rec.ser : rec.ser[i].name = rec.ser[j].name => i = j
=============================================================================
