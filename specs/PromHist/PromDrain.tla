------------------------------ MODULE PromDrain ------------------------------
(* C15, concurrent drains.  Inner::drain_histograms_to_distributions           *)
(* (metrics-exporter-prometheus/src/recorder.rs) is shared by                  *)
(* PrometheusHandle::render and PrometheusHandle::run_upkeep, which may run on  *)
(* two threads (scrape handler + upkeep task).  For every registered histogram  *)
(* it takes the `distributions` write lock, creates the series' Distribution    *)
(* if it is missing (`entry(..).or_insert_with(get_distribution)`) and feeds    *)
(* the samples pending in the AtomicBucket into it (`clear_with`), all in ONE   *)
(* critical section - action Entry.  "The first drain of a series creates its   *)
(* distribution" is therefore an explicit step here, and two drainers plus a    *)
(* final quiescent render run concurrently.                                     *)
(*                                                                              *)
(* CreateCheckThenInsert = TRUE is the witness variant: the existence check     *)
(* (read lock, action Check) and an UNCONDITIONAL insert of a fresh             *)
(* distribution (write lock, action Insert) are two critical sections.  TLC     *)
(* must reject it: a drainer that saw the series missing replaces a             *)
(* distribution that already received the pending samples.                      *)
(*                                                                              *)
(* All samples are recorded before the drains start (no push races with the     *)
(* bucket's swap: CF05a cannot interfere); sample j of a series has value j.    *)
(* A Distribution is abstracted to the sequence of samples fed into it; what a  *)
(* render shows for bound b is CountLe(xs, b), +Inf / _count is Len(xs).        *)
EXTENDS Integers, Sequences, FiniteSets, TLC

CONSTANTS Series,                 \* registered histogram series
          NSamples,               \* samples recorded per series before the drains
          Bounds,                 \* bucket bounds (integers)
          Workers,                \* the concurrent drainers
          Renderers,              \* those of Workers + "fin" that are render() calls (the others: run_upkeep())
          CreateCheckThenInsert   \* FALSE: the code; TRUE: check-then-insert witness

Fin == "fin"                      \* the quiescent render after the concurrent calls returned
Procs == Workers \cup {Fin}
Inf == NSamples + 1               \* stands for +Inf: every sample is <= it
AllBounds == Bounds \cup {Inf}

VARIABLES pending,   \* series -> samples still in its AtomicBucket
          dist,      \* series -> [has, xs]: the distributions map entry
          pc, todo, cur, fresh,    \* per process: control, series left, series in hand, result of the check
          views      \* the renders in the order of their snapshots: <<[by, c]>>, c[s][b] = count shown
vars == <<pending, dist, pc, todo, cur, fresh, views>>

Recorded(s) == [j \in 1..NSamples |-> j]
CountLe(xs, b) == Cardinality({k \in DOMAIN xs : xs[k] <= b})
Shown == [s \in Series |-> [b \in AllBounds |-> IF dist[s].has THEN CountLe(dist[s].xs, b) ELSE 0]]

Init ==
  /\ pending = [s \in Series |-> Recorded(s)]
  /\ dist = [s \in Series |-> [has |-> FALSE, xs |-> <<>>]]
  /\ pc = [p \in Procs |-> "start"]
  /\ todo = [p \in Procs |-> Series]
  /\ cur = [p \in Procs |-> CHOOSE s \in Series : TRUE]
  /\ fresh = [p \in Procs |-> FALSE]
  /\ views = <<>>

(* the call begins; the final render only once the concurrent calls have returned *)
Start(p) ==
  /\ pc[p] = "start"
  /\ p = Fin => \A q \in Workers : pc[q] = "done"
  /\ pc' = [pc EXCEPT ![p] = "loop"]
  /\ UNCHANGED <<pending, dist, todo, cur, fresh, views>>

(* `for (key, histogram) in histogram_handles` - HashMap order: any *)
Pick(p) ==
  /\ pc[p] = "loop" /\ todo[p] # {}
  /\ \E s \in todo[p] :
       /\ cur' = [cur EXCEPT ![p] = s]
       /\ todo' = [todo EXCEPT ![p] = @ \ {s}]
  /\ pc' = [pc EXCEPT ![p] = IF CreateCheckThenInsert THEN "check" ELSE "entry"]
  /\ UNCHANGED <<pending, dist, fresh, views>>

Drained(d, s) == [has |-> TRUE, xs |-> d.xs \o pending[s]]

(* the code: one write-locked section: or_insert_with(get_distribution) + clear_with(record_samples) *)
Entry(p) ==
  /\ pc[p] = "entry"
  /\ LET s == cur[p] IN
     /\ dist' = [dist EXCEPT ![s] = Drained(IF @.has THEN @ ELSE [has |-> TRUE, xs |-> <<>>], s)]
     /\ pending' = [pending EXCEPT ![s] = <<>>]
  /\ pc' = [pc EXCEPT ![p] = "loop"]
  /\ UNCHANGED <<todo, cur, fresh, views>>

(* witness variant: has_distribution under the read lock ... *)
Check(p) ==
  /\ pc[p] = "check"
  /\ fresh' = [fresh EXCEPT ![p] = ~dist[cur[p]].has]
  /\ pc' = [pc EXCEPT ![p] = "insert"]
  /\ UNCHANGED <<pending, dist, todo, cur, views>>
(* ... then, under the write lock, insert the fresh distribution unconditionally and drain into the entry *)
Insert(p) ==
  /\ pc[p] = "insert"
  /\ LET s == cur[p] IN
     /\ dist' = [dist EXCEPT ![s] = Drained(IF fresh[p] THEN [has |-> TRUE, xs |-> <<>>] ELSE @, s)]
     /\ pending' = [pending EXCEPT ![s] = <<>>]
  /\ pc' = [pc EXCEPT ![p] = "loop"]
  /\ UNCHANGED <<todo, cur, fresh, views>>

(* end of the drain loop: render() clones the map under the read lock and prints it; run_upkeep() returns *)
Finish(p) ==
  /\ pc[p] = "loop" /\ todo[p] = {}
  /\ views' = IF p \in Renderers THEN Append(views, [by |-> p, c |-> Shown]) ELSE views
  /\ pc' = [pc EXCEPT ![p] = "done"]
  /\ UNCHANGED <<pending, dist, todo, cur, fresh>>

Next == \E p \in Procs : Start(p) \/ Pick(p) \/ Entry(p) \/ Check(p) \/ Insert(p) \/ Finish(p)
Spec == Init /\ [][Next]_vars

(* ---- the property ---- *)
TypeOK ==
  /\ \A s \in Series : dist[s].has \in BOOLEAN /\ (~dist[s].has => dist[s].xs = <<>>)
  /\ \A p \in Procs : pc[p] \in {"start", "loop", "entry", "check", "insert", "done"}
(* no sample is lost or counted twice on its way from the bucket into the distribution *)
InvConservation ==
  \A s \in Series : \A b \in AllBounds :
     CountLe(dist[s].xs, b) + CountLe(pending[s], b) = CountLe(Recorded(s), b)
(* counts never decrease from one render to the next *)
InvViewsMonotone ==
  \A i, j \in DOMAIN views : i < j => \A s \in Series : \A b \in AllBounds : views[i].c[s][b] <= views[j].c[s][b]
(* every render made after the samples were recorded reports, for every bound, the number of samples <= it;
   in particular the quiescent one *)
ViewExact(v) == \A s \in Series : \A b \in AllBounds : v.c[s][b] = CountLe(Recorded(s), b)
InvViewsExact == \A i \in DOMAIN views : ViewExact(views[i])
InvQuiescentExact == pc[Fin] = "done" => (views # <<>> /\ ViewExact(views[Len(views)]))
=============================================================================
