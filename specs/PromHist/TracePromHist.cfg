SPECIFICATION TraceSpec
CONSTANTS
 BlockSize = 64
 DefaultN = 3
 DefaultD = 20000
 Names <- NoNames
INVARIANTS TypeOK InvHistCounts InvHistMonotone InvHistTotal InvHistBatch InvHistTime InvChoiceLast InvRawMatchLast InvSummTotals InvSummStruct InvSummSnap InvRecDists InvRecChoice InvRecView InvRecTime
POSTCONDITION TraceAccepted
CHECK_DEADLOCK FALSE
