"""Run one apalache-mc command (or one tlapm proof check) under a timeout and classify the result.
python3 stdlib only.

Used by checks/unbounded_<module>.py: an inductive-invariant argument is three `apalache-mc check`
runs (Init => IndInv, IndInv /\\ Next => IndInv', IndInv => Safety).  Nothing here decides a
property by itself: the functions only RETURN dicts; the caller records them in the evidence.

outcome values
  "NoError"   Apalache finished and found no counterexample to the obligation
  "Error"     Apalache produced a counterexample (path in "counterexample")
  "Deadlock"  Apalache found a state without successor (a modelling slip: add a stutter step)
  "Timeout"   killed by our timeout (the obligation is undecided)
  "ToolError" parse / type-check / internal failure or the tool is not installed
tlaps() outcomes: "Proved" (every proof obligation of the module discharged), "Failed" (some obligation
not discharged by any backend within its time limit: the PROOF is incomplete, this says nothing about the
property), "Timeout", "ToolError".
"""
import os, re, shutil, signal, subprocess, tempfile, time

ROOT = os.path.dirname(os.path.dirname(os.path.abspath(__file__)))
SPECS = os.path.join(ROOT, "specs")
WORKROOT = os.environ.get("VERIF_WORK_DIR", os.path.join(ROOT, "work"))
APALACHE = os.environ.get("APALACHE_MC", "apalache-mc")
CORES = int(os.environ.get("VERIF_APALACHE_CORES", "4"))

_OUTCOME = re.compile(r"The outcome is:\s*(\w+)")
_TRACE = re.compile(r"Check the trace in:\s*(\S+?\.tla)")
_VIOLATED = re.compile(r"State (\d+): state invariant (\d+) violated")
_FOUND = re.compile(r"Found (\d+) transitions")
_PICK = re.compile(r"Step (\d+): picking a transition out of (\d+) transition")


def available():
    return shutil.which(APALACHE) is not None


def version():
    try:
        p = subprocess.run([APALACHE, "version"], stdout=subprocess.PIPE, stderr=subprocess.STDOUT, timeout=120)
        lines = [l.strip() for l in p.stdout.decode("utf-8", "replace").splitlines() if re.match(r"^\d+\.\d+", l.strip())]
        return lines[-1] if lines else None
    except Exception:
        return None


def check(spec_dir, tla_file, init, inv, length, cinit=None, next_op="Next", timeout=1800, name=None,
          out_dir=None, extra=None, xmx="8g"):
    """`apalache-mc check --init=<init> --inv=<inv> --next=<next_op> --length=<length> [--cinit=..] <tla_file>`
    run in specs/<spec_dir> (so that INSTANCE/EXTENDS find the sibling modules).  Returns a dict
    {name, cmd, outcome, wall_s, exit_code, counterexample, violated, tail}."""
    cwd = spec_dir if os.path.isabs(spec_dir) else os.path.join(SPECS, spec_dir)
    out_dir = out_dir or os.path.join(WORKROOT, "apalache")
    cmd = [APALACHE, "check", "--out-dir=" + out_dir]
    if cinit:
        cmd.append("--cinit=" + cinit)
    cmd += ["--init=" + init, "--inv=" + inv, "--next=" + next_op, "--length=%d" % length]
    cmd += list(extra or []) + [tla_file]
    res = {"name": name or "%s/%s->%s/len%d" % (tla_file, init, inv, length), "cmd": " ".join(cmd), "cwd": cwd,
           "outcome": "ToolError", "wall_s": 0.0, "exit_code": None, "counterexample": None, "violated": None,
           "timeout_s": timeout, "tail": ""}
    if not available():
        res["tail"] = "%s not on PATH" % APALACHE
        return res
    os.makedirs(out_dir, exist_ok=True)
    tmp = tempfile.mkdtemp(prefix="tmp", dir=out_dir)     # SANY unpacks its standard modules here
    env = dict(os.environ)
    # the launcher makes ./tmp when TMPDIR is unset; keep the spec directories clean.  At most CORES cores.
    env["TMPDIR"] = tmp
    env["JVM_ARGS"] = "-Xmx%s -XX:ActiveProcessorCount=%d" % (xmx, CORES)
    t0 = time.time()
    try:
        p = subprocess.Popen(cmd, cwd=cwd, env=env, stdout=subprocess.PIPE, stderr=subprocess.STDOUT,
                             start_new_session=True)
    except OSError as ex:
        res["tail"] = "cannot start: %s" % ex
        shutil.rmtree(tmp, ignore_errors=True)
        return res
    timed_out = False
    try:
        out, _ = p.communicate(timeout=timeout)
    except subprocess.TimeoutExpired:
        timed_out = True
        try:
            os.killpg(p.pid, signal.SIGKILL)
        except OSError:
            pass
        out, _ = p.communicate()
    res["wall_s"] = round(time.time() - t0, 1)
    res["exit_code"] = p.returncode
    shutil.rmtree(tmp, ignore_errors=True)
    text = (out or b"").decode("utf-8", "replace")
    res["tail"] = "\n".join(l for l in text.splitlines() if "state invariant" not in l or "violated" in l)[-3000:]
    if timed_out:
        res["outcome"] = "Timeout"
        return res
    m = _OUTCOME.search(text)
    if m:
        o = m.group(1)
        # a NoError outcome only counts with a clean exit
        res["outcome"] = o if o in ("NoError", "Error", "Deadlock") else "ToolError"
        if o == "NoError" and p.returncode != 0:
            res["outcome"] = "ToolError"
    # non-vacuity data: symbolic transitions of Next, and how many of them are enabled from the initial
    # predicate (disabled ones are discarded before a step is picked)
    f = _FOUND.search(text)
    if f:
        res["transitions"] = int(f.group(1))
    for st, n in _PICK.findall(text):
        res.setdefault("enabled_at_step", {})[st] = int(n)
    t = _TRACE.search(text)
    if t:
        res["counterexample"] = t.group(1).rstrip(",")
    v = _VIOLATED.search(text)
    if v:
        res["violated"] = {"state": int(v.group(1)), "invariant_index": int(v.group(2))}
    return res


def inductive(module, spec_dir, tla_file, ind_inv="IndInv", safety="Safety", init="Init", next_op="NextS",
              cinit="ConstInit", timeout=1800, constants=None, tag=None, out_dir=None,
              proof_file=None, proof_constants=None, proof_timeout=1800):
    """The three obligations of an inductive-invariant argument with Apalache (for the constants admitted
    by `cinit`) and, when `proof_file` is given, the TLAPS proof of the same three facts for the constants
    admitted by the proof module's ASSUME.  Never raises, never exits.  Returns
    {module, tool, obligations: [{name, cmd, outcome, wall_s, ...}], constants, proved,
     tlaps: {...} | None, proved_unbounded}."""
    out_dir = out_dir or os.path.join(WORKROOT, "apalache", module + ("_" + tag if tag else ""))
    obs = []
    for nm, i, v, ln in (("Init => IndInv", init, ind_inv, 0),
                         ("IndInv /\\ Next => IndInv'", ind_inv, ind_inv, 1),
                         ("IndInv => Safety", ind_inv, safety, 0)):
        obs.append(check(spec_dir, tla_file, i, v, ln, cinit=cinit, next_op=next_op, timeout=timeout,
                         name=nm, out_dir=out_dir))
    res = {"module": module, "tool": "apalache-mc " + (version() or "?"), "obligations": obs,
           "constants": constants or {}, "proved": all(o["outcome"] == "NoError" for o in obs),
           "tlaps": None, "proved_unbounded": False}
    if proof_file:
        t = tlaps(spec_dir, proof_file, timeout=proof_timeout, out_dir=out_dir,
                  name="TLAPS: Spec => []Safety via the same IndInv (all three obligations, no size bound)")
        t["constants"] = proof_constants or {}
        obs.append(t)
        res["tlaps"] = {"file": proof_file, "outcome": t["outcome"], "obligations_total": t["obligations_total"],
                        "obligations_failed": t["obligations_failed"], "wall_s": t["wall_s"],
                        "constants": proof_constants or {}}
        res["proved_unbounded"] = t["outcome"] == "Proved"
    return res


def safety_drift(check_py, var, apa_tla, safety_op="Safety"):
    """Guard against drift: the conjuncts of `Safety` in the Apa module must be the invariant names the
    property's own check script gives to TLC (string constant `var` in checks/<check_py>)."""
    try:
        src = open(os.path.join(ROOT, "checks", check_py)).read()
        m = re.search(r'^%s\s*=\s*"([^"]*)"' % re.escape(var), src, re.M)
        tlc = set(m.group(1).split()) if m else None
        tla = open(apa_tla if os.path.isabs(apa_tla) else os.path.join(SPECS, apa_tla)).read()
        d = re.search(r"^%s\s*==(.*?)(?=^\s*$|^\\\*|^\(\*|^----|^====|^\S+\s*==)" % safety_op, tla, re.M | re.S)
        apa = set(re.findall(r"[A-Za-z_]\w*", d.group(1))) if d else None
        return {"tlc_invariants": sorted(tlc) if tlc is not None else None,
                "apalache_safety": sorted(apa) if apa is not None else None,
                "same": tlc is not None and tlc == apa}
    except OSError as ex:
        return {"tlc_invariants": None, "apalache_safety": None, "same": False, "error": str(ex)}


# ----------------------------------------------------------------------------- TLAPS
TLAPM = os.environ.get("TLAPM", "tlapm")
_ALL = re.compile(r"All (\d+) obligations? proved")
_FAILED = re.compile(r"(\d+)/(\d+) obligations? failed")
# <Module>Apa.tla EXTENDS Apalache (for Gen in ConstInit<n>); tlapm cannot load Apalache's own Apalache.tla
# (it aborts in its dependency pass), and no proof step uses Gen: a stub on tlapm's search path is enough.
# It must NOT sit next to the specs: SANY/Apalache would pick it up instead of the real module.
_STUB = ("------------------------------ MODULE Apalache ------------------------------\n"
         "Gen(n) == CHOOSE x : TRUE\n"
         "=============================================================================\n")


def tlaps(spec_dir, tla_file, timeout=1800, name=None, out_dir=None, stretch=3, threads=None):
    """`tlapm --threads N --cleanfp --stretch S --cache-dir <work> -I <stub dir> <tla_file>` in specs/<spec_dir>:
    re-checks every proof obligation from scratch (no fingerprints reused).  Returns a dict
    {name, cmd, outcome, wall_s, exit_code, obligations_total, obligations_failed, tail}."""
    cwd = spec_dir if os.path.isabs(spec_dir) else os.path.join(SPECS, spec_dir)
    out_dir = out_dir or os.path.join(WORKROOT, "apalache")
    stub = os.path.join(out_dir, "tlaps_stub")
    cache = os.path.join(out_dir, "tlacache")
    cmd = [TLAPM, "--threads", str(threads or CORES), "--cleanfp", "--stretch", str(stretch), "--cache-dir", cache,
           "-I", stub, tla_file]
    res = {"name": name or "TLAPS " + tla_file, "cmd": " ".join(cmd), "cwd": cwd, "outcome": "ToolError", "wall_s": 0.0,
           "exit_code": None, "obligations_total": None, "obligations_failed": None, "timeout_s": timeout, "tail": ""}
    if shutil.which(TLAPM) is None:
        res["tail"] = "%s not on PATH" % TLAPM
        return res
    os.makedirs(stub, exist_ok=True)
    os.makedirs(cache, exist_ok=True)
    with open(os.path.join(stub, "Apalache.tla"), "w") as f:
        f.write(_STUB)
    t0 = time.time()
    try:
        p = subprocess.Popen(cmd, cwd=cwd, stdout=subprocess.PIPE, stderr=subprocess.STDOUT, start_new_session=True)
    except OSError as ex:
        res["tail"] = "cannot start: %s" % ex
        return res
    timed_out = False
    try:
        out, _ = p.communicate(timeout=timeout)
    except subprocess.TimeoutExpired:
        timed_out = True
        try:
            os.killpg(p.pid, signal.SIGKILL)
        except OSError:
            pass
        out, _ = p.communicate()
    res["wall_s"] = round(time.time() - t0, 1)
    res["exit_code"] = p.returncode
    text = (out or b"").decode("utf-8", "replace")
    res["tail"] = "\n".join(l for l in text.splitlines() if re.search(r"ERROR|INFO|^File|abnormally", l))[-3000:]
    if timed_out:
        res["outcome"] = "Timeout"
        return res
    m, f = _ALL.search(text), _FAILED.search(text)
    if m and p.returncode == 0 and not f:
        res.update(outcome="Proved", obligations_total=int(m.group(1)), obligations_failed=0)
    elif f:
        res.update(outcome="Failed", obligations_total=int(f.group(2)), obligations_failed=int(f.group(1)))
    return res
