"""Shared orchestrator library: run TLC (exhaustive / simulate / trace validation), build and run
the Rust harness, known-findings protocol, evidence files.  python3 stdlib only."""
import json, os, re, subprocess, sys, time, shutil, hashlib

ROOT = os.path.dirname(os.path.dirname(os.path.abspath(__file__)))
SPECS = os.path.join(ROOT, "specs")
# The defaults are what MANIFEST commands use. bin/mutcheck overrides them to run a check against a
# scratch copy of /repo (with a mutant applied) without touching /repo, /verif/evidence or /verif/work.
HARNESS = os.environ.get("VERIF_HARNESS_DIR", os.path.join(ROOT, "harness"))
WORKROOT = os.environ.get("VERIF_WORK_DIR", os.path.join(ROOT, "work"))
REPLAYS = os.environ.get("VERIF_REPLAYS_DIR", os.path.join(ROOT, "replays"))
EVID = os.environ.get("VERIF_EVID_DIR", os.path.join(ROOT, "evidence"))
REPO = os.environ.get("VERIF_REPO_DIR", "/repo")
TLA_CP = "/opt/veriftools/tla/tla2tools.jar:/opt/veriftools/tla/CommunityModules-deps.jar"


class ToolError(Exception):
    pass


class CodeCrash(Exception):
    """The driver process was killed by SIGSEGV/SIGABRT/SIGBUS/SIGILL/SIGFPE while running the code under test.
    That is data about the code under test (memory unsafety, double free, abort), not a tool error."""
    def __init__(self, bin_name, args, rc, out, env):
        Exception.__init__(self, "driver %s killed by signal %d" % (bin_name, -rc))
        self.bin_name, self.args_list, self.rc, self.out, self.env = bin_name, [str(a) for a in args], rc, out, dict(env or {})


CRASH_SIGNALS = (-11, -6, -7, -4, -8)


def sh(cmd, timeout=600, env=None, cwd=None):
    e = dict(os.environ)
    if env:
        e.update(env)
    t0 = time.time()
    try:
        p = subprocess.run(cmd, cwd=cwd, env=e, stdout=subprocess.PIPE, stderr=subprocess.STDOUT,
                           timeout=timeout, shell=isinstance(cmd, str))
        return p.returncode, p.stdout.decode("utf-8", "replace"), time.time() - t0
    except subprocess.TimeoutExpired as ex:
        out = (ex.stdout or b"").decode("utf-8", "replace")
        return 124, out + "\n[timeout]", time.time() - t0


# ----------------------------------------------------------------------------- TLC

_COV = re.compile(r"^<(\w+) line \d+, col \d+ to line \d+, col \d+ of module (\w+)>: (\d+):(\d+)")


def _tlc_cmd(module, cfg, workers, metadir, extra, java_opts=None, xmx="8g"):
    cmd = ["java", "-XX:+UseParallelGC", "-Xmx" + xmx]
    if java_opts:
        cmd += java_opts
    cmd += ["-cp", TLA_CP, "tlc2.TLC", "-workers", str(workers), "-metadir", metadir, "-cleanup",
            "-noGenerateSpecTE", "-config", cfg] + extra + [module]
    return cmd


def parse_tlc(out):
    r = {"ok": False, "generated": 0, "distinct": 0, "depth": 0, "invariant": None, "error": None,
         "coverage": {}, "prints": []}
    for line in out.splitlines():
        m = re.search(r"(\d+) states generated, (\d+) distinct states found", line)
        if m:
            r["generated"], r["distinct"] = int(m.group(1)), int(m.group(2))
        m = re.search(r"depth of the complete state graph search is (\d+)", line)
        if m:
            r["depth"] = int(m.group(1))
        m = re.search(r"Error: Invariant (\w+) is violated", line)
        if m and not r["invariant"]:
            r["invariant"] = m.group(1)
        m = re.search(r"Error: (.*)", line)
        if m and not r["error"]:
            r["error"] = m.group(1)
        m = _COV.match(line)
        if m:
            name = m.group(1)
            r["coverage"][name] = r["coverage"].get(name, 0) + int(m.group(4))
        if line.startswith("<<") or line.startswith("\""):
            r["prints"].append(line)
    r["ok"] = ("Model checking completed. No error has been found." in out) or \
              ("Finished in" in out and not r["error"] and "Error" not in out)
    return r


def tlc_mc(specdir, module, cfg, workers=12, timeout=900, extra=None, coverage=True, env=None, tag=""):
    """Exhaustive (or -simulate via extra) TLC run in specdir. Returns parsed dict (+ 'out', 'wall')."""
    metadir = os.path.join(WORKROOT, "tlc_%s_%s_%d" % (module, tag or os.path.basename(cfg), os.getpid()))
    ex = list(extra or [])
    if coverage:
        ex = ["-coverage", "1"] + ex
    cmd = _tlc_cmd(module + ".tla", cfg, workers, metadir, ex)
    rc, out, wall = sh(cmd, timeout=timeout, cwd=os.path.join(SPECS, specdir), env=env)
    shutil.rmtree(metadir, ignore_errors=True)
    r = parse_tlc(out)
    r["rc"], r["out"], r["wall"] = rc, out, wall
    if rc == 124:
        r["ok"] = False
        r["error"] = "timeout"
    return r


def tlc_trace(specdir, module, cfg, trace_path, timeout=900, env=None):
    """Validate an ndjson trace against Trace<M>.  Returns dict: accepted, invariant, rejected_at,
    rejected_event, known (list of (tag, text)), states."""
    metadir = os.path.join(WORKROOT, "tlc_tr_%s_%d" % (module, os.getpid()))
    e = {"TRACE": os.path.abspath(trace_path)}
    if env:
        e.update(env)
    cmd = _tlc_cmd(module + ".tla", cfg, 1, metadir, [],
                   java_opts=["-Xss1g", "-Dtlc2.tool.queue.IStateQueue=StateDeque"], xmx="6g")
    rc, out, wall = sh(cmd, timeout=timeout, cwd=os.path.join(SPECS, specdir), env=e)
    shutil.rmtree(metadir, ignore_errors=True)
    r = parse_tlc(out)
    r["rc"], r["wall"] = rc, wall
    r["known"] = []
    for m in re.finditer(r'<<"KNOWN", "([^"]+)", (.*?)>>\s*$', out, re.M):
        r["known"].append((m.group(1), m.group(2)))
    m = re.search(r'"TRACE REJECTED at line",\s*(\d+),\s*(.*?)>>\s+FALSE', out, re.S)
    r["rejected_at"] = int(m.group(1)) if m else None
    r["rejected_event"] = re.sub(r"\s+", " ", m.group(2)) if m else None
    r["accepted"] = (rc == 0 and r["invariant"] is None and r["rejected_at"] is None
                     and "No error has been found" in out)
    # keep only a bounded tail of the output (error traces can be huge)
    r["out_tail"] = out[-3000:]
    r["out_head"] = "\n".join(l for l in out.splitlines()[:400] if "Error" in l or "error" in l)[:3000]
    if rc == 124:
        r["error"] = "timeout"
    return r


def replay_lines(out):
    """Extract the JSON payloads of <<"REPLAY", "...">> lines printed by a Sim spec."""
    res = []
    for line in out.splitlines():
        if line.startswith('<<"REPLAY", "'):
            s = line[len('<<"REPLAY", '):].rstrip()
            if s.endswith(">>"):
                s = s[:-2]
            try:
                res.append(json.loads(json.loads(s)))
            except Exception:
                pass
    return res


def last_state_var(out, var):
    """Value of variable `var` in the last state of a TLC error trace, converted from TLA+ tuple
    syntax to a Python object (tuples/sequences -> lists)."""
    blocks = re.split(r"^State \d+: .*$", out, flags=re.M)
    if len(blocks) < 2:
        return None
    last = blocks[-1]
    m = re.search(r"^/\\ %s = (.*?)(?=^/\\ |\Z)" % re.escape(var), last, re.M | re.S)
    if not m:
        return None
    txt = m.group(1)
    txt = txt.split("\n\n")[0]
    txt = txt.replace("<<", "[").replace(">>", "]")
    txt = re.sub(r"\bTRUE\b", "true", txt)
    txt = re.sub(r"\bFALSE\b", "false", txt)
    try:
        return json.loads(txt)
    except Exception:
        return None


# ----------------------------------------------------------------------------- harness

def cargo_build(bin_name, timeout=1200):
    lock_src = os.path.join(REPO, "Cargo.lock")
    lock_dst = os.path.join(HARNESS, "Cargo.lock")
    if not os.path.exists(lock_dst):
        shutil.copy(lock_src, lock_dst)
    env = {"CARGO_NET_OFFLINE": "true"}
    rc, out, wall = sh(["cargo", "build", "--offline", "--bin", bin_name], timeout=timeout, cwd=HARNESS, env=env)
    if rc != 0:
        # a pruned lock file can break offline resolution after dependency changes: retry from the repo's lock
        shutil.copy(lock_src, lock_dst)
        rc, out, wall = sh(["cargo", "build", "--offline", "--bin", bin_name], timeout=timeout, cwd=HARNESS, env=env)
    return rc == 0, out, wall


def harness(bin_name, args, timeout=600, env=None):
    exe = os.path.join(HARNESS, "target", "debug", bin_name)
    rc, out, wall = sh([exe] + [str(a) for a in args], timeout=timeout, env=env)
    if rc in CRASH_SIGNALS:
        raise CodeCrash(bin_name, args, rc, out, env)
    summ = None
    for line in reversed(out.strip().splitlines()):
        try:
            summ = json.loads(line)
            break
        except Exception:
            continue
    return rc, out, summ


def run_unbounded(chk, name):
    """Unbounded safety argument (Apalache inductive invariant + TLAPS proof, lib/apalache.py, notes/unbounded.md) for the
    module behind a property. Recorded in the evidence as data: it never decides the verdict of the check (a proof that
    does not go through says nothing about the code), and any failure of the tools is swallowed."""
    try:
        import importlib.util
        spec = importlib.util.spec_from_file_location("unb_" + name, os.path.join(ROOT, "checks", "unbounded_%s.py" % name))
        mod = importlib.util.module_from_spec(spec)
        spec.loader.exec_module(mod)
        r = mod.unbounded(chk)
        slim = {k: r.get(k) for k in ("module", "tool", "constants", "proved", "tlaps", "proved_unbounded", "safety", "safety_vs_tlc")}
        slim["obligations"] = [{k: o.get(k) for k in ("name", "outcome", "wall_s")} for o in r.get("obligations", [])]
        chk.notes["unbounded_" + name] = slim
        chk.log("unbounded %s: proved within bound=%s, proved unbounded (TLAPS)=%s" % (name, r.get("proved"), r.get("proved_unbounded")))
    except Exception as e:       # noqa: deliberately broad, see docstring
        chk.notes["unbounded_" + name] = {"error": repr(e)[:500]}
        chk.log("unbounded %s: not run (%r)" % (name, e))


# ----------------------------------------------------------------------------- findings / evidence

def known_findings():
    p = os.path.join(ROOT, "known_findings.json")
    if not os.path.exists(p):
        return {"findings": [], "fixed": []}
    return json.load(open(p))


class Check:
    def __init__(self, pid, tier, seed):
        self.pid, self.tier, self.seed = pid, tier, seed
        self.t0 = time.time()
        self.work = os.path.join(WORKROOT, pid)
        os.makedirs(self.work, exist_ok=True)
        os.makedirs(REPLAYS, exist_ok=True)
        os.makedirs(EVID, exist_ok=True)
        self.cov = {"states": 0, "transitions": 0, "traces_validated_against_impl": 0, "samples": [],
                    "evaluations": 0, "distinct_nontrivial": 0}
        self.assumptions = []
        self.violations = 0
        self.known_printed = set()
        self.listed = {f["id"]: f for f in known_findings().get("findings", []) if f.get("property") == pid}
        self.notes = {}

    def log(self, *a):
        print("[%s %6.1fs]" % (self.pid, time.time() - self.t0), *a, flush=True)

    def path(self, name):
        return os.path.join(self.work, name)

    # -- verdicts
    def violation(self, why, replay_src=None, payload=None):
        """Report a violation; replay_src is a file to keep, or payload a JSON-able object."""
        self.violations += 1
        name = "%s-%s-%d-%d" % (self.pid, self.tier, self.seed, self.violations)
        if replay_src and os.path.exists(replay_src):
            dst = os.path.join(REPLAYS, name + os.path.splitext(replay_src)[1])
            shutil.copy(replay_src, dst)
        else:
            dst = os.path.join(REPLAYS, name + ".json")
            json.dump(payload if payload is not None else {"why": why}, open(dst, "w"), indent=1)
        json.dump({"property": self.pid, "why": why}, open(dst + ".why.json", "w"), indent=1)
        self.log("violation:", why)
        print("VIOLATION property=%s replay=%s" % (self.pid, dst), flush=True)

    def known(self, fid, observed=""):
        """A finding observed on the real code. Listed -> KNOWN-FINDING line; not listed -> violation."""
        if fid in self.listed:
            if fid not in self.known_printed:
                self.known_printed.add(fid)
                print("KNOWN-FINDING: property=%s %s: %s" % (self.pid, fid, self.listed[fid]["what"]), flush=True)
            return True
        return False

    def tool_error(self, msg, out=""):
        self.log("TOOL ERROR:", msg)
        if out:
            print(out[-4000:], flush=True)
        self.write_evidence(extra={"tool_error": msg})
        # violations already reported (each with its VIOLATION line and replay file) are not masked by a later tool error
        sys.exit(1 if self.violations > 0 else 2)

    # -- model checking bookkeeping
    def add_mc(self, r, what):
        self.cov["states"] += r["distinct"]
        self.cov["transitions"] += r["generated"]
        self.notes.setdefault("tlc_runs", []).append(
            {"what": what, "distinct": r["distinct"], "generated": r["generated"], "depth": r["depth"],
             "wall_s": round(r["wall"], 1), "actions_covered": len([a for a, n in r["coverage"].items() if n > 0]),
             "actions_never_taken": sorted(a for a, n in r["coverage"].items() if n == 0)})

    def expect_mc_ok(self, r, what, vacuity_exempt=()):
        """Exhaustive run must finish with no error and no action left uncovered (vacuity)."""
        if r.get("error") == "timeout" or r["rc"] == 124:
            self.tool_error("TLC timeout: " + what, r["out"])
        if not r["ok"] and not r["invariant"] and not re.search(r"violated|Deadlock reached", r.get("error") or ""):
            # TLC was killed, ran out of memory or could not evaluate the spec: that decides nothing about the property
            self.tool_error("TLC did not finish: %s: rc=%s error=%s" % (what, r["rc"], r["error"]), r["out"][-3000:])
        if r["invariant"] or not r["ok"]:
            # a violation of the property on the specification itself
            p = self.path("tlc_counterexample_%s.txt" % re.sub(r"\W+", "_", what))
            open(p, "w").write(r["out"][-200000:])
            self.violation("TLC: %s: invariant %s / %s" % (what, r["invariant"], r["error"]), replay_src=p)
            return False
        never = [a for a, n in r["coverage"].items() if n == 0 and a not in vacuity_exempt]
        if never:
            self.tool_error("vacuous model: actions never taken in %s: %s" % (what, never), r["out"][-3000:])
        self.add_mc(r, what)
        return True

    def write_evidence(self, extra=None):
        if getattr(self, "is_replay", False):
            return
        cov = dict(self.cov)
        cov.update(self.notes)
        if extra:
            cov.update(extra)
        if not cov["samples"]:
            cov["samples"] = ["(none)"]
        ev = {"property_id": self.pid, "tier": self.tier, "seed": self.seed, "level": "model_checking",
              "coverage": cov, "assumptions": self.assumptions, "wall_s": round(time.time() - self.t0, 1),
              "violations": self.violations}
        json.dump(ev, open(os.path.join(EVID, self.pid + ".json"), "w"), indent=1)

    def finish(self):
        self.write_evidence()
        self.log("done: violations=%d known=%s wall=%.1fs" % (self.violations, sorted(self.known_printed), time.time() - self.t0))
        sys.exit(1 if self.violations else 0)


def split_runs(trace_path):
    """Split a concatenated ndjson trace at `reset` events -> list of (start_line_index, lines)."""
    runs, cur, start = [], [], 0
    with open(trace_path) as f:
        for i, line in enumerate(f):
            if '"ev":"reset"' in line and cur:
                runs.append((start, cur))
                cur, start = [], i
            cur.append(line)
    if cur:
        runs.append((start, cur))
    return runs


def run_containing(trace_path, line_no):
    """The run (list of lines) containing 1-based trace line `line_no`."""
    runs = split_runs(trace_path)
    for start, lines in runs:
        if start < line_no <= start + len(lines):
            return lines
    return runs[-1][1] if runs else []


def validate_concat(chk, specdir, module, cfg, trace_path, what, known_map=None, max_rounds=6, timeout=900):
    """Validate a concatenated trace. On a rejection / invariant violation the failing run is cut out,
    reported (VIOLATION with that run as replay file) and validation continues with the rest, so one
    bad run never hides the others.  known_map: KNOWN tag -> finding id.
    Returns number of runs validated."""
    runs = split_runs(trace_path)
    total = len(runs)
    lines = [l for _, ls in runs for l in ls]
    offset_runs = runs
    rounds = 0
    cur_path = trace_path
    while True:
        rounds += 1
        r = tlc_trace(specdir, module, cfg, cur_path, timeout=timeout)
        for tag, txt in r["known"]:
            fid = (known_map or {}).get(tag, tag)
            if not chk.known(fid, txt):
                chk.violation("%s: unlisted finding %s %s" % (what, tag, txt), payload={"tag": tag, "text": txt})
        chk.cov["evaluations"] += r["distinct"]
        if r["accepted"]:
            return total
        if r.get("error") == "timeout":
            chk.tool_error("trace validation timeout: " + what, r["out_tail"])
        if r["invariant"] is None and r["rejected_at"] is None:
            chk.tool_error("trace validation failed without verdict: " + what, r["out_head"] + r["out_tail"])
        # locate failing run: rejected_at = index (1-based) of first unmatched line; for an invariant
        # violation the diameter equals the number of states = matched lines + 1
        bad_line = r["rejected_at"] if r["rejected_at"] else None
        if bad_line is None:
            m = re.search(r"(\d+) states generated", r["out_tail"])
            bad_line = max(1, int(m.group(1)) - 1) if m else 1
        cur_runs = split_runs(cur_path)
        bad_idx = 0
        for i, (start, ls) in enumerate(cur_runs):
            if start < bad_line <= start + len(ls):
                bad_idx = i
        bad = cur_runs[bad_idx][1]
        rp = chk.path("bad_run_%d.ndjson" % chk.violations)
        open(rp, "w").writelines(bad)
        why = ("%s: invariant %s violated" % (what, r["invariant"])) if r["invariant"] else \
              ("%s: trace rejected at event %s" % (what, r["rejected_event"]))
        chk.violation(why, replay_src=rp)
        rest = [l for i, (_, ls) in enumerate(cur_runs) if i > bad_idx for l in ls]
        if not rest or rounds >= max_rounds:
            return total
        cur_path = chk.path("rest_%d.ndjson" % rounds)
        open(cur_path, "w").writelines(rest)
